#!/bin/sh
# MANIFEST.setup_cmd — offline: regenerate the tables from /repo, build every model, proof and the driver.
cd "$(dirname "$0")" || exit 2
set -e
/venv/bin/python vf/translate.py > /dev/null
/venv/bin/python vf/mkroot.py
cd lean
lake build QExPy driver 2>&1 | grep -v '^✔' | tail -40
test -x .lake/build/bin/driver

#!/bin/sh
# vf/confirm_seed.sh <seed dir> — confirm a seeded change in a scratch worktree only
# (demo ok unchanged, patch applies, 47 tests pass with change, demo fails with change)
d=$(cd "$1" && pwd)
wt=/tmp/seedconfirm-$$
git -C /repo worktree add -q --detach $wt HEAD || exit 2
( cd $wt && /venv/bin/python $d/demo.py >/dev/null 2>&1; a=$?
  git apply $d/patch.diff || echo "PATCH DOES NOT APPLY"
  t=$(/venv/bin/python -m pytest -q -p no:cacheprovider 2>&1 | tail -1)
  /venv/bin/python $d/demo.py >/dev/null 2>&1; b=$?
  echo "$(basename $d) demo_unchanged_exit=$a demo_changed_exit=$b tests: $t" )
git -C /repo worktree remove --force $wt

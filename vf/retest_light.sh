#!/bin/sh
# vf/retest_light.sh [names...] — every seeded change against the current checks, WITHOUT replaying /
# harvesting (one check run per change): prints  <name> <property> caught|no-input|MISSED
cd /verif
names="$@"; [ -z "$names" ] && names=$(ls seeded | sort -V)
for name in $names; do
  d=/verif/seeded/$name
  pid=$(/venv/bin/python -c "import json;print(json.load(open('$d/meta.json'))['property'])")
  git -C /repo apply $d/patch.diff || { echo "$name PATCH-DOES-NOT-APPLY"; continue; }
  line=$(./check $pid 2>/dev/null | grep VIOLATION | head -1)
  git -C /repo checkout -- .
  kind=caught
  case "$line" in *no-failing-input-found*) kind=no-input;; "") kind=MISSED;; esac
  echo "$name $pid $kind"
done
test -z "$(git -C /repo status --short)" && echo "repo clean"

#!/bin/sh
# vf/retest_seeds.sh [names...] — every seeded change against the current checks; harvest corpus
# (framework = the directory this script lives in; library = $QEXPY_REPO, default /repo)
V=$(cd "$(dirname "$0")/.." && pwd)
R=${QEXPY_REPO:-/repo}
export QEXPY_REPO=$R
cd "$V" || exit 2
names="$@"; [ -z "$names" ] && names=$(ls seeded)
for name in $names; do
  d=$V/seeded/$name
  pid=$(/venv/bin/python -c "import json;print(json.load(open('$d/meta.json'))['property'])")
  git -C "$R" apply $d/patch.diff || { echo "$name PATCH-DOES-NOT-APPLY"; continue; }
  out=$(./check $pid 2>/dev/null | grep -E "VIOLATION|tier=")
  line=$(echo "$out" | grep VIOLATION | head -1)
  rp=$(echo "$line" | sed -n 's/.*replay=\([^ ]*\).*/\1/p')
  kind=caught
  case "$line" in *no-failing-input-found*) kind=no-input; rp="";; "") kind=MISSED;; esac
  kept=-
  if [ -n "$rp" ] && [ -f "$rp" ]; then
    ./check $pid --replay $rp >/dev/null 2>&1; r1=$?
    git -C "$R" checkout -- .
    ./check $pid --replay $rp >/dev/null 2>&1; r0=$?
    if [ $r1 = 1 ] && [ $r0 = 0 ]; then mkdir -p corpus/$pid; cp $rp corpus/$pid/$name.json; kept=yes; else kept="no(r1=$r1,r0=$r0)"; fi
  else
    git -C "$R" checkout -- .
  fi
  echo "$name $pid $kind corpus=$kept"
done
test -z "$(git -C "$R" status --short)" && echo "repo clean"

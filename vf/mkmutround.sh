#!/bin/sh
# vf/mkmutround.sh — scratch worktrees /tmp/mut-Cxx and briefs /tmp/mutprompt-Cxx.txt for a round of
# independent reviewers (each gets the property text and the list of what was already tried)
cd /verif
for i in 01 02 03 04 05 06 07 08 09 10 11 12 13 14 15 16 17 18 19 20; do
  id=C$i
  git -C /repo worktree add -q --detach /tmp/mut-$id HEAD || exit 2
  hint=$(/venv/bin/python - $id <<'PY'
import json, glob, sys
pid = sys.argv[1]
out = []
for p in sorted(glob.glob("seeded/%s-*/meta.json" % pid)):
    out.append("- " + json.load(open(p))["summary"][:170].replace("\n", " "))
print("(e) earlier reviewers already tried the changes listed below: do NOT repeat them or close variants; "
      "choose OTHER code sites and OTHER mechanisms (feature interactions, rarely used keyword arguments "
      "and call forms, other argument types, state that survives between operations, boundary and degenerate "
      "inputs, error paths, things that only show on the second use of an object). Already tried:\n     "
      + "\n     ".join(out))
PY
)
  /venv/bin/python vf/mutprompt.py $id "$hint" > /tmp/mutprompt-$id.txt
done
git -C /repo worktree list | wc -l

#!/bin/sh
# vf/mergeagent.sh X  — integrate contributor copy /work/aX (repo branch agent-X, verif copy)
X=$1; set -e
cd /repo
for c in $(git log --reverse --format=%h 208a02b..agent-$X); do
  subj=$(git log -1 --format=%s $c)
  if git log --format=%s main | grep -qxF "$subj"; then echo "skip (already on main): $subj"; continue; fi
  case "$subj" in *"dup of"*) echo "skip dup: $subj"; continue;; esac
  git cherry-pick $c >/dev/null || { echo "CHERRY-PICK CONFLICT at $c $subj"; exit 1; }
  echo "picked: $subj"
done
/venv/bin/python -m pytest -q -p no:cacheprovider 2>&1 | tail -1
cd /verif
git stash -q 2>/dev/null; git pull --no-edit /work/a$X/verif main 2>&1 | tail -3 || true
python3 vf/mergefix.py; python3 vf/mkall.py; /venv/bin/python vf/mkroot.py; /venv/bin/python vf/mkmanifest.py; python3 vf/fixhashes.py
git add -A; git commit -qm "merge agent $X" ; echo merged $X

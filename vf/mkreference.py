#!/venv/bin/python
"""Refresh lean/Reference/*.lean (the tables the theorems were last proved for) from the CLEAN
/repo: refuses when /repo has uncommitted changes or a translator section is broken."""
import os
import subprocess
import sys

HERE = os.path.dirname(os.path.abspath(__file__))
sys.path.insert(0, HERE)
import translate  # noqa: E402

dirty = subprocess.run(["git", "-C", translate.REPO, "status", "--short"], capture_output=True,
                       text=True).stdout.strip()
if dirty:
    sys.exit("refusing: {} has uncommitted changes:\n{}".format(translate.REPO, dirty))
ref = os.path.join(os.path.dirname(HERE), "lean", "Reference")
os.makedirs(ref, exist_ok=True)
for name in translate.SECTIONS.all():
    fname, text, broken = translate.SECTIONS[name]()
    if broken:
        sys.exit("refusing: section {} broken: {}".format(name, broken))
    translate.write_if_changed(os.path.join(translate.GEN, fname), text)
    translate.write_if_changed(os.path.join(ref, fname), text)
    print("reference", fname, "ok")

"""translator section `fitters`: qexpy/fitting/utils.py FITTERS / DEFAULT_PARNAMES

Every pre-set model lambda is translated *structurally* into a builder of formula trees
(`Expr`): the Python operators applied to qexpy values build exactly these trees
(`a * x` -> `Expr.bin .mul a x`, `op.exp(t)` -> `Expr.un .exp t`), and applied to plain floats
they compute what `Expr.eval` computes.  The variadic polynomial

    lambda x, *coeffs: functools.reduce(lambda a, b: a * x + b, <iterable of coeffs>)

becomes `Expr.reduce1 (fun a b => ...) <iterable>` with the iterable kept as written
(`coeffs` -> `ps`, `reversed(coeffs)` / `coeffs[::-1]` -> `ps.reverse`), so the order in
which the code walks the coefficients is visible in the generated Lean term.
"""
import ast

from translate import (Unsupported, ExprTr, src, literals, find_assign, lit_key, where,
                       lean_strlist)

MODELS = ["linear", "quadratic", "polynomial", "exponential", "gaussian"]

# op.<name>(t) on a qexpy value builds a formula node with this operator
OP_CALLS = {"sqrt": "sqrt", "exp": "exp", "sin": "sin", "cos": "cos", "tan": "tan", "sec": "sec",
            "csc": "csc", "cot": "cot", "asin": "asin", "acos": "acos", "atan": "atan",
            "log10": "log10", "log": "ln"}
BIN = {ast.Add: "add", ast.Sub: "sub", ast.Mult: "mul", ast.Div: "div", ast.Pow: "pow"}


class TreeTr(ExprTr):
    """ExprTr with `Expr` constructors as the target instead of `Num` functions"""

    def __init__(self, path, names, modules=("op",)):
        ExprTr.__init__(self, path, names=names, modules=modules)

    def tr(self, n):
        if isinstance(n, ast.Constant):
            if isinstance(n.value, bool) or not isinstance(n.value, int) or n.value < 0:
                self.bad(n, "constant {!r}".format(n.value))
            return "(Expr.const (Num.ofNat {}))".format(n.value)
        if isinstance(n, ast.Name):
            if n.id in self.names:
                return self.names[n.id]
            self.bad(n, "name {}".format(n.id))
        if isinstance(n, ast.UnaryOp):
            if isinstance(n.op, ast.USub):
                return "(Expr.un .neg {})".format(self.tr(n.operand))
            if isinstance(n.op, ast.UAdd):
                return self.tr(n.operand)
            self.bad(n, "unary operator")
        if isinstance(n, ast.BinOp):
            f = BIN.get(type(n.op))
            if not f:
                self.bad(n, "binary operator {}".format(type(n.op).__name__))
            return "(Expr.bin .{} {} {})".format(f, self.tr(n.left), self.tr(n.right))
        if isinstance(n, ast.Attribute):
            if isinstance(n.value, ast.Name) and n.value.id in self.modules and n.attr == "pi":
                return "(Expr.const Num.pi)"
            self.bad(n, "attribute .{}".format(n.attr))
        if isinstance(n, ast.Call):
            f = n.func
            if n.keywords:
                self.bad(n, "keyword arguments")
            if isinstance(f, ast.Attribute) and isinstance(f.value, ast.Name) and \
                    f.value.id in self.modules and f.attr in OP_CALLS and len(n.args) == 1:
                return "(Expr.un .{} {})".format(OP_CALLS[f.attr], self.tr(n.args[0]))
            self.bad(n, "call")
        self.bad(n, type(n).__name__)


def iterable(node, vararg, rest, path):
    """the iterable handed to functools.reduce: coeffs | reversed(coeffs) | coeffs[::-1]"""
    if isinstance(node, ast.Name) and node.id == vararg:
        return rest
    if isinstance(node, ast.Call) and isinstance(node.func, ast.Name) and \
            node.func.id == "reversed" and len(node.args) == 1 and not node.keywords:
        return "({}).reverse".format(iterable(node.args[0], vararg, rest, path))
    if isinstance(node, ast.Subscript) and isinstance(node.slice, ast.Slice):
        s = node.slice
        if s.lower is None and s.upper is None and isinstance(s.step, ast.UnaryOp) and isinstance(
                s.step.op, ast.USub) and isinstance(s.step.operand, ast.Constant) and \
                s.step.operand.value == 1:
            return "({}).reverse".format(iterable(node.value, vararg, rest, path))
    if isinstance(node, ast.Call) and isinstance(node.func, ast.Name) and \
            node.func.id in ("list", "tuple", "iter") and len(node.args) == 1 and not node.keywords:
        return iterable(node.args[0], vararg, rest, path)
    raise Unsupported("{}: iterable of the coefficient fold".format(where(node, path)))


def lam(val, path):
    """one FITTERS entry -> (lean term over x, ps ; number of fixed parameters ; variadic?)"""
    if not isinstance(val, ast.Lambda):
        raise Unsupported("{}: model is not a lambda".format(where(val, path)))
    a = val.args
    if a.kwonlyargs or a.kwarg or a.defaults or a.posonlyargs:
        raise Unsupported("{}: lambda signature".format(where(val, path)))
    args = [x.arg for x in a.args]
    if not args:
        raise Unsupported("{}: model without a variable".format(where(val, path)))
    names = {args[0]: "x"}
    for k, nm in enumerate(args[1:]):
        names[nm] = "(Expr.arg ps {})".format(k)
    fixed = len(args) - 1
    body = val.body
    if a.vararg is None:
        return TreeTr(path, names).tr(body), fixed, False
    # variadic: the body must be functools.reduce(lambda a, b: <expr>, <iterable>)
    rest = "ps" if fixed == 0 else "(ps.drop {})".format(fixed)
    if not (isinstance(body, ast.Call) and not body.keywords and len(body.args) == 2
            and ((isinstance(body.func, ast.Attribute) and body.func.attr == "reduce"
                  and isinstance(body.func.value, ast.Name) and body.func.value.id == "functools")
                 or (isinstance(body.func, ast.Name) and body.func.id == "reduce"))):
        raise Unsupported("{}: variadic model is not a functools.reduce fold".format(
            where(body, path)))
    f, it = body.args
    if not (isinstance(f, ast.Lambda) and len(f.args.args) == 2 and not f.args.vararg
            and not f.args.defaults and not f.args.kwonlyargs and not f.args.kwarg):
        raise Unsupported("{}: fold step is not a two-argument lambda".format(where(f, path)))
    acc, item = f.args.args[0].arg, f.args.args[1].arg
    inner = dict(names)
    inner[acc], inner[item] = "acc", "item"
    step = TreeTr(path, inner).tr(f.body)
    return "(Expr.reduce1 (fun acc item => {}) {})".format(
        step, iterable(it, a.vararg.arg, rest, path)), fixed, True


def gen():
    path = "qexpy/fitting/utils.py"
    lits = literals()
    tree = ast.parse(src(path))
    broken = []
    rules, arity, variadic = {}, {}, {}
    try:
        node = find_assign(tree, "FITTERS")
        if not isinstance(node, ast.Dict):
            raise Unsupported("{}: FITTERS is not a dict literal".format(path))
        for k, v in zip(node.keys, node.values):
            try:
                key = lit_key(k, lits, path)
                rules[key], arity[key], variadic[key] = lam(v, path)
            except Unsupported as e:
                broken.append(str(e))
    except Unsupported as e:
        broken.append(str(e))
    if sorted(rules) != sorted(MODELS) and not broken:
        broken.append("{}: keys of FITTERS are {} (model alphabet {})".format(
            path, sorted(rules), sorted(MODELS)))

    parnames = {}
    try:
        node = find_assign(tree, "DEFAULT_PARNAMES")
        if not isinstance(node, ast.Dict):
            raise Unsupported("{}: DEFAULT_PARNAMES is not a dict literal".format(path))
        for k, v in zip(node.keys, node.values):
            key = lit_key(k, lits, path)
            if not (isinstance(v, ast.List) and all(
                    isinstance(e, ast.Constant) and isinstance(e.value, str) for e in v.elts)):
                raise Unsupported("{}: DEFAULT_PARNAMES[{}]".format(where(v, path), key))
            parnames[key] = [e.value for e in v.elts]
    except Unsupported as e:
        broken.append(str(e))

    zero = "(Expr.const (Num.ofNat 0))"

    def arm(fmt, tab, default):
        return "\n".join("  | .{} => {}".format(m, fmt(tab[m]) if m in tab else default)
                         for m in MODELS)

    text = """/- GENERATED by vf/translate.py from {path} — do not edit. -/
import QExPy.Model.FitBase
namespace QExPy.Gen
variable {{α : Type}} [Num α]

/-- reasons the translator could not follow the source (empty = tie intact) -/
def fittersTieBroken : List String := {broken}

/-- FITTERS[model](x, *ps) as the formula tree the Python operators build
    (`x` and the parameters are formula trees themselves) -/
def fitRule (m : FitModel) (x : Expr α) (ps : List (Expr α)) : Expr α :=
  match m with
{rules}

/-- number of named parameters in the lambda's signature (the variable excluded) -/
def fitFixedParams : FitModel → Nat
{arity}

/-- the signature ends in a `*args` parameter -/
def fitVariadic : FitModel → Bool
{variadic}

/-- DEFAULT_PARNAMES -/
def fitParnames : FitModel → List String
{parnames}

end QExPy.Gen
""".format(path=path, broken=lean_strlist(broken),
           rules=arm(lambda t: t, rules, zero),
           arity=arm(str, arity, "0"),
           variadic=arm(lambda b: "true" if b else "false", variadic, "false"),
           parnames=arm(lean_strlist, parnames, "[]"))
    return "Fitters.lean", text, broken

"""translator section `session`: the life cycle of a calculated quantity that the session state
machine `Model/World.lean` mirrors (C05, C15) — which evaluator answers a read, what a result
memoises, what `recalculate()` drops, how the method selection is stored and reset.

Everything here is control flow, not arithmetic, so the tie is structural (`tr/_shape.py`): the
bodies of the methods below, docstrings / messages / annotations dropped and names canonicalised,
must be the statement lists the model was written for.  A difference breaks the tie (with the first
differing statement as the reason); the failing-input search then decides whether behaviour changed.
One Lean definition is generated from the `error_method` getter (`Gen.effMethodOf`), which
`World.effMethod` is proved equal to (`C15_effMethod_tie`).

  qexpy/data/data.py        class DerivedValue: __init__, value / error / relative_error getters,
                            error_method getter + setter, reset_error_method, mc, recalculate,
                            __get_value_error_pair
  qexpy/data/operations.py  class DerivativeEvaluator: __init__, evaluate, clear
                            (class MonteCarloEvaluator is section `mcwalk`)
"""
import ast

from translate import Unsupported, src, lean_strlist
from tr._arr import classes_of, method
from tr._shape import same_shape, DropMsg as _DropMsg

DT = "qexpy/data/data.py"
OP = "qexpy/data/operations.py"

DERIVED_SHAPES = {
    ("__init__", None): """
def __init__(self, formula):
    self.__error_method = ErrorMethod.AUTO
    self._formula = formula
    self.__evaluators = {lit.DERIVATIVE: op.DerivativeEvaluator(), lit.MONTE_CARLO: op.MonteCarloEvaluator()}
    super().__init__(save=True)
    self._unit = op.propagate_units(formula)
""",
    ("value", "getter"): """
def value(self):
    return self.__get_value_error_pair().value
""",
    ("error", "getter"): """
def error(self):
    return self.__get_value_error_pair().error
""",
    ("relative_error", "getter"): """
def relative_error(self):
    return self.error / self.value if self.value != 0 else 0.0
""",
    ("error_method", "getter"): """
def error_method(self):
    if self.__error_method == ErrorMethod.AUTO:
        return sts.get_settings().error_method
    return self.__error_method
""",
    ("error_method", "setter"): """
def error_method(self, new_error_method):
    if isinstance(new_error_method, ErrorMethod):
        self.__error_method = new_error_method
    elif new_error_method in [lit.MONTE_CARLO, lit.DERIVATIVE]:
        self.__error_method = ErrorMethod(new_error_method)
    else:
        raise ValueError('')
""",
    ("reset_error_method", None): """
def reset_error_method(self):
    self.__error_method = ErrorMethod.AUTO
""",
    ("mc", "getter"): """
def mc(self):
    evaluator = self.__evaluators[lit.MONTE_CARLO]
    assert isinstance(evaluator, op.MonteCarloEvaluator)
    evaluator.regenerate_samples(self._formula)
    return evaluator.settings
""",
    ("recalculate", None): """
def recalculate(self):
    for evaluator in self.__evaluators.values():
        evaluator.clear()
    self._unit = op.propagate_units(self._formula)
""",
    ("__get_value_error_pair", None): """
def __get_value_error_pair(self):
    error_method = self.error_method.value
    return self.__evaluators[error_method].evaluate(self._formula)
""",
}

EVALUATOR_SHAPES = {
    ("__init__", None): """
def __init__(self):
    self.result = ()
    self.measurements = []
    self.error_contributions = []
""",
    ("evaluate", None): """
def evaluate(self, formula):
    if not self.result:
        self.result = self.__evaluate(formula)
    return self.result
""",
    ("clear", None): """
def clear(self):
    self.result = ()
    self.measurements = []
    self.error_contributions = []
""",
}


class _DropAnn(ast.NodeTransformer):
    """`x: T = v` -> `x = v` (type comments are not in the AST anyway)"""

    def visit_AnnAssign(self, node):
        if node.value is None:
            return None
        return ast.copy_location(ast.Assign(targets=[node.target], value=node.value), node)


def _check(cls, shapes, path, cname, broken):
    ok = set()
    for (name, kind), shape in shapes.items():
        try:
            orig = method(cls, name, path, kind)
            fn = _DropAnn().visit(_DropMsg().visit(ast.parse(ast.unparse(orig)).body[0]))
            fn.returns = None
            ast.fix_missing_locations(fn)
            ast.increment_lineno(fn, orig.lineno - fn.lineno)
            same_shape(fn, shape, path, "{}.{}{}".format(cname, name, " ({})".format(kind) if kind else ""))
            ok.add((name, kind))
        except Unsupported as e:
            broken.append(str(e))
    return ok


def gen():
    broken = []
    ok = set()
    try:
        cls = classes_of(ast.parse(src(DT))).get("DerivedValue")
        if cls is None:
            raise Unsupported("{}: class DerivedValue missing".format(DT))
        ok |= _check(cls, DERIVED_SHAPES, DT, "DerivedValue", broken)
        ev = classes_of(ast.parse(src(OP))).get("DerivativeEvaluator")
        if ev is None:
            raise Unsupported("{}: class DerivativeEvaluator missing".format(OP))
        _check(ev, EVALUATOR_SHAPES, OP, "DerivativeEvaluator", broken)
    except Unsupported as e:
        broken.append(str(e))
    except (SyntaxError, ValueError, AttributeError, IndexError, TypeError, KeyError) as e:
        broken.append("session: {}: {}".format(type(e).__name__, e))
    # the getter `error_method`: own selection unless it is the AUTO marker, then the global one
    eff = "match own with | some m => m | none => glob" if ("error_method", "getter") in ok and \
        ("reset_error_method", None) in ok and ("__init__", None) in ok else "glob"
    text = """/- GENERATED by vf/translate.py from {dt}, {op} — do not edit. -/
namespace QExPy.Gen

/-- reasons the translator could not follow the source (empty = tie intact) -/
def sessionTieBroken : List String := {broken}

/-- `DerivedValue.error_method` (getter): the quantity's own selection (`none` = the AUTO marker,
    which `__init__` and `reset_error_method` store) or else the global setting -/
def effMethodOf {{M : Type}} (own : Option M) (glob : M) : M := {eff}

end QExPy.Gen
""".format(dt=DT, op=OP, broken=lean_strlist(broken), eff=eff)
    return "Session.lean", text, broken

"""translator section `settings`: qexpy/settings/settings.py (+ literals.py)

Generated into lean/QExPy/Generated/Settings.lean:
  * `members`        — the members (name, literal string) of the four Enum classes
  * `setterClass/setterConv/setterStrings` — for the three enum-valued setters: the class tested
                       by `isinstance`, the class used to convert an accepted string, and the
                       list of strings accepted by `x in [...]`
  * `initCfg`        — the dict literal of `Settings.__init__`   (state of a fresh session)
  * `resetCfg`       — the assignments of `Settings.reset` applied to an arbitrary state
  * `tempRestores`   — after which outcomes of the wrapped function (returned / raised a class
                       derived from Exception / raised any other BaseException) does
                       `use_mc_sample_size` write the saved size back?
Anything outside the recognised shapes is reported as broken (the model then has placeholders).
"""
import ast

from translate import Unsupported, src, literals, where, lean_str, lean_strlist

PATH = "qexpy/settings/settings.py"
ENUMS = {"ErrorMethod": "errorMethod", "PrintStyle": "printStyle", "UnitStyle": "unitStyle",
         "SigFigMode": "sigFigMode"}
# option key (literal NAME in literals.py) -> (Cfg field(s), enum class or kind)
FIELDS = {
    "ERROR_METHOD": ("errorMethod", "ErrorMethod"),
    "PRINT_STYLE": ("printStyle", "PrintStyle"),
    "UNIT_STYLE": ("unitStyle", "UnitStyle"),
    "SIG_FIGS/SIG_FIG_MODE": ("sigMode", "SigFigMode"),
    "SIG_FIGS/SIG_FIG_VALUE": ("sigVal", "int"),
    "MONTE_CARLO_SAMPLE_SIZE": ("mcSize", "int"),
    "PLOT_DIMENSIONS": ("plot", "pair"),
}
SETTERS = {"error_method": ("ErrorMethod", "ERROR_METHOD"), "print_style": ("PrintStyle", "PRINT_STYLE"),
           "unit_style": ("UnitStyle", "UNIT_STYLE")}


def lit_name(node):
    """lit.NAME -> NAME"""
    if isinstance(node, ast.Attribute) and isinstance(node.value, ast.Name) and node.value.id == "lit":
        return node.attr
    raise Unsupported("{}: expected lit.<NAME>".format(where(node, PATH)))


def lean_float(x):
    if isinstance(x, bool) or not isinstance(x, (int, float)):
        raise Unsupported("{}: number expected, got {!r}".format(PATH, x))
    if x != x:
        return ".nan"
    if x in (float("inf"), float("-inf")):
        return ".posInf" if x > 0 else ".negInf"
    n, d = (x, 1) if isinstance(x, int) else x.as_integer_ratio()
    return "(.fin ({}) {})".format(n, d)


class Tr:
    def __init__(self):
        self.lits = literals()
        self.tree = ast.parse(src(PATH))
        self.broken = []
        self.members = {}      # class -> [(NAME, literal)]

    # ---------------------------------------------------------------- enum classes
    def enums(self):
        for node in self.tree.body:
            if isinstance(node, ast.ClassDef) and node.name in ENUMS:
                mem = []
                for s in node.body:
                    if isinstance(s, ast.Expr) and isinstance(s.value, ast.Constant):
                        continue
                    try:
                        if not (isinstance(s, ast.Assign) and len(s.targets) == 1
                                and isinstance(s.targets[0], ast.Name)):
                            raise Unsupported("{}: statement in enum {}".format(where(s, PATH), node.name))
                        if isinstance(s.value, ast.Constant) and isinstance(s.value.value, str):
                            val = s.value.value
                        else:
                            nm = lit_name(s.value)
                            if nm not in self.lits:
                                raise Unsupported("{}: unknown literal lit.{}".format(where(s, PATH), nm))
                            val = self.lits[nm]
                        mem.append((s.targets[0].id, val))
                    except Unsupported as e:
                        self.broken.append(str(e))
                self.members[node.name] = mem
        for c in ENUMS:
            if c not in self.members:
                self.broken.append("{}: enum class {} not found".format(PATH, c))
                self.members[c] = []

    def settings_class(self):
        for node in self.tree.body:
            if isinstance(node, ast.ClassDef) and node.name == "Settings":
                return node
        raise Unsupported("{}: class Settings not found".format(PATH))

    def method(self, cls, name, setter=False):
        for s in cls.body:
            if isinstance(s, ast.FunctionDef) and s.name == name:
                is_setter = any(isinstance(d, ast.Attribute) and d.attr == "setter"
                                for d in s.decorator_list)
                if is_setter == setter:
                    return s
        raise Unsupported("{}: Settings.{}{} not found".format(PATH, name, " setter" if setter else ""))

    # ---------------------------------------------------------------- values
    def value(self, node, kind):
        """python value expression -> dict of Cfg field -> lean term"""
        if kind in ENUMS:
            if not (isinstance(node, ast.Attribute) and isinstance(node.value, ast.Name)):
                raise Unsupported("{}: enum member expected".format(where(node, PATH)))
            if node.value.id != kind:
                raise Unsupported("{}: member of {} stored in an option of type {}".format(
                    where(node, PATH), node.value.id, kind))
            names = [m[0] for m in self.members[kind]]
            if node.attr not in names:
                raise Unsupported("{}: {} has no member {}".format(where(node, PATH), kind, node.attr))
            return str(names.index(node.attr))
        if kind == "int":
            if isinstance(node, ast.Constant) and isinstance(node.value, int) and not isinstance(
                    node.value, bool):
                return "({})".format(node.value)
            raise Unsupported("{}: integer literal expected".format(where(node, PATH)))
        if kind == "pair":
            if isinstance(node, ast.Tuple) and len(node.elts) == 2 and all(
                    isinstance(e, ast.Constant) for e in node.elts):
                return [lean_float(e.value) for e in node.elts]
            raise Unsupported("{}: pair of numbers expected".format(where(node, PATH)))
        raise Unsupported("kind " + kind)

    def assign_fields(self, key, node, out):
        if key not in FIELDS:
            raise Unsupported("{}: option {} is not in the model's alphabet".format(where(node, PATH), key))
        field, kind = FIELDS[key]
        v = self.value(node, kind)
        if kind == "pair":
            out["plotW"], out["plotH"] = v
        else:
            out[field] = v

    def init_cfg(self, cls):
        out = {}
        fn = self.method(cls, "__init__")
        dicts = [s for s in fn.body if isinstance(s, ast.Assign) and isinstance(s.value, ast.Dict)]
        if len(dicts) != 1:
            raise Unsupported("{}: __init__ does not assign exactly one dict literal".format(where(fn, PATH)))
        for k, v in zip(dicts[0].value.keys, dicts[0].value.values):
            try:
                key = lit_name(k)
                if isinstance(v, ast.Dict):
                    for k2, v2 in zip(v.keys, v.values):
                        self.assign_fields(key + "/" + lit_name(k2), v2, out)
                else:
                    self.assign_fields(key, v, out)
            except Unsupported as e:
                self.broken.append(str(e))
        return out

    def reset_cfg(self, cls):
        out = {}
        fn = self.method(cls, "reset")
        for s in fn.body:
            if isinstance(s, ast.Expr) and isinstance(s.value, ast.Constant):
                continue
            try:
                if not (isinstance(s, ast.Assign) and len(s.targets) == 1
                        and isinstance(s.targets[0], ast.Subscript)):
                    raise Unsupported("{}: statement in reset()".format(where(s, PATH)))
                t = s.targets[0]
                keys = []
                while isinstance(t, ast.Subscript):
                    keys.insert(0, lit_name(t.slice))
                    t = t.value
                if not (isinstance(t, ast.Attribute) and t.attr.endswith("config")):
                    raise Unsupported("{}: reset() assigns to something else than the config dict".format(
                        where(s, PATH)))
                self.assign_fields("/".join(keys), s.value, out)
            except Unsupported as e:
                self.broken.append(str(e))
        return out

    # ---------------------------------------------------------------- enum setters
    def setter(self, cls, name):
        """if isinstance(x, C): cfg[K] = x / elif [isinstance(x, str) and] x in [..]: cfg[K] = C(x) / else: raise"""
        own, key = SETTERS[name]
        fn = self.method(cls, name, setter=True)
        arg = fn.args.args[1].arg
        body = [s for s in fn.body if not (isinstance(s, ast.Expr) and isinstance(s.value, ast.Constant))]
        bad = Unsupported("{}: setter {} is not of the shape isinstance / in-list / raise".format(
            where(fn, PATH), name))
        if len(body) != 1 or not isinstance(body[0], ast.If):
            raise bad
        i1 = body[0]

        def is_isinstance(t, cls_required=None):
            return (isinstance(t, ast.Call) and isinstance(t.func, ast.Name) and t.func.id == "isinstance"
                    and len(t.args) == 2 and isinstance(t.args[0], ast.Name) and t.args[0].id == arg
                    and isinstance(t.args[1], ast.Name)
                    and (cls_required is None or t.args[1].id == cls_required))

        def stores(stmts, conv):
            """exactly: self.__config[lit.KEY] = arg   or   = Conv(arg)"""
            if len(stmts) != 1 or not isinstance(stmts[0], ast.Assign):
                return None
            s = stmts[0]
            t = s.targets[0]
            if not (isinstance(t, ast.Subscript) and isinstance(t.value, ast.Attribute)
                    and t.value.attr.endswith("config")):
                return None
            if lit_name(t.slice) != key:
                raise Unsupported("{}: setter {} writes option {}".format(where(s, PATH), name, lit_name(t.slice)))
            v = s.value
            if not conv:
                return "same" if isinstance(v, ast.Name) and v.id == arg else None
            if (isinstance(v, ast.Call) and isinstance(v.func, ast.Name) and len(v.args) == 1
                    and isinstance(v.args[0], ast.Name) and v.args[0].id == arg):
                return v.func.id
            return None

        if not is_isinstance(i1.test) or stores(i1.body, False) != "same":
            raise bad
        cls_tested = i1.test.args[1].id
        if len(i1.orelse) != 1 or not isinstance(i1.orelse[0], ast.If):
            raise bad
        i2 = i1.orelse[0]
        t = i2.test
        guard = False
        if isinstance(t, ast.BoolOp) and isinstance(t.op, ast.And) and len(t.values) == 2 and \
                is_isinstance(t.values[0], "str"):
            guard, t = True, t.values[1]
        if not (isinstance(t, ast.Compare) and len(t.ops) == 1 and isinstance(t.ops[0], ast.In)
                and isinstance(t.left, ast.Name) and t.left.id == arg
                and isinstance(t.comparators[0], (ast.List, ast.Tuple))):
            raise bad
        strings = []
        for e in t.comparators[0].elts:
            if isinstance(e, ast.Constant) and isinstance(e.value, str):
                strings.append(e.value)
            else:
                strings.append(self.lits[lit_name(e)])
        conv = stores(i2.body, True)
        if conv is None or conv not in ENUMS:
            raise bad
        if len(i2.orelse) != 1 or not isinstance(i2.orelse[0], ast.Raise):
            raise bad
        if cls_tested not in ENUMS:
            raise bad
        return cls_tested, conv, strings, guard

    # ---------------------------------------------------------------- integer setters
    def int_setter(self, cls, name, key):
        """if isinstance(x, int) and x > C: cfg[..][K] = x / else: raise   ->  exclusive lower bound C"""
        fn = self.method(cls, name, setter=True)
        arg = fn.args.args[1].arg
        body = [s for s in fn.body if not (isinstance(s, ast.Expr) and isinstance(s.value, ast.Constant))]
        bad = Unsupported("{}: setter {} is not of the shape `if isinstance(x, int) and x > c: store "
                          "else: raise`".format(where(fn, PATH), name))
        if len(body) != 1 or not isinstance(body[0], ast.If):
            raise bad
        i1 = body[0]
        t = i1.test
        if not (isinstance(t, ast.BoolOp) and isinstance(t.op, ast.And) and len(t.values) == 2):
            raise bad
        a, b = t.values
        if not (isinstance(a, ast.Call) and isinstance(a.func, ast.Name) and a.func.id == "isinstance"
                and len(a.args) == 2 and isinstance(a.args[0], ast.Name) and a.args[0].id == arg
                and isinstance(a.args[1], ast.Name) and a.args[1].id == "int"):
            raise bad
        if not (isinstance(b, ast.Compare) and len(b.ops) == 1 and isinstance(b.left, ast.Name)
                and b.left.id == arg and isinstance(b.comparators[0], ast.Constant)
                and isinstance(b.comparators[0].value, int)
                and not isinstance(b.comparators[0].value, bool)):
            raise bad
        c = b.comparators[0].value
        if isinstance(b.ops[0], ast.Gt):
            lower = c
        elif isinstance(b.ops[0], ast.GtE):
            lower = c - 1
        else:
            raise bad
        if len(i1.body) != 1 or not isinstance(i1.body[0], ast.Assign) or \
                not (isinstance(i1.body[0].value, ast.Name) and i1.body[0].value.id == arg):
            raise bad
        tgt = i1.body[0].targets[0]
        keys = []
        while isinstance(tgt, ast.Subscript):
            keys.insert(0, lit_name(tgt.slice))
            tgt = tgt.value
        if "/".join(keys) != key:
            raise Unsupported("{}: setter {} writes option {}".format(where(fn, PATH), name, "/".join(keys)))
        if len(i1.orelse) != 1 or not isinstance(i1.orelse[0], ast.Raise):
            raise bad
        return lower

    # ---------------------------------------------------------------- plot dimensions
    def plot_setter(self, cls):
        """if not isinstance(x, tuple) or len(x) != N: raise
           if any(not isinstance(num, (int, float)) or <num <= c | not num > c> for num in x): raise
           cfg[K] = x"""
        fn = self.method(cls, "plot_dimensions", setter=True)
        arg = fn.args.args[1].arg
        body = [s for s in fn.body if not (isinstance(s, ast.Expr) and isinstance(s.value, ast.Constant))]
        bad = Unsupported("{}: plot_dimensions setter is not of the shape tuple-of-N / all numbers "
                          "positive / store".format(where(fn, PATH)))
        if len(body) != 3 or not all(isinstance(s, ast.If) for s in body[:2]) or \
                not isinstance(body[2], ast.Assign):
            raise bad
        for s in body[:2]:
            if len(s.body) != 1 or not isinstance(s.body[0], ast.Raise) or s.orelse:
                raise bad
        t = body[0].test
        if not (isinstance(t, ast.BoolOp) and isinstance(t.op, ast.Or) and len(t.values) == 2):
            raise bad
        a, b = t.values
        if not (isinstance(a, ast.UnaryOp) and isinstance(a.op, ast.Not) and isinstance(a.operand, ast.Call)
                and isinstance(a.operand.func, ast.Name) and a.operand.func.id == "isinstance"
                and isinstance(a.operand.args[0], ast.Name) and a.operand.args[0].id == arg
                and isinstance(a.operand.args[1], ast.Name) and a.operand.args[1].id == "tuple"):
            raise bad
        if not (isinstance(b, ast.Compare) and isinstance(b.ops[0], ast.NotEq)
                and isinstance(b.left, ast.Call) and isinstance(b.left.func, ast.Name)
                and b.left.func.id == "len" and isinstance(b.comparators[0], ast.Constant)
                and isinstance(b.comparators[0].value, int)):
            raise bad
        length = b.comparators[0].value
        t = body[1].test
        if not (isinstance(t, ast.Call) and isinstance(t.func, ast.Name) and t.func.id == "any"
                and len(t.args) == 1 and isinstance(t.args[0], ast.GeneratorExp)
                and len(t.args[0].generators) == 1):
            raise bad
        g = t.args[0]
        gen = g.generators[0]
        if not (isinstance(gen.target, ast.Name) and isinstance(gen.iter, ast.Name)
                and gen.iter.id == arg and not gen.ifs):
            raise bad
        num = gen.target.id
        e = g.elt
        if not (isinstance(e, ast.BoolOp) and isinstance(e.op, ast.Or) and len(e.values) == 2):
            raise bad
        a, b = e.values
        if not (isinstance(a, ast.UnaryOp) and isinstance(a.op, ast.Not) and isinstance(a.operand, ast.Call)
                and isinstance(a.operand.func, ast.Name) and a.operand.func.id == "isinstance"
                and isinstance(a.operand.args[1], ast.Tuple)
                and sorted(x.id for x in a.operand.args[1].elts if isinstance(x, ast.Name)) == ["float", "int"]):
            raise bad

        def cmp_const(c, op):
            return (isinstance(c, ast.Compare) and len(c.ops) == 1 and isinstance(c.ops[0], op)
                    and isinstance(c.left, ast.Name) and c.left.id == num
                    and isinstance(c.comparators[0], ast.Constant)
                    and isinstance(c.comparators[0].value, int)
                    and not isinstance(c.comparators[0].value, bool))
        if cmp_const(b, ast.LtE):               # num <= c     (nan <= c is False: NaN passes)
            lower, rejects_nan = b.comparators[0].value, False
        elif isinstance(b, ast.UnaryOp) and isinstance(b.op, ast.Not) and cmp_const(b.operand, ast.Gt):
            lower, rejects_nan = b.operand.comparators[0].value, True     # not num > c
        else:
            raise bad
        s = body[2]
        if not (isinstance(s.value, ast.Name) and s.value.id == arg
                and isinstance(s.targets[0], ast.Subscript) and lit_name(s.targets[0].slice) == "PLOT_DIMENSIONS"):
            raise bad
        return length, lower, rejects_nan

    # ---------------------------------------------------------------- use_mc_sample_size
    def temp_wrapper(self):
        fn = None
        for node in self.tree.body:
            if isinstance(node, ast.FunctionDef) and node.name == "use_mc_sample_size":
                fn = node
        if fn is None:
            raise Unsupported("{}: use_mc_sample_size not found".format(PATH))
        size_arg = fn.args.args[0].arg
        inner = [n for n in ast.walk(fn) if isinstance(n, ast.FunctionDef) and n is not fn
                 and not any(isinstance(m, ast.FunctionDef) for m in n.body)]
        if len(inner) != 1:
            raise Unsupported("{}: use_mc_sample_size: inner wrapper not found".format(where(fn, PATH)))
        w = inner[0]
        body = [s for s in w.body if not (isinstance(s, ast.Expr) and isinstance(s.value, ast.Constant))]
        bad = Unsupported("{}: use_mc_sample_size wrapper is not save / set / run / restore / return".format(
            where(w, PATH)))

        def is_set(s, what):
            return (isinstance(s, ast.Expr) and isinstance(s.value, ast.Call)
                    and isinstance(s.value.func, ast.Name)
                    and s.value.func.id == "set_monte_carlo_sample_size" and len(s.value.args) == 1
                    and isinstance(s.value.args[0], ast.Name) and s.value.args[0].id == what)

        def is_run(s):
            return (isinstance(s, ast.Assign) and isinstance(s.value, ast.Call)
                    and isinstance(s.value.func, ast.Name) and len(s.targets) == 1
                    and isinstance(s.targets[0], ast.Name))

        def is_run_return(s):
            return (isinstance(s, ast.Return) and isinstance(s.value, ast.Call)
                    and isinstance(s.value.func, ast.Name))

        if len(body) < 3:
            raise bad
        s0 = body[0]
        if not (isinstance(s0, ast.Assign) and isinstance(s0.targets[0], ast.Name)
                and isinstance(s0.value, ast.Attribute) and s0.value.attr == "monte_carlo_sample_size"
                and isinstance(s0.value.value, ast.Call)):
            raise bad
        saved = s0.targets[0].id
        if not is_set(body[1], size_arg):
            raise bad
        rest = body[2:]
        # which outcomes of the wrapped function are followed by the restore:
        #   returned: True/False;  raised: "true" (every class), "isExc" (classes derived from
        #   Exception only), "false" (none)
        if isinstance(rest[0], ast.Try):
            tr = rest[0]
            if tr.orelse or len(tr.body) != 1:
                raise bad
            if not tr.handlers:
                # try: run  finally: restore
                if len(tr.finalbody) != 1 or not is_set(tr.finalbody[0], saved):
                    raise bad
                if is_run_return(tr.body[0]) and len(rest) == 1:     # try: return f(..) finally: ..
                    return {"returned": True, "raised": "true"}
                if not is_run(tr.body[0]):
                    raise bad
                res, tail = tr.body[0].targets[0].id, rest[1:]
                shape = {"returned": True, "raised": "true"}
            else:
                # try: run  except <C>: restore; raise   [restore]  return
                if tr.finalbody or len(tr.handlers) != 1 or not is_run(tr.body[0]):
                    raise bad
                h = tr.handlers[0]
                if h.type is None or (isinstance(h.type, ast.Name) and h.type.id == "BaseException"):
                    raised = "true"
                elif isinstance(h.type, ast.Name) and h.type.id == "Exception":
                    raised = "isExc"
                else:
                    raise bad
                if len(h.body) != 2 or not is_set(h.body[0], saved) or not (
                        isinstance(h.body[1], ast.Raise) and h.body[1].exc is None):
                    raise bad
                res, tail = tr.body[0].targets[0].id, rest[1:]
                if tail and is_set(tail[0], saved):
                    shape, tail = {"returned": True, "raised": raised}, tail[1:]
                else:
                    shape = {"returned": False, "raised": raised}
        else:
            if len(rest) < 3 or not is_run(rest[0]) or not is_set(rest[1], saved):
                raise bad
            res, tail = rest[0].targets[0].id, rest[2:]
            shape = {"returned": True, "raised": "false"}
        if len(tail) != 1 or not (isinstance(tail[0], ast.Return) and isinstance(tail[0].value, ast.Name)
                                  and tail[0].value.id == res):
            raise bad
        return shape


def sig_figs_method(tr, which):
    """Settings.set_sig_figs_for_<which>(n): FIRST `self.sig_fig_value = n` (the validating
    setter: a rejected number must leave the mode untouched), THEN the mode; the module-level
    function forwards to it.  Returns the member name of SigFigMode that is assigned."""
    from tr._shape import same_shape, fresh
    name = "set_sig_figs_for_" + which
    cls = tr.settings_class()
    fn = next((f for f in cls.body if isinstance(f, ast.FunctionDef) and f.name == name), None)
    if fn is None:
        raise Unsupported("{}: Settings.{} missing".format(PATH, name))
    fn = fresh(fn)
    body = [s for s in fn.body if not (isinstance(s, ast.Expr) and isinstance(s.value, ast.Constant))]
    last = body[-1] if body else None
    mode = None
    if isinstance(last, ast.Assign) and isinstance(last.value, ast.Attribute) and isinstance(
            last.value.value, ast.Name) and last.value.value.id == "SigFigMode":
        mode = last.value.attr
        last.value = ast.Name(id="CUT_MODE", ctx=ast.Load())
    if mode is None or mode not in [n for n, _ in tr.members.get("SigFigMode", [])]:
        raise Unsupported("{}: Settings.{} does not end by assigning a SigFigMode member".format(
            where(fn, PATH), name))
    same_shape(fn, """
def {}(self, new_sig_figs):
    self.sig_fig_value = new_sig_figs
    self.__config[lit.SIG_FIGS][lit.SIG_FIG_MODE] = CUT_MODE
""".format(name), PATH, "Settings." + name)
    top = next((f for f in tr.tree.body if isinstance(f, ast.FunctionDef) and f.name == name), None)
    if top is None:
        raise Unsupported("{}: def {} missing".format(PATH, name))
    same_shape(fresh(top), """
def {0}(new_sig_figs):
    get_settings().{0}(new_sig_figs)
""".format(name), PATH, name)
    return mode


def gen():
    tr = Tr()
    tr.enums()
    init, reset = {}, {}
    setters = {}
    ints = {"sigValLower": 0, "mcSizeLower": 0}
    plot = (2, 0, True)
    shape = {"returned": False, "raised": "false"}
    try:
        cls = tr.settings_class()
        try:
            init = tr.init_cfg(cls)
        except Unsupported as e:
            tr.broken.append(str(e))
        try:
            reset = tr.reset_cfg(cls)
        except Unsupported as e:
            tr.broken.append(str(e))
        for name in SETTERS:
            try:
                setters[name] = tr.setter(cls, name)
            except Unsupported as e:
                tr.broken.append(str(e))
        for nm, (setter_name, key) in {"sigValLower": ("sig_fig_value", "SIG_FIGS/SIG_FIG_VALUE"),
                                       "mcSizeLower": ("monte_carlo_sample_size",
                                                       "MONTE_CARLO_SAMPLE_SIZE")}.items():
            try:
                ints[nm] = tr.int_setter(cls, setter_name, key)
            except Unsupported as e:
                tr.broken.append(str(e))
        try:
            plot = tr.plot_setter(cls)
        except Unsupported as e:
            tr.broken.append(str(e))
    except Unsupported as e:
        tr.broken.append(str(e))
    try:
        shape = tr.temp_wrapper()
    except Unsupported as e:
        tr.broken.append(str(e))
    sig_modes = {"value": "", "error": ""}
    for which in ("value", "error"):
        try:
            sig_modes[which] = sig_figs_method(tr, which)
        except Unsupported as e:
            tr.broken.append(str(e))

    all_fields = ["errorMethod", "printStyle", "unitStyle", "sigMode", "sigVal", "mcSize", "plotW", "plotH"]
    defaults = {"errorMethod": "0", "printStyle": "0", "unitStyle": "0", "sigMode": "0", "sigVal": "0",
                "mcSize": "0", "plotW": ".nan", "plotH": ".nan"}
    missing = [f for f in all_fields if f not in init]
    if missing:
        tr.broken.append("{}: Settings.__init__ gives no value to {}".format(PATH, ", ".join(missing)))
    init_txt = ", ".join("{} := {}".format(f, init.get(f, defaults[f])) for f in all_fields)
    reset_txt = ", ".join("{} := {}".format(f, reset[f]) for f in all_fields if f in reset)
    reset_def = "{{ c with {} }}".format(reset_txt) if reset_txt else "c"

    def mem(c):
        return "[" + ", ".join("({}, {})".format(lean_str(n), lean_str(v)) for n, v in tr.members[c]) + "]"

    def arm(fn_default, pick):
        rows = []
        for name, (own, _) in SETTERS.items():
            rows.append("  | .{} => {}".format(ENUMS[own], pick(setters[name]) if name in setters
                                               else fn_default(own)))
        return "\n".join(rows)

    text = """/- GENERATED by vf/translate.py from {path} — do not edit. -/
import QExPy.Model.SettingsTypes
namespace QExPy.Settings.Gen

/-- reasons the translator could not follow the source (empty = tie intact) -/
def settingsTieBroken : List String := {broken}

/-- members (NAME, literal string) of the Enum classes, in source order -/
def members : EnumTy → List (String × String)
  | .errorMethod => {m0}
  | .printStyle => {m1}
  | .unitStyle => {m2}
  | .sigFigMode => {m3}

/-- enum-valued setters: the class tested by `isinstance(x, C)` (argument stored as is) -/
def setterClass : EnumTy → EnumTy
{sc}
  | .sigFigMode => .sigFigMode

/-- enum-valued setters: the class `C(x)` that converts an accepted string -/
def setterConv : EnumTy → EnumTy
{sv}
  | .sigFigMode => .sigFigMode

/-- enum-valued setters: the strings accepted by `x in [...]` -/
def setterStrings : EnumTy → List String
{ss}
  | .sigFigMode => []

/-- integer setters `isinstance(x, int) and x > c`: the exclusive lower bound `c` -/
def sigValLower : Int := {svl}
def mcSizeLower : Int := {mcl}

/-- `set_sig_figs_for_value` / `set_sig_figs_for_error`: the SigFigMode member assigned AFTER the
    number went through the validating `sig_fig_value` setter -/
def sigFigsValueMode : String := {sfv}
def sigFigsErrorMode : String := {sfe}

/-- `plot_dimensions` setter: required tuple length, exclusive lower bound of each entry, and
    whether the comparison is written so that NaN is refused (`not num > c`) or passes (`num <= c`) -/
def plotLen : Nat := {plen}
def plotLower : Int := {plow}
def plotRejectsNan : Bool := {pnan}

/-- `Settings.__init__`: the state of a freshly started session -/
def initCfg : Cfg := {{ {init} }}

/-- `Settings.reset`: its assignments applied to an arbitrary state -/
def resetCfg (c : Cfg) : Cfg := {reset}

/-- `use_mc_sample_size`: is the saved size written back when the wrapped function ends this
    way?  (`finally:` = every outcome; `except Exception:` = a return and the classes derived from
    `Exception`; no `try` = a return only) -/
def tempRestores : Outcome → Bool
  | .returned => {tret}
  | .raised _ {tvar} => {traised}

end QExPy.Settings.Gen
""".format(path=PATH, broken=lean_strlist(tr.broken),
           m0=mem("ErrorMethod"), m1=mem("PrintStyle"), m2=mem("UnitStyle"), m3=mem("SigFigMode"),
           sc=arm(lambda own: "." + ENUMS[own], lambda s: "." + ENUMS[s[0]]),
           sv=arm(lambda own: "." + ENUMS[own], lambda s: "." + ENUMS[s[1]]),
           ss=arm(lambda own: "[]", lambda s: lean_strlist(s[2])),
           init=init_txt, reset=reset_def, tret="true" if shape["returned"] else "false",
           tvar="isExc" if shape["raised"] == "isExc" else "_", traised=shape["raised"],
           sfv=lean_str(sig_modes["value"]), sfe=lean_str(sig_modes["error"]),
           svl="({})".format(ints["sigValLower"]), mcl="({})".format(ints["mcSizeLower"]),
           plen=plot[0], plow="({})".format(plot[1]), pnan="true" if plot[2] else "false")
    return "Settings.lean", text, tr.broken

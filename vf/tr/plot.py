"""translator section `plot` (C19): qexpy/plotting/plotobjects.py, qexpy/plotting/plotting.py

  FunctionOnPlot.xvalues                      np.linspace(self.xrange[0], self.xrange[1], N)  -> N
  XYDataSetOnPlot.__get_indices_from_xrange   (low <= x) & (x < high)        -> the element test
  Plot.xlabel / Plot.ylabel                   name + ("[{}]".format(unit) if unit else "")
                                                                             -> a String function
"""
import ast

from translate import Unsupported, src, where, lean_str, lean_strlist
from tr._arr import ArrTr, dotted, classes_of, method, strip_doc, raises

PO, PL = "qexpy/plotting/plotobjects.py", "qexpy/plotting/plotting.py"

PLACEHOLDER = {"points": "0", "inRange": "false", "label": "name"}


def gen_points(out):
    tree = ast.parse(src(PO))
    cls = classes_of(tree).get("FunctionOnPlot")
    if cls is None:
        raise Unsupported("{}: class FunctionOnPlot missing".format(PO))
    fn = method(cls, "xvalues", PO, "getter")
    body = strip_doc(fn.body)
    # [if not self.xrange: raise ...]  return np.linspace(self.xrange[0], self.xrange[1], N)
    if len(body) == 2 and isinstance(body[0], ast.If) and not body[0].orelse and \
            ast.unparse(body[0].test) == "not self.xrange" and len(body[0].body) == 1 and \
            raises(body[0].body[0]):
        body = body[1:]
    r = body[0].value if len(body) == 1 and isinstance(body[0], ast.Return) else None
    if not (isinstance(r, ast.Call) and dotted(r.func) == "np.linspace" and len(r.args) == 3
            and not r.keywords and ast.unparse(r.args[0]) == "self.xrange[0]"
            and ast.unparse(r.args[1]) == "self.xrange[1]"
            and isinstance(r.args[2], ast.Constant) and isinstance(r.args[2].value, int)
            and not isinstance(r.args[2].value, bool) and r.args[2].value >= 2):
        raise Unsupported("{}: FunctionOnPlot.xvalues is not `np.linspace(self.xrange[0], "
                          "self.xrange[1], <N>)`".format(where(fn, PO)))
    out["points"] = str(r.args[2].value)


def gen_mask(out):
    tree = ast.parse(src(PO))
    cls = classes_of(tree).get("XYDataSetOnPlot")
    if cls is None:
        raise Unsupported("{}: class XYDataSetOnPlot missing".format(PO))
    fn = next((f for f in cls.body if isinstance(f, ast.FunctionDef)
               and f.name.endswith("__get_indices_from_xrange")), None)
    if fn is None:
        raise Unsupported("{}: __get_indices_from_xrange missing".format(PO))
    body = strip_doc(fn.body)
    if not (len(body) == 2 and isinstance(body[0], ast.Assign)
            and ast.unparse(body[0].value) == "self._xrange"
            and isinstance(body[0].targets[0], ast.Tuple) and len(body[0].targets[0].elts) == 2
            and isinstance(body[1], ast.Return)):
        raise Unsupported("{}: __get_indices_from_xrange is not `low, high = self._xrange; return "
                          "<mask>`".format(where(fn, PO)))
    low, high = (e.id for e in body[0].targets[0].elts)

    class X(ast.NodeTransformer):
        def visit_Attribute(self, node):
            if ast.unparse(node) == "self.dataset.xvalues":
                return ast.Name(id="__x", ctx=ast.Load())
            return self.generic_visit(node)

    def tr(n):
        # element-wise `&` / `|` / `~` of comparisons
        if isinstance(n, ast.BinOp) and isinstance(n.op, (ast.BitAnd, ast.BitOr)):
            return "({} {} {})".format(tr(n.left), "&&" if isinstance(n.op, ast.BitAnd) else "||",
                                       tr(n.right))
        if isinstance(n, ast.UnaryOp) and isinstance(n.op, ast.Invert):
            return "(!{})".format(tr(n.operand))
        if isinstance(n, ast.Compare):
            return ArrTr(PO, names={low: "low", high: "high", "__x": "x"}).trb(n)
        raise Unsupported("{}: mask expression {}".format(where(n, PO), type(n).__name__))
    out["inRange"] = tr(X().visit(body[1].value))


def label_expr(fn, axis):
    """name + ("<pre>{}<post>".format(unit) if unit else "")  ->  lean term over name, unit"""
    body = strip_doc(fn.body)
    r = body[0].value if len(body) == 1 and isinstance(body[0], ast.Return) else None
    nm, un = "self.{}name".format(axis), "self.{}unit".format(axis)
    if not (isinstance(r, ast.BinOp) and isinstance(r.op, ast.Add) and ast.unparse(r.left) == nm
            and isinstance(r.right, ast.IfExp) and ast.unparse(r.right.test) == un
            and isinstance(r.right.orelse, ast.Constant) and r.right.orelse.value == ""):
        raise Unsupported("{}: {}label is not `{} + (<text> if {} else \"\")`".format(
            where(fn, PL), axis, nm, un))
    b = r.right.body
    if not (isinstance(b, ast.Call) and isinstance(b.func, ast.Attribute) and b.func.attr == "format"
            and isinstance(b.func.value, ast.Constant) and isinstance(b.func.value.value, str)
            and len(b.args) == 1 and not b.keywords and ast.unparse(b.args[0]) == un
            and b.func.value.value.count("{}") == 1 and "{" not in b.func.value.value.replace("{}", "")
            and "}" not in b.func.value.value.replace("{}", "")):
        raise Unsupported("{}: the unit part of {}label is not `\"..{{}}..\".format({})`".format(
            where(fn, PL), axis, un))
    pre, post = b.func.value.value.split("{}")
    return '(name ++ (if unit = "" then "" else {} ++ unit ++ {}))'.format(lean_str(pre), lean_str(post))


def gen_label(out):
    tree = ast.parse(src(PL))
    cls = classes_of(tree).get("Plot")
    if cls is None:
        raise Unsupported("{}: class Plot missing".format(PL))
    lx = label_expr(method(cls, "xlabel", PL, "getter"), "x")
    ly = label_expr(method(cls, "ylabel", PL, "getter"), "y")
    if lx != ly:
        raise Unsupported("{}: xlabel and ylabel are formatted differently (model: one "
                          "axisLabel)".format(PL))
    out["label"] = lx


def gen():
    broken, out = [], {}
    for part in (gen_points, gen_mask, gen_label):
        try:
            part(out)
        except Unsupported as e:
            broken.append(str(e))
        except (SyntaxError, ValueError, AttributeError, IndexError, TypeError) as e:
            broken.append("plot: {}: {}: {}".format(part.__name__, type(e).__name__, e))
    o = dict(PLACEHOLDER, **out)
    text = """/- GENERATED by vf/translate.py from {po}, {pl} — do not edit. -/
import QExPy.Num
set_option linter.unusedVariables false
namespace QExPy.Gen
variable {{α : Type}} [Num α]

/-- reasons the translator could not follow the source (empty = tie intact) -/
def plotTieBroken : List String := {broken}

/-- FunctionOnPlot.xvalues: number of points of `np.linspace(xrange[0], xrange[1], N)` -/
def plotCurvePoints : Nat := {points}

/-- XYDataSetOnPlot.__get_indices_from_xrange: the test applied to each x value -/
def plotInRange (low high x : α) : Bool := {inRange}

/-- Plot.xlabel / Plot.ylabel -/
def plotAxisLabel (name unit : String) : String := {label}

end QExPy.Gen
""".format(po=PO, pl=PL, broken=lean_strlist(broken), **o)
    return "Plot.lean", text, broken

"""translator section `mcwalk` (C16):

  qexpy/utils/utils.py       find_mode_and_uncertainty — the formulas (loop test
                             `count < confidence * number_of_samples`, value = bin centre, error =
                             steps * bin width) are generated; the walk itself (initialisation, the
                             second conjunct of the loop test, the two index guards, what is
                             returned) is compared with the shape Model/ModeWalk.lean mirrors
  qexpy/data/utils.py        MonteCarloSettings — the sign / range tests of the `confidence` setter
                             and of `use_custom_value_and_error` are generated; which setting each
                             method writes and which cache it clears is compared with the shape
                             Model/MCSettings.lean mirrors
  qexpy/data/operations.py   MonteCarloEvaluator.evaluate / regenerate_samples / clear / samples —
                             strategy dispatch and caching, compared with the same model
  both classes               every OTHER method (show_histogram, MonteCarloSettings.samples,
                             __compute_samples, anything added later) must be read-only: no store
                             to an attribute or item of `self`, no mutating call (`clear`, `pop`,
                             `setdefault`, `update`, ...) on something reached through `self`, no
                             call of a setting-changing method — the model's `display` operation
                             leaves the state as the `d.mc` access alone leaves it

"Compared" = the method body, docstrings and comments dropped, locals and parameters renamed in
order of appearance, must be the expected statement list (written below as Python source).  The
translated sub-expressions are cut out before the comparison, so they may be respelled freely.
"""
import ast

from translate import Unsupported, src, where, find_def, lean_strlist
from tr._arr import ArrTr, classes_of, method, strip_doc, raises
from tr._shape import canon, canon_src, same_shape, DropMsg as _DropMsg

UT, DU, OP = "qexpy/utils/utils.py", "qexpy/data/utils.py", "qexpy/data/operations.py"

PLACEHOLDER = {"notEnough": "false", "value": "lo", "error": "k", "confBad": "false",
               "customBad": "false"}


class _Cut(ast.NodeTransformer):
    """replace given nodes (by identity) with placeholder names"""

    def __init__(self, table):
        self.table = table

    def generic_visit(self, node):
        if id(node) in self.table:
            return ast.Name(id=self.table[id(node)], ctx=ast.Load())
        return super().generic_visit(node)


WALK_SHAPE = """
def find_mode_and_uncertainty(n, bins, confidence):
    number_of_samples = sum(n)
    max_idx = n.argmax()
    value = CUT_VALUE
    count = n[max_idx]
    low_idx, high_idx = max_idx, max_idx
    while CUT_TEST and (low_idx > 0 or high_idx < len(n) - 1):
        low_idx -= 1
        high_idx += 1
        if low_idx >= 0:
            count += n[low_idx]
        if high_idx < len(n):
            count += n[high_idx]
    error = CUT_ERROR
    return value, error
"""


class _WalkNames(ast.NodeTransformer):
    """bins[max_idx] -> __lo, bins[max_idx + 1] -> __hi, bins[0] -> __first, bins[-1] -> __last,
    len(n) -> __len, high_idx - max_idx -> __k"""

    def __init__(self, n, bins, max_idx, high_idx):
        self.n, self.bins, self.max_idx, self.high_idx = n, bins, max_idx, high_idx

    def visit_Subscript(self, node):
        if isinstance(node.value, ast.Name) and node.value.id == self.bins:
            s = ast.unparse(node.slice)
            m = {self.max_idx: "__lo", self.max_idx + " + 1": "__hi", "1 + " + self.max_idx: "__hi",
                 "0": "__first", "-1": "__last"}.get(s)
            if m:
                return ast.Name(id=m, ctx=ast.Load())
        return self.generic_visit(node)

    def visit_Call(self, node):
        if ast.unparse(node) == "len({})".format(self.n):
            return ast.Name(id="__len", ctx=ast.Load())
        return self.generic_visit(node)

    def visit_BinOp(self, node):
        if ast.unparse(node) == "{} - {}".format(self.high_idx, self.max_idx):
            return ast.Name(id="__k", ctx=ast.Load())
        return self.generic_visit(node)


def gen_walk(out):
    tree = ast.parse(src(UT))
    fn = find_def(tree, "find_mode_and_uncertainty")
    if fn is None:
        raise Unsupported("{}: find_mode_and_uncertainty missing".format(UT))
    fn = ast.parse(ast.unparse(fn)).body[0]          # private copy (comments gone, fresh nodes)
    body = strip_doc(fn.body)
    params = [a.arg for a in fn.args.args]
    if len(params) != 3 or len(body) != 8:
        raise Unsupported("{}: find_mode_and_uncertainty: {} parameters, {} statements (model: 3, 8)"
                          .format(where(fn, UT), len(params), len(body)))
    n, bins, conf = params
    loop = body[5]
    if not (isinstance(loop, ast.While) and isinstance(loop.test, ast.BoolOp)
            and isinstance(loop.test.op, ast.And) and len(loop.test.values) == 2):
        raise Unsupported("{}: the loop test is not `<enough?> and (<room?>)`".format(where(fn, UT)))
    for k in (0, 1, 2, 3, 6):
        if not (isinstance(body[k], ast.Assign) and len(body[k].targets) == 1
                and isinstance(body[k].targets[0], ast.Name)):
            raise Unsupported("{}: statement {} of find_mode_and_uncertainty is not a plain "
                              "assignment".format(where(body[k], UT), k + 1))
    total, max_idx, count = (body[k].targets[0].id for k in (0, 1, 3))
    if not (isinstance(body[4], ast.Assign) and isinstance(body[4].targets[0], ast.Tuple)
            and len(body[4].targets[0].elts) == 2):
        raise Unsupported("{}: `low_idx, high_idx = max_idx, max_idx` not found".format(where(fn, UT)))
    high_idx = body[4].targets[0].elts[1].id
    wn = _WalkNames(n, bins, max_idx, high_idx)
    v_node, t_node, e_node = body[2].value, loop.test.values[0], body[6].value
    out["value"] = ArrTr(UT, names={"__lo": "lo", "__hi": "hi"}).tr(
        wn.visit(ast.parse(ast.unparse(v_node), mode="eval").body))
    out["notEnough"] = ArrTr(UT, names={count: "count", conf: "conf", total: "total"}).trb(
        ast.parse(ast.unparse(t_node), mode="eval").body)
    out["error"] = ArrTr(UT, names={"__k": "k", "__first": "first", "__last": "last",
                                    "__len": "len"}).tr(
        wn.visit(ast.parse(ast.unparse(e_node), mode="eval").body))
    body[2].value = ast.Name(id="CUT_VALUE", ctx=ast.Load())
    loop.test.values[0] = ast.Name(id="CUT_TEST", ctx=ast.Load())
    body[6].value = ast.Name(id="CUT_ERROR", ctx=ast.Load())
    same_shape(fn, WALK_SHAPE, UT, "find_mode_and_uncertainty")


SETTINGS_SHAPES = {
    ("sample_size", "getter"): """
def sample_size(self):
    default_size = sts.get_settings().monte_carlo_sample_size
    set_size = self.__settings[lit.MONTE_CARLO_SAMPLE_SIZE]
    return set_size if set_size else default_size
""",
    ("sample_size", "setter"): """
def sample_size(self, new_size):
    if not isinstance(new_size, int) or new_size < 0:
        raise ValueError('')
    self.__settings[lit.MONTE_CARLO_SAMPLE_SIZE] = new_size
    self.__evaluator.clear()
""",
    ("reset_sample_size", None): """
def reset_sample_size(self):
    self.__settings[lit.MONTE_CARLO_SAMPLE_SIZE] = 0
""",
    ("confidence", "getter"): """
def confidence(self):
    return self.__settings[lit.MONTE_CARLO_CONFIDENCE]
""",
    ("confidence", "setter"): """
def confidence(self, new_level):
    if not isinstance(new_level, Real):
        raise TypeError('')
    if CUT_TEST:
        raise ValueError('')
    self.__settings[lit.MONTE_CARLO_CONFIDENCE] = new_level
    if lit.MC_MODE_AND_CONFIDENCE in self.__evaluator.values:
        self.__evaluator.values.pop(lit.MC_MODE_AND_CONFIDENCE)
""",
    ("xrange", "getter"): """
def xrange(self):
    return self.__settings[lit.XRANGE]
""",
    ("set_xrange", None): """
def set_xrange(self, *args):
    if not args:
        self.__settings[lit.XRANGE] = ()
    else:
        new_range = (args[0], args[1]) if len(args) > 1 else args
        utils.validate_xrange(new_range)
        self.__settings[lit.XRANGE] = new_range
    self.__evaluator.values.clear()
""",
    ("use_mode_with_confidence", None): """
def use_mode_with_confidence(self, confidence=None):
    if confidence:
        self.confidence = confidence
    self.__settings[lit.MONTE_CARLO_STRATEGY] = lit.MC_MODE_AND_CONFIDENCE
""",
    ("use_mean_and_std", None): """
def use_mean_and_std(self):
    self.__settings[lit.MONTE_CARLO_STRATEGY] = lit.MC_MEAN_AND_STD
""",
    ("use_custom_value_and_error", None): """
def use_custom_value_and_error(self, value, error):
    if not isinstance(value, Real):
        raise TypeError('')
    if not isinstance(error, Real):
        raise TypeError('')
    if CUT_TEST:
        raise ValueError('')
    self.__settings[lit.MONTE_CARLO_STRATEGY] = lit.MC_CUSTOM
    self.__evaluator.values[self.strategy] = dt.ValueWithError(value, error)
""",
    ("strategy", "getter"): """
def strategy(self):
    return self.__settings[lit.MONTE_CARLO_STRATEGY]
""",
}

EVALUATOR_SHAPES = {
    ("__init__", None): """
def __init__(self):
    self.raw_samples = np.empty(0)
    self.values = {}
    self.settings = dut.MonteCarloSettings(self)
""",
    ("samples", "getter"): """
def samples(self):
    if not self.settings.xrange:
        return self.raw_samples
    xrange = self.settings.xrange
    return np.ma.masked_outside(self.raw_samples, xrange[0], xrange[1], copy=False)
""",
    ("evaluate", None): """
def evaluate(self, formula):
    self.regenerate_samples(formula)
    strategy = self.settings.strategy
    if strategy == lit.MC_CUSTOM not in self.values:
        strategy = lit.MC_MEAN_AND_STD
        self.settings.use_mean_and_std()
    if strategy == lit.MC_MEAN_AND_STD not in self.values:
        result = dt.ValueWithError(np.mean(self.samples), np.std(self.samples, ddof=1))
        self.values[strategy] = result
    if strategy == lit.MC_MODE_AND_CONFIDENCE not in self.values:
        n, bins = np.histogram(self.samples, bins=100)
        value, error = utils.find_mode_and_uncertainty(n, bins, self.settings.confidence)
        self.values[strategy] = dt.ValueWithError(value, error)
    return self.values[strategy]
""",
    ("regenerate_samples", None): """
def regenerate_samples(self, formula):
    if not self.raw_samples.size:
        self.raw_samples = self.__compute_samples(formula)
""",
    ("clear", None): """
def clear(self):
    self.raw_samples = np.empty(0)
    self.values.clear()
""",
}


def cut_test(fn, exc, path, what):
    """the test of the (single) `if T: raise <exc>` in fn; T is replaced by CUT_TEST"""
    hits = [s for s in strip_doc(fn.body) if isinstance(s, ast.If) and not s.orelse
            and len(s.body) == 1 and raises(s.body[0]) == exc]
    if len(hits) != 1:
        raise Unsupported("{}: {} has {} `if ..: raise {}` statements (model: 1)".format(
            where(fn, path), what, len(hits), exc))
    t = hits[0].test
    hits[0].test = ast.Name(id="CUT_TEST", ctx=ast.Load())
    return t


def gen_settings(out, broken):
    tree = ast.parse(src(DU))
    cls = classes_of(tree).get("MonteCarloSettings")
    if cls is None:
        raise Unsupported("{}: class MonteCarloSettings missing".format(DU))
    for (name, kind), shape in SETTINGS_SHAPES.items():
        try:
            fn = method(cls, name, DU, kind)
            fn = _DropMsg().visit(ast.parse(ast.unparse(fn)).body[0])
            what = "MonteCarloSettings.{}{}".format(name, " ({})".format(kind) if kind else "")
            if (name, kind) == ("confidence", "setter"):
                t = cut_test(fn, "ValueError", DU, what)
                out["confBad"] = ArrTr(DU, names={fn.args.args[1].arg: "c"}).trb(t)
            if name == "use_custom_value_and_error":
                t = cut_test(fn, "ValueError", DU, what)
                out["customBad"] = ArrTr(DU, names={fn.args.args[2].arg: "e"}).trb(t)
            same_shape(fn, shape, DU, what)
        except Unsupported as e:
            broken.append(str(e))


def gen_evaluator(broken):
    tree = ast.parse(src(OP))
    cls = classes_of(tree).get("MonteCarloEvaluator")
    if cls is None:
        raise Unsupported("{}: class MonteCarloEvaluator missing".format(OP))
    for (name, kind), shape in EVALUATOR_SHAPES.items():
        try:
            fn = method(cls, name, OP, kind)
            fn = _DropMsg().visit(ast.parse(ast.unparse(fn)).body[0])
            same_shape(fn, shape, OP, "MonteCarloEvaluator." + name)
        except Unsupported as e:
            broken.append(str(e))


MUTATORS = {"clear", "pop", "popitem", "setdefault", "update", "append", "extend", "insert", "remove",
            "sort", "fill", "resize", "put", "itemset", "setfield", "setflags", "__setitem__",
            "__delitem__", "__setattr__", "__delattr__", "__iadd__"}
# methods of the settings / evaluator objects that change what the quantity reports
STATE_CHANGERS = {"set_xrange", "use_mode_with_confidence", "use_mean_and_std",
                  "use_custom_value_and_error", "reset_sample_size", "regenerate_samples", "evaluate"}


def _root_is_self(n):
    while isinstance(n, (ast.Attribute, ast.Subscript, ast.Call)):
        n = n.func if isinstance(n, ast.Call) else n.value
    return isinstance(n, ast.Name) and n.id == "self"


def writes_of(fn):
    """the places where a method stores into / mutates something reached through `self`"""
    hits = []
    for node in ast.walk(fn):
        targets = []
        if isinstance(node, ast.Assign):
            targets = node.targets
        elif isinstance(node, (ast.AugAssign, ast.AnnAssign)):
            targets = [node.target]
        elif isinstance(node, ast.Delete):
            targets = node.targets
        elif isinstance(node, (ast.For, ast.AsyncFor)):
            targets = [node.target]
        elif isinstance(node, ast.NamedExpr):
            targets = [node.target]
        flat = []
        for t in targets:
            flat += list(t.elts) if isinstance(t, (ast.Tuple, ast.List)) else [t]
        for t in flat:
            if isinstance(t, (ast.Attribute, ast.Subscript)) and _root_is_self(t):
                hits.append("line {}: store to `{}`".format(node.lineno, ast.unparse(t)))
        if isinstance(node, ast.Call) and isinstance(node.func, ast.Attribute) \
                and _root_is_self(node.func.value):
            if node.func.attr in MUTATORS or node.func.attr in STATE_CHANGERS:
                hits.append("line {}: call `{}`".format(node.lineno, ast.unparse(node.func)))
        if isinstance(node, ast.Call) and isinstance(node.func, ast.Name) \
                and node.func.id in ("setattr", "delattr") and node.args and _root_is_self(node.args[0]):
            hits.append("line {}: {}(self...)".format(node.lineno, node.func.id))
    return hits


def gen_readonly(broken):
    """every method outside the shape tables is read-only (see module docstring)"""
    for path, cname, shapes in ((OP, "MonteCarloEvaluator", EVALUATOR_SHAPES),
                                (DU, "MonteCarloSettings", SETTINGS_SHAPES)):
        cls = classes_of(ast.parse(src(path))).get(cname)
        if cls is None:
            continue          # reported by gen_settings / gen_evaluator
        modelled = {name for name, _ in shapes} | {"__init__"}
        for f in cls.body:
            if isinstance(f, (ast.FunctionDef, ast.AsyncFunctionDef)) and f.name not in modelled:
                for h in writes_of(f):
                    broken.append("{}: {}.{} is outside the model and must only read: {}".format(
                        path, cname, f.name, h))
            elif isinstance(f, (ast.Assign, ast.AnnAssign, ast.AugAssign)):
                broken.append("{}: {} has a class-level attribute `{}` (state shared between "
                              "quantities is outside the model)".format(
                                  path, cname, ast.unparse(f).split("=")[0].strip()))


def gen():
    broken, out = [], {}
    for part in (lambda: gen_walk(out), lambda: gen_settings(out, broken),
                 lambda: gen_evaluator(broken), lambda: gen_readonly(broken)):
        try:
            part()
        except Unsupported as e:
            broken.append(str(e))
        except (SyntaxError, ValueError, AttributeError, IndexError, TypeError, KeyError) as e:
            broken.append("mcwalk: {}: {}".format(type(e).__name__, e))
    o = dict(PLACEHOLDER, **out)
    text = """/- GENERATED by vf/translate.py from {ut}, {du}, {op} — do not edit. -/
import QExPy.Num
set_option linter.unusedVariables false
namespace QExPy.Gen
variable {{α : Type}} [Num α]

/-- reasons the translator could not follow the source (empty = tie intact) -/
def mcwalkTieBroken : List String := {broken}

/-! ### utils.find_mode_and_uncertainty -/

/-- first conjunct of the loop test (count = samples covered so far, total = sum(n)) -/
def modeNotEnough (count conf total : α) : Bool := {notEnough}
/-- `value`: lo = bins[max_idx], hi = bins[max_idx + 1] -/
def modeValue (lo hi : α) : α := {value}
/-- `error`: k = high_idx - max_idx, first = bins[0], last = bins[-1], len = len(n) -/
def modeError (k first last len : α) : α := {error}

/-! ### MonteCarloSettings -/

/-- `confidence` setter: the test that raises ValueError -/
def mcConfBad (c : α) : Bool := {confBad}
/-- `use_custom_value_and_error`: the test that raises ValueError -/
def mcCustomBad (e : α) : Bool := {customBad}

end QExPy.Gen
""".format(ut=UT, du=DU, op=OP, broken=lean_strlist(broken), **o)
    return "MCWalk.lean", text, broken

"""translator section `corr` (C04): qexpy/data/data.py

  MeasuredValue.set_covariance / set_correlation / get_covariance / get_correlation
  RepeatedlyMeasuredValue.set_covariance / set_correlation

Formulas and tests become Lean definitions (`corrOfCov`, `covOfCorr`, the bound tests, the
zero-sigma tests, `selfCov`, the clipping of inferred numbers).  Everything that is control flow
is matched statement by statement against the shape `Model/Corr.lean` mirrors — the ORDER of the
checks, which exception class each raises, the store key `"_".join(sorted([str(self._id),
str(other._id)]))`, the field order of the record, the dict that is written / read — and any
difference is reported as a broken tie (no Lean counterpart).
"""
import ast

from translate import Unsupported, src, where, lean_strlist
from tr._arr import ArrTr, dotted, classes_of, method, strip_doc, raises

DT = "qexpy/data/data.py"
KEY_SRC = "'_'.join(sorted([str(self._id), str(other._id)]))"
STORE = "ExperimentalValue._correlations"

PLACEHOLDER = {
    "setCovZero": "false", "setCorrZero": "false", "getCovZero": "false", "getCorrZero": "false",
    "corrOfCov": "cov", "covOfCorr": "corr", "covBad": "false", "corrBad": "false",
    "selfCov": "(Num.ofNat 0)", "selfCorr": "(Num.ofNat 0)", "getCovDefault": "(Num.ofNat 0)",
    "getCorrDefault": "(Num.ofNat 0)", "getCovNonMeasured": "(Num.ofNat 0)",
    "getCorrNonMeasured": "(Num.ofNat 0)", "inferCov": "c", "inferCorr": "c",
}


def tr2(other, extra=None):
    """expressions over self.std / other.std (+ named locals)"""
    return ArrTr(DT, names=dict(extra or {}),
                 sattr={"self.std": "s1", other + ".std": "s2"})


def norm(node):
    return ast.unparse(node)


def if_raise(st):
    """`if T: raise X(..)` -> (T, "X")"""
    if isinstance(st, ast.If) and not st.orelse and len(st.body) == 1 and raises(st.body[0]):
        return st.test, raises(st.body[0])
    return None


def if_return(st):
    if isinstance(st, ast.If) and not st.orelse and len(st.body) == 1 and isinstance(
            st.body[0], ast.Return) and st.body[0].value is not None:
        return st.test, st.body[0].value
    return None


def not_isinstance(test, var, cls):
    return norm(test) == "not isinstance({}, {})".format(var, cls)


class Walk:
    """consume the statements of a method one by one, each against an expectation"""

    def __init__(self, fn, what):
        self.fn, self.what, self.body, self.i = fn, what, strip_doc(fn.body), 0

    def fail(self, why, node=None):
        raise Unsupported("{}: {}: {} (the model's order of checks is: type checks, zero-sigma, "
                          "missing number, bound, write)".format(
                              where(node or self.fn, DT), self.what, why))

    def next(self, expect):
        if self.i >= len(self.body):
            self.fail("statement missing: " + expect)
        st = self.body[self.i]
        self.i += 1
        return st

    def guard_raise(self, expect, exc=None):
        st = self.next(expect)
        r = if_raise(st)
        if r is None:
            self.fail("expected `{}`, found `{}`".format(expect, norm(st).splitlines()[0]), st)
        if exc and r[1] != exc:
            self.fail("`{}` raises {} (model: {})".format(expect, r[1], exc), st)
        return r[0], st

    def guard_return(self, expect):
        st = self.next(expect)
        r = if_return(st)
        if r is None:
            self.fail("expected `{}`, found `{}`".format(expect, norm(st).splitlines()[0]), st)
        return r[0], r[1], st

    def assign(self, expect):
        st = self.next(expect)
        if not (isinstance(st, ast.Assign) and len(st.targets) == 1):
            self.fail("expected `{}`, found `{}`".format(expect, norm(st).splitlines()[0]), st)
        return st.targets[0], st.value, st

    def done(self):
        if self.i != len(self.body):
            self.fail("unexpected statement `{}`".format(norm(self.body[self.i]).splitlines()[0]),
                      self.body[self.i])


def type_checks(w, other, second):
    t, st = w.guard_raise("if not isinstance(other, ExperimentalValue): raise", "IllegalArgumentError")
    if not not_isinstance(t, other, "ExperimentalValue"):
        w.fail("first check is not `not isinstance({}, ExperimentalValue)`".format(other), st)
    if second == "raise":
        t, st = w.guard_raise("if not isinstance(other, MeasuredValue): raise", "IllegalArgumentError")
    else:
        t, v, st = w.guard_return("if not isinstance(other, MeasuredValue): return 0")
    if not not_isinstance(t, other, "MeasuredValue"):
        w.fail("second check is not `not isinstance({}, MeasuredValue)`".format(other), st)
    return None if second == "raise" else v


def key_and_write(w, other, corr_name, cov_name):
    tgt, val, st = w.assign("id_string = " + KEY_SRC)
    if not (isinstance(tgt, ast.Name) and norm(val) == KEY_SRC.replace("other", other)):
        w.fail("store key is not {}".format(KEY_SRC), st)
    key = tgt.id
    tgt, val, st = w.assign("record = Correlation(corr, cov)")
    if not (isinstance(tgt, ast.Name) and isinstance(val, ast.Call) and dotted(val.func) ==
            "Correlation" and not val.keywords
            and [dotted(a) for a in val.args] == [corr_name, cov_name]):
        w.fail("record is not Correlation({}, {})".format(corr_name, cov_name), st)
    rec = tgt.id
    tgt, val, st = w.assign("{}[id_string] = record".format(STORE))
    if not (isinstance(tgt, ast.Subscript) and dotted(tgt.value) == STORE
            and dotted(tgt.slice) == key and dotted(val) == rec):
        w.fail("the record is not stored as {}[{}]".format(STORE, key), st)
    w.done()


def gen_set_cov(cls, out):
    fn = method(cls, "set_covariance", DT)
    params = [a.arg for a in fn.args.args]
    if len(params) != 3:
        raise Unsupported("{}: signature of MeasuredValue.set_covariance".format(where(fn, DT)))
    other, cov = params[1], params[2]
    w = Walk(fn, "MeasuredValue.set_covariance")
    type_checks(w, other, "raise")
    t, _ = w.guard_raise("if self.std == 0 or other.std == 0: raise ArithmeticError", "ArithmeticError")
    out["setCovZero"] = tr2(other).trb(t)
    t, st = w.guard_raise("if cov is None: raise", "IllegalArgumentError")
    if norm(t) != "{} is None".format(cov):
        w.fail("fourth check is not `{} is None`".format(cov), st)
    tgt, val, st = w.assign("corr = cov / (self.std * other.std)")
    if not isinstance(tgt, ast.Name):
        w.fail("correlation is not assigned to a local", st)
    corr = tgt.id
    out["corrOfCov"] = tr2(other, {cov: "cov"}).tr(val)
    t, _ = w.guard_raise("if corr > 1 or corr < -1: raise ValueError", "ValueError")
    out["covBad"] = tr2(other, {corr: "corr"}).trb(t)
    key_and_write(w, other, corr, cov)


def gen_set_corr(cls, out):
    fn = method(cls, "set_correlation", DT)
    params = [a.arg for a in fn.args.args]
    if len(params) != 3:
        raise Unsupported("{}: signature of MeasuredValue.set_correlation".format(where(fn, DT)))
    other, corr = params[1], params[2]
    w = Walk(fn, "MeasuredValue.set_correlation")
    type_checks(w, other, "raise")
    t, _ = w.guard_raise("if self.std == 0 or other.std == 0: raise ArithmeticError", "ArithmeticError")
    out["setCorrZero"] = tr2(other).trb(t)
    t, st = w.guard_raise("if corr is None: raise", "IllegalArgumentError")
    if norm(t) != "{} is None".format(corr):
        w.fail("fourth check is not `{} is None`".format(corr), st)
    t, _ = w.guard_raise("if corr > 1 or corr < -1: raise ValueError", "ValueError")
    out["corrBad"] = tr2(other, {corr: "corr"}).trb(t)
    tgt, val, st = w.assign("cov = corr * (self.std * other.std)")
    if not isinstance(tgt, ast.Name):
        w.fail("covariance is not assigned to a local", st)
    out["covOfCorr"] = tr2(other, {corr: "corr"}).tr(val)
    key_and_write(w, other, corr, tgt.id)


def gen_get(cls, name, field, out, k):
    fn = method(cls, name, DT)
    params = [a.arg for a in fn.args.args]
    if len(params) != 2:
        raise Unsupported("{}: signature of MeasuredValue.{}".format(where(fn, DT), name))
    other = params[1]
    w = Walk(fn, "MeasuredValue." + name)
    v = type_checks(w, other, "return")
    out[k + "NonMeasured"] = tr2(other).tr(v)
    t, v, _ = w.guard_return("if self.std == 0 or other.std == 0: return 0")
    out[k + "Zero"] = tr2(other).trb(t)
    if tr2(other).tr(v) != "(Num.ofNat 0)":
        w.fail("zero-sigma answer is not 0")
    t, v, st = w.guard_return("if self._id == other._id: return ..")
    if norm(t) not in ("self._id == {}._id".format(other), "{}._id == self._id".format(other)):
        w.fail("identity test is not `self._id == {}._id`".format(other), st)
    out["self" + k[3:]] = tr2(other).tr(v)
    tgt, val, st = w.assign("id_string = " + KEY_SRC)
    if not (isinstance(tgt, ast.Name) and norm(val) == KEY_SRC.replace("other", other)):
        w.fail("store key is not {}".format(KEY_SRC), st)
    key = tgt.id
    t, v, st = w.guard_return("if id_string in store: return store[id_string]." + field)
    if not (norm(t) == "{} in {}".format(key, STORE)
            and norm(v) == "{}[{}].{}".format(STORE, key, field)):
        w.fail("lookup is not `{0}[{1}].{2}` under `{1} in {0}`".format(STORE, key, field), st)
    st = w.next("return 0")
    if not (isinstance(st, ast.Return) and st.value is not None):
        w.fail("last statement is not `return 0`", st)
    out[k + "Default"] = tr2(other).tr(st.value)
    w.done()


def gen_infer(cls, name, key, out):
    """RepeatedlyMeasuredValue.set_x: type checks; if x is None and isinstance(other, Repeatedly..):
    try: cov = calculate_covariance(self.raw_data, other.raw_data); [locals]; x = <clipped>
    except ValueError: x = None;  super().set_x(other, x)"""
    fn = method(cls, name, DT)
    params = [a.arg for a in fn.args.args]
    if len(params) != 3:
        raise Unsupported("{}: signature of RepeatedlyMeasuredValue.{}".format(where(fn, DT), name))
    other, x = params[1], params[2]
    w = Walk(fn, "RepeatedlyMeasuredValue." + name)
    type_checks(w, other, "raise")
    st = w.next("if {} is None and isinstance(other, RepeatedlyMeasuredValue): try ..".format(x))
    if not (isinstance(st, ast.If) and not st.orelse and norm(st.test) ==
            "{} is None and isinstance({}, RepeatedlyMeasuredValue)".format(x, other)
            and len(st.body) == 1 and isinstance(st.body[0], ast.Try)):
        w.fail("inference is not guarded by `{} is None and isinstance({}, "
               "RepeatedlyMeasuredValue)` around a try".format(x, other), st)
    tr_ = st.body[0]
    if tr_.orelse or tr_.finalbody or len(tr_.handlers) != 1 or dotted(
            tr_.handlers[0].type) != "ValueError" or [norm(s) for s in tr_.handlers[0].body] != [
                "{} = None".format(x)]:
        w.fail("the try does not end in `except ValueError: {} = None`".format(x), tr_)
    body = list(tr_.body)
    first = body[0] if body else None
    if not (isinstance(first, ast.Assign) and len(first.targets) == 1 and isinstance(
            first.targets[0], ast.Name) and norm(first.value) ==
            "utils.calculate_covariance(self.raw_data, {}.raw_data)".format(other)):
        w.fail("the inferred number does not start from utils.calculate_covariance(self.raw_data, "
               "{}.raw_data)".format(other), first or tr_)
    local = {first.targets[0].id: ast.Name(id="__c", ctx=ast.Load())}

    class Sub(ast.NodeTransformer):
        def visit_Name(self, node):
            return local.get(node.id, node) if isinstance(node.ctx, ast.Load) else node

    for s in body[1:]:
        if not (isinstance(s, ast.Assign) and len(s.targets) == 1
                and isinstance(s.targets[0], ast.Name)):
            w.fail("statement in the inference block", s)
        local[s.targets[0].id] = Sub().visit(ast.parse(norm(s.value), mode="eval").body)
    if x not in local or (len(body) == 1 and first.targets[0].id != x):
        w.fail("the inference block does not assign {}".format(x), tr_)
    out[key] = tr2(other, {"__c": "c"}).tr(local[x])
    st = w.next("super().{}(other, {})".format(name, x))
    if not (isinstance(st, ast.Expr) and norm(st.value) == "super().{}({}, {})".format(name, other, x)):
        w.fail("does not finish with super().{}({}, {})".format(name, other, x), st)
    w.done()


def check_record(tree):
    for n in tree.body:
        if isinstance(n, ast.Assign) and len(n.targets) == 1 and dotted(n.targets[0]) == "Correlation":
            if norm(n.value) in ("namedtuple('Correlation', 'correlation, covariance')",
                                 "namedtuple('Correlation', ['correlation', 'covariance'])",
                                 "namedtuple('Correlation', 'correlation covariance')"):
                return
            raise Unsupported("{}: Correlation is not namedtuple('Correlation', 'correlation, "
                              "covariance')".format(where(n, DT)))
    raise Unsupported("{}: Correlation record type missing".format(DT))


def check_raw_data(rep):
    g = method(rep, "raw_data", DT, "getter")
    b = strip_doc(g.body)
    want = "self._raw_data.values if all((x.error == 0 for x in self._raw_data)) else self._raw_data"
    if not (len(b) == 1 and isinstance(b[0], ast.Return) and norm(b[0].value) == want):
        raise Unsupported("{}: raw_data is not `{}` (model: inference only from arrays recorded "
                          "without individual uncertainties)".format(where(g, DT), want))


def gen():
    broken, out = [], {}
    try:
        tree = ast.parse(src(DT))
        classes = classes_of(tree)
        mv, rep = classes.get("MeasuredValue"), classes.get("RepeatedlyMeasuredValue")
        if mv is None or rep is None:
            raise Unsupported("{}: MeasuredValue / RepeatedlyMeasuredValue missing".format(DT))
        steps = [
            lambda: check_record(tree),
            lambda: gen_set_cov(mv, out),
            lambda: gen_set_corr(mv, out),
            lambda: gen_get(mv, "get_covariance", "covariance", out, "getCov"),
            lambda: gen_get(mv, "get_correlation", "correlation", out, "getCorr"),
            lambda: gen_infer(rep, "set_covariance", "inferCov", out),
            lambda: gen_infer(rep, "set_correlation", "inferCorr", out),
            lambda: check_raw_data(rep),
        ]
        for f in steps:
            try:
                f()
            except Unsupported as e:
                broken.append(str(e))
    except Unsupported as e:
        broken.append(str(e))
    except (SyntaxError, ValueError, AttributeError, IndexError, TypeError) as e:
        broken.append("corr: {}: {}".format(type(e).__name__, e))
    o = dict(PLACEHOLDER, **out)
    text = """/- GENERATED by vf/translate.py from {dt} — do not edit. -/
import QExPy.Num
import QExPy.Model.Np
set_option linter.unusedVariables false
namespace QExPy.Gen
variable {{α : Type}} [Num α]

/-- reasons the translator could not follow the source (empty = tie intact) -/
def corrTieBroken : List String := {broken}

/-! s1 = self.std, s2 = other.std -/

/-- the zero-sigma tests of set_covariance / set_correlation (ArithmeticError) and of
    get_covariance / get_correlation (answer 0) -/
def setCovZeroSigma (s1 s2 : α) : Bool := {setCovZero}
def setCorrZeroSigma (s1 s2 : α) : Bool := {setCorrZero}
def getCovZeroSigma (s1 s2 : α) : Bool := {getCovZero}
def getCorrZeroSigma (s1 s2 : α) : Bool := {getCorrZero}

/-- set_covariance: the correlation recorded next to a given covariance -/
def corrOfCov (cov s1 s2 : α) : α := {corrOfCov}
/-- set_covariance: the test that raises ValueError -/
def covBoundBad (corr : α) : Bool := {covBad}

/-- set_correlation: the test that raises ValueError -/
def corrBoundBad (corr : α) : Bool := {corrBad}
/-- set_correlation: the covariance recorded next to a given correlation -/
def covOfCorr (corr s1 s2 : α) : α := {covOfCorr}

/-- get_covariance / get_correlation of a measurement with itself -/
def selfCov (s1 s2 : α) : α := {selfCov}
def selfCorr (s1 s2 : α) : α := {selfCorr}
/-- answers when the other operand is not a measurement / no record exists -/
def getCovNonMeasured (s1 s2 : α) : α := {getCovNonMeasured}
def getCorrNonMeasured (s1 s2 : α) : α := {getCorrNonMeasured}
def getCovDefault (s1 s2 : α) : α := {getCovDefault}
def getCorrDefault (s1 s2 : α) : α := {getCorrDefault}

/-- RepeatedlyMeasuredValue.set_covariance / set_correlation: the number filled in from
    c = utils.calculate_covariance(self.raw_data, other.raw_data) -/
def inferCov (c s1 s2 : α) : α := {inferCov}
def inferCorr (c s1 s2 : α) : α := {inferCorr}

end QExPy.Gen
""".format(dt=DT, broken=lean_strlist(broken), **o)
    return "Corr.lean", text, broken

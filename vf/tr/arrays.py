"""translator section `arrays` (C17, C11): control flow around arrays — compared with the shape the
hand models `Model/ArrayEdit.lean` / `Model/ArrayArith.lean` mirror (see tr/_shape.py), plus one
generated string function.

  qexpy/data/datasets.py  append / insert / delete / __setitem__ (wrap, numpy edit, re-indexing of
                          the names, re-assignment of the unit — not in delete), the ten operator
                          overloads (`isinstance(other, ARRAY_TYPES)` dispatch, else wrap the scalar)
  qexpy/data/utils.py     wrap_in_measurement, wrap_in_value_array, wrap_in_experimental_value
  qexpy/data/data.py      the scalar operators of ExperimentalValue (array operand -> reflected
                          array operator; else a DerivedValue of the wrapped operand, operand order)
  qexpy/utils/utils.py    vectorize
  qexpy/data/operations.py  _execute; every exported math function is `@utils.vectorize`d and
                          calls `_execute(lit.<ITS OWN OPERATOR>, x)`

Generated: `arrNameAt name i` from the format text `"{}_{}".format(self.name, index)`.
"""
import ast

from translate import Unsupported, src, where, find_def, lean_str, lean_strlist, literals
from tr._arr import classes_of, method, dotted, strip_doc
from tr._shape import same_shape, fresh

DS, DU, DT, UT, OP = ("qexpy/data/datasets.py", "qexpy/data/utils.py", "qexpy/data/data.py",
                      "qexpy/utils/utils.py", "qexpy/data/operations.py")

ARRAY_SHAPES = {
    "append": """
def append(self, value):
    value = dut.wrap_in_value_array(value, unit=self.unit, name=self.name)
    result = np.append(self, value).view(ExperimentalValueArray)
    for index, measurement in enumerate(result):
        measurement.name = NAME_FORMAT.format(self.name, index)
        measurement.unit = self.unit
    return result
""",
    "insert": """
def insert(self, index, value):
    value = dut.wrap_in_value_array(value, unit=self.unit, name=self.name)
    result = np.insert(self, index, value).view(ExperimentalValueArray)
    for idx, measurement in enumerate(result):
        measurement.name = NAME_FORMAT.format(self.name, idx)
        measurement.unit = self.unit
    return result
""",
    "delete": """
def delete(self, index):
    result = np.delete(self, index).view(ExperimentalValueArray)
    for idx, measurement in enumerate(result):
        measurement.name = NAME_FORMAT.format(self.name, idx)
    return result
""",
    "__setitem__": """
def __setitem__(self, key, value):
    if isinstance(value, Real):
        self[key].value = value
    else:
        super().__setitem__(key, dut.wrap_in_measurement(value, unit=self.unit, name=self.name))
        if self.name:
            index = key % len(self) if isinstance(key, (int, np.integer)) else key
            self[key].name = NAME_FORMAT.format(self.name, index)
""",
}

ARRAY_OPS = ["__pow__", "__rpow__", "__add__", "__radd__", "__sub__", "__rsub__", "__mul__",
             "__rmul__", "__truediv__", "__rtruediv__"]
ARRAY_OP_SHAPE = """
def {op}(self, other):
    if isinstance(other, ARRAY_TYPES):
        return super().{op}(other)
    return super().{op}(dut.wrap_in_experimental_value(other))
"""

SCALAR_OPS = {"__pow__": ("POW", "__rpow__"), "__add__": ("ADD", "__radd__"),
              "__sub__": ("SUB", "__rsub__"), "__mul__": ("MUL", "__rmul__"),
              "__truediv__": ("DIV", "__rtruediv__")}
SCALAR_SHAPE = """
def {op}(self, other):
    if isinstance(other, ARRAY_TYPES):
        return other.{rop}(self)
    return DerivedValue(Formula(lit.{lit}, [self, dut.wrap_in_experimental_value(other)]))
"""
SCALAR_RSHAPE = """
def {rop}(self, other):
    return DerivedValue(Formula(lit.{lit}, [dut.wrap_in_experimental_value(other), self]))
"""

UTIL_SHAPES = {
    "wrap_in_experimental_value": """
def wrap_in_experimental_value(operand):
    if isinstance(operand, Real):
        return dt.Constant(operand)
    if isinstance(operand, dt.ExperimentalValue):
        return operand
    if isinstance(operand, tuple) and len(operand) == 2:
        return dt.MeasuredValue(operand[0], operand[1])
    raise TypeError('')
""",
    "wrap_in_measurement": """
def wrap_in_measurement(value, **kwargs):
    if isinstance(value, Real):
        return dt.MeasuredValue(value, 0, **kwargs)
    if isinstance(value, tuple) and len(value) == 2:
        return dt.MeasuredValue(*value, **kwargs)
    if isinstance(value, dt.ExperimentalValue):
        value.name = kwargs.get('name', '')
        value.unit = kwargs.get('unit', '')
        return value
    raise TypeError('')
""",
    "wrap_in_value_array": """
def wrap_in_value_array(operand, **kwargs):
    if isinstance(operand, dts.ExperimentalValueArray):
        return operand
    if isinstance(operand, ARRAY_TYPES):
        return np.asarray([wrap_in_measurement(value, **kwargs) for value in operand])
    return np.asarray([wrap_in_measurement(operand, **kwargs)])
""",
}

VECTORIZE_SHAPE = """
def vectorize(func):
    @functools.wraps(func)
    def wrapper_vectorize(*args):
        if any((isinstance(arg, np.ndarray) for arg in args)):
            return np.vectorize(func)(*args)
        if any((isinstance(arg, list) for arg in args)):
            return np.vectorize(func)(*args).tolist()
        return func(*args)
    return wrapper_vectorize
"""

EXECUTE_SHAPE = """
def _execute(operator, *operands):
    if all((isinstance(x, Real) for x in operands)):
        return OPERATIONS[operator](*operands)
    try:
        values = list((dut.wrap_in_experimental_value(x) for x in operands))
    except TypeError:
        raise UndefinedOperationError('')
    return dt.DerivedValue(dt.Formula(operator, list(values)))
"""

# exported one-argument functions -> the literal whose OPERATIONS entry they execute
MATH_FNS = {"sqrt": "SQRT", "exp": "EXP", "sin": "SIN", "cos": "COS", "tan": "TAN", "sec": "SEC",
            "csc": "CSC", "cot": "COT", "asin": "ASIN", "acos": "ACOS", "atan": "ATAN",
            "log10": "LOG10"}
DEG_FNS = ["sind", "cosd", "tand", "secd", "cscd", "cotd"]
LOG_SHAPE = """
def log(*args):
    if len(args) == 2:
        return _execute(lit.LOG, args[0], args[1])
    if len(args) == 1:
        return _execute(lit.LN, args[0])
    raise TypeError('')
"""


class _NameFormat(ast.NodeTransformer):
    """collect the format texts of `"<text>".format(self.name, <index>)` / `(name, index)` and
    replace the text by NAME_FORMAT"""

    def __init__(self):
        self.texts = []

    def visit_Call(self, node):
        self.generic_visit(node)
        f = node.func
        if isinstance(f, ast.Attribute) and f.attr == "format" and isinstance(f.value, ast.Constant) \
                and isinstance(f.value.value, str) and len(node.args) == 2 and not node.keywords:
            self.texts.append(f.value.value)
            node.func.value = ast.Name(id="NAME_FORMAT", ctx=ast.Load())
        return node


def is_vectorized(fn):
    return [dotted(d) for d in fn.decorator_list] == ["utils.vectorize"]


def gen():
    broken, texts = [], []

    def attempt(f):
        try:
            f()
        except Unsupported as e:
            broken.append(str(e))
        except (SyntaxError, ValueError, AttributeError, IndexError, TypeError, KeyError) as e:
            broken.append("arrays: {}: {}".format(type(e).__name__, e))

    def arrays():
        cls = classes_of(ast.parse(src(DS))).get("ExperimentalValueArray")
        if cls is None:
            raise Unsupported("{}: class ExperimentalValueArray missing".format(DS))
        for name, shape in ARRAY_SHAPES.items():
            def one(name=name, shape=shape):
                fn = fresh(method(cls, name, DS))
                nf = _NameFormat()
                fn = nf.visit(fn)
                texts.extend(nf.texts)
                same_shape(fn, shape, DS, "ExperimentalValueArray." + name)
            attempt(one)
        for op in ARRAY_OPS:
            attempt(lambda op=op: same_shape(fresh(method(cls, op, DS)), ARRAY_OP_SHAPE.format(op=op),
                                             DS, "ExperimentalValueArray." + op))

    def scalars():
        cls = classes_of(ast.parse(src(DT))).get("ExperimentalValue")
        if cls is None:
            raise Unsupported("{}: class ExperimentalValue missing".format(DT))
        for op, (lit_, rop) in SCALAR_OPS.items():
            attempt(lambda op=op, lit_=lit_, rop=rop: same_shape(
                fresh(method(cls, op, DT)), SCALAR_SHAPE.format(op=op, rop=rop, lit=lit_), DT,
                "ExperimentalValue." + op))
            attempt(lambda op=op, lit_=lit_, rop=rop: same_shape(
                fresh(method(cls, rop, DT)), SCALAR_RSHAPE.format(rop=rop, lit=lit_), DT,
                "ExperimentalValue." + rop))

    def utils_():
        tree = ast.parse(src(DU))
        for name, shape in UTIL_SHAPES.items():
            def one(name=name, shape=shape):
                fn = find_def(tree, name)
                if fn is None:
                    raise Unsupported("{}: def {} missing".format(DU, name))
                same_shape(fresh(fn), shape, DU, name)
            attempt(one)

        def vec():
            fn = find_def(ast.parse(src(UT)), "vectorize")
            if fn is None:
                raise Unsupported("{}: def vectorize missing".format(UT))
            same_shape(fresh(fn), VECTORIZE_SHAPE, UT, "vectorize")
        attempt(vec)

    def maths():
        tree = ast.parse(src(OP))
        fn = find_def(tree, "_execute")
        if fn is None:
            raise Unsupported("{}: def _execute missing".format(OP))
        attempt(lambda: same_shape(fresh(fn), EXECUTE_SHAPE, OP, "_execute"))
        for name, lit_ in MATH_FNS.items():
            def one(name=name, lit_=lit_):
                f = find_def(tree, name)
                if f is None:
                    raise Unsupported("{}: def {} missing".format(OP, name))
                if not is_vectorized(f):
                    raise Unsupported("{}: {} is not decorated with @utils.vectorize".format(
                        where(f, OP), name))
                same_shape(fresh(f), "def {}(x):\n    return _execute(lit.{}, x)\n".format(name, lit_),
                           OP, name)
            attempt(one)
        for name in DEG_FNS + ["log"]:
            def one(name=name):
                f = find_def(tree, name)
                if f is None:
                    raise Unsupported("{}: def {} missing".format(OP, name))
                if not is_vectorized(f):
                    raise Unsupported("{}: {} is not decorated with @utils.vectorize".format(
                        where(f, OP), name))
                if name == "log":
                    same_shape(fresh(f), LOG_SHAPE, OP, "log")
            attempt(one)

    for part in (arrays, scalars, utils_, maths):
        attempt(part)

    pre, mid, post = "", "_", ""
    if texts and not broken:
        if len(set(texts)) != 1 or texts[0].count("{}") != 2 or "{" in texts[0].replace("{}", ""):
            broken.append("{}: the element names are formatted with {} (model: one `name_index` "
                          "format)".format(DS, sorted(set(texts))))
        else:
            pre, mid, post = texts[0].split("{}")
    text = """/- GENERATED by vf/translate.py from {ds} (and shape checks of {du}, {dt}, {ut}, {op}) — do not edit. -/
namespace QExPy.Gen

/-- reasons the translator could not follow the source (empty = tie intact) -/
def arraysTieBroken : List String := {broken}

/-- the name of the element at position `i` of an array called `name`
    (`"{{}}_{{}}".format(self.name, index)` in append / insert / delete / __setitem__) -/
def arrNameAt (name : String) (i : Nat) : String := {pre} ++ name ++ {mid} ++ toString i ++ {post}

end QExPy.Gen
""".format(ds=DS, du=DU, dt=DT, ut=UT, op=OP, broken=lean_strlist(broken), pre=lean_str(pre),
           mid=lean_str(mid), post=lean_str(post))
    return "Arrays.lean", text, broken

"""Shared helper of the translator sections (not a section itself: the name starts with `_`).

`ArrTr` extends `translate.ExprTr` from scalar formulas to what the procedural parts of the
library are written in:

* scalars  — as `ExprTr`, plus `float(e)`, `abs(e)`, `min/max(a, b)` (Python's argument-order
  semantics, `Py.min/Py.max` of Model/Np.lean), `len(V)`, `np.sum(V)` / `sum(V)`, `np.mean(V)`,
  `np.std(V, ddof=k)`, `np.sqrt / m.sqrt / math.sqrt`, attributes and zero-argument method calls
  of named objects (`self.size`, `self.std()`, ...) that the caller maps to Lean terms;
* vectors  — names / attributes bound to Lean lists, `np.asarray(..) / np.array(..) / list(..)`
  (transparent), generator expressions and list comprehensions over one vector or over
  `zip(A, B)`, element-wise `V op W`, `V op s`, `s op V`, `abs(V)`, `[e] * len(V)`;
* booleans — comparisons (`<, >, <=, >=`, `== 0`, `!= 0`), `and / or / not`,
  `any(.. for ..)`, `all(.. for ..)`; NaN behaves as in Python because the `Num` comparison of
  the executable instances is the IEEE one;
* naturals — small non-negative integer literals and names the caller declares to be naturals
  (`ddof`).

Nothing is guessed: whatever is not listed raises `Unsupported` (the section then reports the
tie as broken and emits a placeholder).
"""
import ast

from translate import ExprTr, Unsupported, where, find_def

CMP = {ast.Lt: ("lt", False), ast.Gt: ("lt", True), ast.LtE: ("le", False), ast.GtE: ("le", True)}
SQRT_MODULES = ("np", "m", "math")
TRANSPARENT = ("asarray", "array", "list", "tuple")
LEAN_RESERVED = {"at", "from", "fun", "end", "in", "do", "if", "then", "else", "let", "have", "show",
                 "by", "match", "with", "open", "def", "theorem", "where", "Type", "Prop", "Sort"}


def dotted(n):
    """a.b.c -> "a.b.c" for chains of Name/Attribute, else None"""
    if isinstance(n, ast.Name):
        return n.id
    if isinstance(n, ast.Attribute):
        b = dotted(n.value)
        return None if b is None else b + "." + n.attr
    return None


def is_super_init(call):
    """super().__init__(...)"""
    f = call.func
    return (isinstance(f, ast.Attribute) and f.attr == "__init__" and isinstance(f.value, ast.Call)
            and isinstance(f.value.func, ast.Name) and f.value.func.id == "super")


class ArrTr(ExprTr):
    """see module docstring.

    names:  scalar python name        -> lean term
    vecs:   vector python name        -> lean list term
    nats:   natural-number name       -> lean Nat term
    sattr:  "self.size"-style path    -> lean scalar term
    vattr:  "self.values"-style path  -> lean list term
    smeth:  "self.std"-style path     -> callable(tr, call_node) -> lean scalar term
    """

    def __init__(self, path, names=None, vecs=None, nats=None, sattr=None, vattr=None, smeth=None,
                 calls=None, modules=("np", "m", "math")):
        ExprTr.__init__(self, path, names=names, calls=calls, modules=modules)
        self.vecs, self.nats = dict(vecs or {}), dict(nats or {})
        self.sattr, self.vattr, self.smeth = dict(sattr or {}), dict(vattr or {}), dict(smeth or {})
        self._fresh = 0

    # ------------------------------------------------------------------ helpers
    def child(self, names=None, vecs=None):
        c = ArrTr(self.path, names=dict(self.names, **(names or {})),
                  vecs=dict(self.vecs, **(vecs or {})), nats=self.nats, sattr=self.sattr,
                  vattr=self.vattr, smeth=self.smeth, calls=self.calls, modules=self.modules)
        c._fresh = self._fresh + 1
        return c

    def bound(self, pyname):
        nm = "v_" + pyname
        return nm + "'" if nm in LEAN_RESERVED else nm

    def is_vec(self, n):
        if isinstance(n, ast.Name):
            return n.id in self.vecs
        if isinstance(n, ast.Attribute):
            return dotted(n) in self.vattr
        if isinstance(n, (ast.GeneratorExp, ast.ListComp, ast.List)):
            return True
        if isinstance(n, ast.Call) and isinstance(n.func, ast.Name) and n.func.id == "abs" \
                and len(n.args) == 1 and not n.keywords:
            return self.is_vec(n.args[0])
        if isinstance(n, ast.Call):
            f = n.func
            nm = f.attr if isinstance(f, ast.Attribute) else f.id if isinstance(f, ast.Name) else None
            if nm in TRANSPARENT and len(n.args) == 1 and not n.keywords:
                return self.is_vec(n.args[0])
            return False
        if isinstance(n, ast.BinOp):
            return self.is_vec(n.left) or self.is_vec(n.right)
        if isinstance(n, ast.UnaryOp):
            return self.is_vec(n.operand)
        return False

    # ------------------------------------------------------------------ naturals
    def nat(self, n):
        if isinstance(n, ast.Constant) and isinstance(n.value, int) and not isinstance(
                n.value, bool) and 0 <= n.value < 2 ** 31:
            return str(n.value)
        if isinstance(n, ast.Name) and n.id in self.nats:
            return self.nats[n.id]
        self.bad(n, "natural number expected")

    # ------------------------------------------------------------------ scalars
    def tr(self, n):
        if self.is_vec(n):
            self.bad(n, "array expression where a number is expected")
        if isinstance(n, ast.Name) and n.id in self.nats and n.id not in self.names:
            return "(Num.ofNat {})".format(self.nats[n.id])
        if isinstance(n, ast.Attribute):
            d = dotted(n)
            if d in self.sattr:
                return self.sattr[d]
            return ExprTr.tr(self, n)
        if isinstance(n, ast.Call):
            f = n.func
            d = dotted(f)
            if d in self.smeth:
                return self.smeth[d](self, n)
            if isinstance(f, ast.Name) and not n.keywords:
                if f.id == "float" and len(n.args) == 1:
                    return self.tr(n.args[0])
                if f.id == "abs" and len(n.args) == 1:
                    return "(Num.abs {})".format(self.tr(n.args[0]))
                if f.id in ("min", "max") and len(n.args) == 2 and not any(
                        self.is_vec(a) for a in n.args):
                    return "(Py.{} {} {})".format(f.id, self.tr(n.args[0]), self.tr(n.args[1]))
                if f.id == "sum" and len(n.args) == 1:
                    return "(Num.sum {})".format(self.vec(n.args[0]))
                if f.id == "len" and len(n.args) == 1:
                    return "(Num.ofNat ({}).length)".format(self.vec(n.args[0]))
            if isinstance(f, ast.Attribute) and isinstance(f.value, ast.Name):
                mod, fn = f.value.id, f.attr
                if mod in SQRT_MODULES and fn == "sqrt" and len(n.args) == 1 and not n.keywords \
                        and not self.is_vec(n.args[0]):
                    return "(Num.sqrt {})".format(self.tr(n.args[0]))
                if mod == "np" and fn == "sum" and len(n.args) == 1 and not n.keywords:
                    return "(Num.sum {})".format(self.vec(n.args[0]))
                if mod == "np" and fn == "mean" and len(n.args) == 1 and not n.keywords:
                    return "(Np.mean {})".format(self.vec(n.args[0]))
                if mod == "np" and fn == "std" and len(n.args) == 1:
                    kw = {k.arg: k.value for k in n.keywords}
                    if set(kw) - {"ddof"}:
                        self.bad(n, "np.std keyword {}".format(sorted(set(kw) - {"ddof"})))
                    ddof = self.nat(kw["ddof"]) if "ddof" in kw else "0"
                    return "(Np.std ({}) {})".format(ddof, self.vec(n.args[0]))
            return ExprTr.tr(self, n)
        return ExprTr.tr(self, n)

    # ------------------------------------------------------------------ vectors
    def vec(self, n):
        if isinstance(n, ast.Name):
            if n.id in self.vecs:
                return self.vecs[n.id]
            self.bad(n, "name {} is not a known array".format(n.id))
        if isinstance(n, ast.Attribute):
            d = dotted(n)
            if d in self.vattr:
                return self.vattr[d]
            self.bad(n, "attribute .{} is not a known array".format(n.attr))
        if isinstance(n, ast.Call) and isinstance(n.func, ast.Name) and n.func.id == "abs" \
                and len(n.args) == 1 and not n.keywords:
            return "(List.map (fun t => Num.abs t) {})".format(self.vec(n.args[0]))
        if isinstance(n, ast.BinOp) and isinstance(n.op, ast.Mult) and isinstance(n.left, ast.List) \
                and len(n.left.elts) == 1 and isinstance(n.right, ast.Call) \
                and isinstance(n.right.func, ast.Name) and n.right.func.id == "len" \
                and len(n.right.args) == 1 and not n.right.keywords:
            # [e] * len(V)
            return "(List.replicate ({}).length {})".format(
                self.vec(n.right.args[0]), self.tr(n.left.elts[0]))
        if isinstance(n, ast.Call):
            f = n.func
            nm = f.attr if isinstance(f, ast.Attribute) else f.id if isinstance(f, ast.Name) else None
            if nm in TRANSPARENT and len(n.args) == 1 and not n.keywords and (
                    isinstance(f, ast.Name) or (isinstance(f.value, ast.Name) and f.value.id == "np")):
                return self.vec(n.args[0])
            self.bad(n, "array-valued call")
        if isinstance(n, (ast.GeneratorExp, ast.ListComp)):
            if len(n.generators) != 1 or n.generators[0].ifs or n.generators[0].is_async:
                self.bad(n, "comprehension with several loops or a filter")
            g = n.generators[0]
            if isinstance(g.target, ast.Name):
                v = self.bound(g.target.id)
                body = self.child(names={g.target.id: v}).tr(n.elt)
                return "(List.map (fun {} => {}) {})".format(v, body, self.vec(g.iter))
            if (isinstance(g.target, ast.Tuple) and len(g.target.elts) == 2
                    and all(isinstance(e, ast.Name) for e in g.target.elts)
                    and isinstance(g.iter, ast.Call) and isinstance(g.iter.func, ast.Name)
                    and g.iter.func.id == "zip" and len(g.iter.args) == 2 and not g.iter.keywords):
                a, b = (e.id for e in g.target.elts)
                va, vb = self.bound(a), self.bound(b)
                body = self.child(names={a: va, b: vb}).tr(n.elt)
                return "(List.zipWith (fun {} {} => {}) {} {})".format(
                    va, vb, body, self.vec(g.iter.args[0]), self.vec(g.iter.args[1]))
            self.bad(n, "comprehension target / iterable")
        if isinstance(n, ast.BinOp):
            from translate import BINOPS
            f = BINOPS.get(type(n.op))
            if not f:
                self.bad(n, "binary operator {}".format(type(n.op).__name__))
            lv, rv = self.is_vec(n.left), self.is_vec(n.right)
            if lv and rv:
                return "(List.zipWith {} {} {})".format(f, self.vec(n.left), self.vec(n.right))
            if lv:
                return "(List.map (fun t => {} t {}) {})".format(f, self.tr(n.right), self.vec(n.left))
            if rv:
                return "(List.map (fun t => {} {} t) {})".format(f, self.tr(n.left), self.vec(n.right))
        self.bad(n, "array expression {}".format(type(n).__name__))

    # ------------------------------------------------------------------ booleans
    def trb(self, n):
        if isinstance(n, ast.BoolOp):
            op = " || " if isinstance(n.op, ast.Or) else " && "
            return "(" + op.join(self.trb(v) for v in n.values) + ")"
        if isinstance(n, ast.UnaryOp) and isinstance(n.op, ast.Not):
            return "(!{})".format(self.trb(n.operand))
        if isinstance(n, ast.Compare):
            parts, left = [], n.left
            for op, right in zip(n.ops, n.comparators):
                parts.append(self._cmp(n, left, op, right))
                left = right
            return parts[0] if len(parts) == 1 else "(" + " && ".join(parts) + ")"
        if isinstance(n, ast.Call) and isinstance(n.func, ast.Name) and n.func.id in ("any", "all") \
                and len(n.args) == 1 and not n.keywords and isinstance(
                    n.args[0], (ast.GeneratorExp, ast.ListComp)):
            g = n.args[0]
            if len(g.generators) != 1 or g.generators[0].ifs or not isinstance(
                    g.generators[0].target, ast.Name):
                self.bad(n, "any/all over several loops or a filter")
            t = g.generators[0].target.id
            v = self.bound(t)
            return "(List.{} {} (fun {} => {}))".format(
                n.func.id, self.vec(g.generators[0].iter), v, self.child(names={t: v}).trb(g.elt))
        self.bad(n, "boolean expression {}".format(type(n).__name__))

    def _cmp(self, node, left, op, right):
        def zero(c):
            return isinstance(c, ast.Constant) and not isinstance(c.value, bool) and \
                isinstance(c.value, (int, float)) and c.value == 0
        if isinstance(op, (ast.Eq, ast.NotEq)):
            if zero(right):
                t = "(Num.isZero {})".format(self.tr(left))
            elif zero(left):
                t = "(Num.isZero {})".format(self.tr(right))
            else:
                self.bad(node, "equality test against something other than 0")
            return t if isinstance(op, ast.Eq) else "(!{})".format(t)
        if type(op) in CMP:
            f, swap = CMP[type(op)]
            a, b = self.tr(left), self.tr(right)
            return "(Num.{} {} {})".format(f, b, a) if swap else "(Num.{} {} {})".format(f, a, b)
        self.bad(node, "comparison operator {}".format(type(op).__name__))


# ---------------------------------------------------------------------- statement-level helpers
def classes_of(tree):
    return {c.name: c for c in tree.body if isinstance(c, ast.ClassDef)}


def method(cls, name, path, kind=None):
    """the FunctionDef `name` in class `cls`; kind = None (plain) | "getter" | "setter" """
    for f in cls.body:
        if not (isinstance(f, ast.FunctionDef) and f.name == name):
            continue
        decs = [dotted(d) or "" for d in f.decorator_list]
        is_setter = any(d.endswith(".setter") for d in decs)
        is_getter = "property" in decs
        if kind == "setter" and is_setter:
            return f
        if kind == "getter" and is_getter:
            return f
        if kind is None and not is_setter and not is_getter:
            return f
    raise Unsupported("{}: {}.{}{} missing".format(path, cls.name, name,
                                                   " ({})".format(kind) if kind else ""))


def strip_doc(body):
    return [s for s in body if not (isinstance(s, ast.Expr) and isinstance(s.value, ast.Constant)
                                    and isinstance(s.value.value, str))]


def is_warn(s):
    """warnings.warn(...) statement"""
    return (isinstance(s, ast.Expr) and isinstance(s.value, ast.Call)
            and dotted(s.value.func) == "warnings.warn")


def is_nan(n):
    return dotted(n) in ("np.nan", "math.nan", "m.nan") or (
        isinstance(n, ast.Call) and dotted(n.func) == "float" and len(n.args) == 1
        and isinstance(n.args[0], ast.Constant) and n.args[0].value == "nan")


class _Sub(ast.NodeTransformer):
    def __init__(self, local):
        self.local = local

    def visit_Name(self, node):
        if isinstance(node.ctx, ast.Load) and node.id in self.local:
            return self.local[node.id]
        return node


def straight(fn, path, nan_guard=False):
    """[docstring] [if G: warn; return nan] (x = expr)* return expr
    -> (guard ast | None, returned ast with the locals inlined).  Generator-expression targets
    shadowing a local are not supported (raises)."""
    body = strip_doc(fn.body)
    guard = None
    if nan_guard and body and isinstance(body[0], ast.If):
        g = body[0]
        inner = [s for s in g.body if not is_warn(s)]
        if g.orelse or len(inner) != 1 or not isinstance(inner[0], ast.Return) or \
                not is_nan(inner[0].value):
            raise Unsupported("{}: leading `if` of {} is not `if G: [warn]; return nan`".format(
                where(g, path), fn.name))
        guard, body = g.test, body[1:]
    local = {}
    for s in body[:-1]:
        if not (isinstance(s, ast.Assign) and len(s.targets) == 1
                and isinstance(s.targets[0], ast.Name)):
            raise Unsupported("{}: statement in the body of {}".format(where(s, path), fn.name))
        for g in ast.walk(s.value):
            if isinstance(g, ast.comprehension):
                for t in ast.walk(g.target):
                    if isinstance(t, ast.Name) and t.id in local:
                        raise Unsupported("{}: loop variable shadows a local".format(where(s, path)))
        local[s.targets[0].id] = _Sub(local).visit(s.value)
    if not body or not isinstance(body[-1], ast.Return) or body[-1].value is None:
        raise Unsupported("{}: {} does not end in `return <expr>`".format(where(fn, path), fn.name))
    return guard, _Sub(local).visit(body[-1].value)


def default_of(fn, arg, path):
    """default value node of parameter `arg`"""
    a = fn.args
    pos = a.args
    defaults = [None] * (len(pos) - len(a.defaults)) + list(a.defaults)
    for p, d in zip(pos, defaults):
        if p.arg == arg:
            if d is None:
                raise Unsupported("{}: parameter {} of {} has no default".format(
                    where(fn, path), arg, fn.name))
            return d
    for p, d in zip(a.kwonlyargs, a.kw_defaults):
        if p.arg == arg and d is not None:
            return d
    raise Unsupported("{}: parameter {} of {} missing".format(where(fn, path), arg, fn.name))


def raises(stmt):
    """exception class name if `stmt` is `raise X(...)`/`raise X`, else None"""
    if isinstance(stmt, ast.Raise) and stmt.exc is not None:
        e = stmt.exc.func if isinstance(stmt.exc, ast.Call) else stmt.exc
        return dotted(e)
    return None


__all__ = ["ArrTr", "dotted", "classes_of", "method", "strip_doc", "straight", "default_of",
           "raises", "is_warn", "is_nan", "is_super_init", "find_def"]

"""translator section `uncert` (C14): every place that accepts an uncertainty from outside

  qexpy/data/data.py      MeasuredValue.__init__ (sign test, what is stored), the `error` and
                          `relative_error` setters of MeasuredValue and of DerivedValue
                          (tests, the new uncertainty `abs(value) * float(r)`), the `value`
                          setters of DerivedValue / RepeatedlyMeasuredValue (the uncertainty is kept)
  qexpy/data/datasets.py  _get_error_array_helper (one array per branch, the final sign test)

  qexpy/data/datasets.py  XYDataSet.__init__: both (data, uncertainty) pairs go through
                          _get_error_array_helper BEFORE the first __wrap_data call, for sides that
                          are existing arrays (whose elements __wrap_data overwrites) and for sides
                          that are plain lists (refused only when wrapped, i.e. after the other side)

Structural checks (no Lean counterpart, break the tie): in every setter the type test comes first,
the sign test second and both precede the first assignment to `self` (incl. the cast
`self.__class__ = MeasuredValue`: validate before cast); the branches of the array helper are
tested in the order none / number / list / relative number / relative list / else TypeError, the
two list branches reject unequal lengths, and the sign test runs on the array that is returned.
"""
import ast

from translate import Unsupported, src, where, find_def, lean_strlist
from tr._arr import ArrTr, dotted, classes_of, method, strip_doc, raises, is_warn, is_super_init

DT, DS = "qexpy/data/data.py", "qexpy/data/datasets.py"

PLACEHOLDER = {
    "ctorBad": "false", "ctorError": "error", "setErrBad": "false", "setErrNew": "error",
    "setRelBad": "false", "setRelNew": "r", "dSetErrBad": "false", "dSetErrNew": "error",
    "dSetRelBad": "false", "dSetRelNew": "r", "errNone": "[]", "errCommon": "[]", "errEach": "es",
    "errRel": "[]", "errRels": "[]", "errBad": "false",
}


def norm(n):
    return ast.unparse(n)


class _Sub(ast.NodeTransformer):
    def __init__(self, local):
        self.local = local

    def visit_Name(self, node):
        if isinstance(node.ctx, ast.Load) and node.id in self.local:
            return self.local[node.id]
        return node


class _Truthy(ast.NodeTransformer):
    """`a if x else b` with a bare name as the test: a number is true iff it is not 0;
    `a if x is not None else b`: a (the section translates the case where a number was given)"""

    def visit_IfExp(self, node):
        self.generic_visit(node)
        t = node.test
        if isinstance(t, ast.Compare) and len(t.ops) == 1 and isinstance(t.ops[0], ast.IsNot) \
                and isinstance(t.left, ast.Name) and isinstance(t.comparators[0], ast.Constant) \
                and t.comparators[0].value is None:
            return node.body        # the translated case is the one where a number was given
        if isinstance(node.test, ast.Name):
            node.test = ast.Compare(left=node.test, ops=[ast.NotEq()],
                                    comparators=[ast.Constant(value=0)])
        return node


def scalar_tr(path, names, value_term=None):
    sattr = {"self.value": value_term} if value_term else {}
    return ArrTr(path, names=names, sattr=sattr)


def setter_walk(fn, path, what):
    """[isinstance test -> TypeError] [sign test -> ValueError] then warnings / locals / the cast /
    assignments.  Returns (sign test ast, {target path: value ast with locals inlined})."""
    param = fn.args.args[1].arg
    body = strip_doc(fn.body)
    if len(body) < 3:
        raise Unsupported("{}: {} is too short".format(where(fn, path), what))
    t0, t1 = body[0], body[1]
    if not (isinstance(t0, ast.If) and not t0.orelse and len(t0.body) == 1
            and raises(t0.body[0]) == "TypeError"
            and norm(t0.test) == "not isinstance({}, Real)".format(param)):
        raise Unsupported("{}: {} does not start with `if not isinstance({}, Real): raise "
                          "TypeError`".format(where(t0, path), what, param))
    if not (isinstance(t1, ast.If) and not t1.orelse and len(t1.body) == 1
            and raises(t1.body[0]) == "ValueError"):
        raise Unsupported("{}: the second statement of {} is not `if <sign test>: raise ValueError` "
                          "(validate before anything is assigned / cast)".format(
                              where(t1, path), what))
    local, writes = {}, {}
    for s in body[2:]:
        if is_warn(s):
            continue
        if isinstance(s, ast.Assign) and len(s.targets) == 1:
            tgt = s.targets[0]
            if isinstance(tgt, ast.Name):
                local[tgt.id] = _Sub(local).visit(ast.parse(norm(s.value), mode="eval").body)
                continue
            if isinstance(tgt, ast.Tuple) and isinstance(s.value, ast.Tuple) and \
                    len(tgt.elts) == len(s.value.elts):
                for a, b in zip(tgt.elts, s.value.elts):
                    writes[dotted(a)] = _Sub(local).visit(ast.parse(norm(b), mode="eval").body)
                continue
            if dotted(tgt):
                writes[dotted(tgt)] = _Sub(local).visit(ast.parse(norm(s.value), mode="eval").body)
                continue
        raise Unsupported("{}: statement in {}".format(where(s, path), what))
    return param, t1.test, writes


def gen_data(out, broken):
    tree = ast.parse(src(DT))
    classes = classes_of(tree)
    mv, dv, rep = (classes.get(k) for k in ("MeasuredValue", "DerivedValue",
                                            "RepeatedlyMeasuredValue"))
    if mv is None or dv is None or rep is None:
        raise Unsupported("{}: MeasuredValue / DerivedValue / RepeatedlyMeasuredValue missing".format(DT))

    def attempt(f):
        try:
            f()
        except Unsupported as e:
            broken.append(str(e))

    def ctor():
        fn = method(mv, "__init__", DT)
        params = [a.arg for a in fn.args.args]
        if len(params) < 3:
            raise Unsupported("{}: signature of MeasuredValue.__init__".format(where(fn, DT)))
        data, error = params[1], params[2]
        body = strip_doc(fn.body)
        sign_at = store_at = None
        for k, s in enumerate(body):
            if isinstance(s, ast.If) and not s.orelse and len(s.body) == 1 and \
                    raises(s.body[0]) == "ValueError":
                t = s.test
                if not (isinstance(t, ast.BoolOp) and isinstance(t.op, ast.And) and len(t.values) == 2
                        and norm(t.values[0]) == "{} is not None".format(error)):
                    raise Unsupported("{}: sign test of the constructor is not `{} is not None and "
                                      "<test>`".format(where(s, DT), error))
                out["ctorBad"] = scalar_tr(DT, {error: "error"}).trb(t.values[1])
                sign_at = k
            if isinstance(s, ast.Assign) and len(s.targets) == 1 and isinstance(
                    s.targets[0], ast.Tuple) and [dotted(e) for e in s.targets[0].elts] == [
                        "self._value", "self._error"] and isinstance(s.value, ast.Tuple):
                a, b = s.value.elts
                if norm(a) != "float({})".format(data):
                    raise Unsupported("{}: stored value is not float({})".format(where(s, DT), data))
                b = _Truthy().visit(ast.parse(norm(b), mode="eval").body)
                out["ctorError"] = scalar_tr(DT, {error: "error"}).tr(b)
                store_at = k
        if sign_at is None or store_at is None or not sign_at < store_at:
            raise Unsupported("{}: MeasuredValue.__init__ does not test the sign of the uncertainty "
                              "before storing `self._value, self._error`".format(where(fn, DT)))

    def setters():
        for cls, pre in ((mv, "set"), (dv, "dSet")):
            fn = method(cls, "error", DT, "setter")
            what = "{}.error setter".format(cls.name)
            p, test, writes = setter_walk(fn, DT, what)
            out[pre + "ErrBad"] = scalar_tr(DT, {p: "error"}).trb(test)
            tgt = "self._error" if cls is mv else "self.error"
            if tgt not in writes:
                raise Unsupported("{}: {} does not assign {}".format(where(fn, DT), what, tgt))
            out[pre + "ErrNew"] = scalar_tr(DT, {p: "error"}, "value").tr(writes[tgt])
            if cls is dv and norm(writes.get("self.value", ast.Name(id="?"))) != "self.value":
                raise Unsupported("{}: {} does not keep the value".format(where(fn, DT), what))
            if cls is dv and norm(writes.get("self.__class__", ast.Name(id="?"))) != "MeasuredValue":
                raise Unsupported("{}: {} does not cast to MeasuredValue".format(where(fn, DT), what))

            fn = method(cls, "relative_error", DT, "setter")
            what = "{}.relative_error setter".format(cls.name)
            p, test, writes = setter_walk(fn, DT, what)
            out[pre + "RelBad"] = scalar_tr(DT, {p: "r"}).trb(test)
            if tgt not in writes:
                raise Unsupported("{}: {} does not assign {}".format(where(fn, DT), what, tgt))
            out[pre + "RelNew"] = scalar_tr(DT, {p: "r"}, "value").tr(writes[tgt])
            if cls is dv and norm(writes.get("self.value", ast.Name(id="?"))) != "self.value":
                raise Unsupported("{}: {} does not keep the value".format(where(fn, DT), what))

    def value_setters():
        # DerivedValue.value: error = self.error (before the cast); ...; self.value, self.error = new, error
        fn = method(dv, "value", DT, "setter")
        body = strip_doc(fn.body)
        p = fn.args.args[1].arg
        srcs = [norm(s) for s in body if not is_warn(s)]
        want_tail = ["error = self.error", "self.__class__ = MeasuredValue",
                     "self.value, self.error = ({}, error)".format(p)]
        if srcs[-3:] != want_tail:
            raise Unsupported("{}: DerivedValue.value setter does not keep the uncertainty it had "
                              "before the cast (`error = self.error; cast; self.value, self.error = "
                              "new, error`)".format(where(fn, DT)))
        fn = method(rep, "value", DT, "setter")
        assigned = [dotted(s.targets[0]) for s in strip_doc(fn.body)
                    if isinstance(s, ast.Assign) and len(s.targets) == 1]
        if sorted(assigned) != ["self.__class__", "self._value"]:
            raise Unsupported("{}: RepeatedlyMeasuredValue.value setter assigns {} (model: the "
                              "class and _value only; the uncertainty stays)".format(
                                  where(fn, DT), assigned))

    for f in (ctor, setters, value_setters):
        attempt(f)


def gen_helper(out, broken):
    tree = ast.parse(src(DS))
    fn = find_def(tree, "_get_error_array_helper")
    if fn is None:
        raise Unsupported("{}: _get_error_array_helper missing".format(DS))
    params = [a.arg for a in fn.args.args]
    if len(params) != 3:
        raise Unsupported("{}: signature of _get_error_array_helper".format(where(fn, DS)))
    data, error, rel = params
    body = strip_doc(fn.body)
    if len(body) != 3 or not isinstance(body[0], ast.If):
        raise Unsupported("{}: _get_error_array_helper is not `if/elif chain; sign test; return`"
                          .format(where(fn, DS)))
    # flatten the if / elif chain
    chain, node = [], body[0]
    while True:
        chain.append((node.test, node.body))
        if len(node.orelse) == 1 and isinstance(node.orelse[0], ast.If):
            node = node.orelse[0]
            continue
        tail = node.orelse
        break
    lst = "isinstance({0}, ARRAY_TYPES) and all((isinstance({1}, Real) for {1} in {0}))"
    tests = [norm(t) for t, _ in chain]

    def list_test(t, arr):
        # the loop variable's name is free
        if not (isinstance(t, ast.BoolOp) and isinstance(t.op, ast.And) and len(t.values) == 2):
            return False
        g = t.values[1]
        try:
            var = g.args[0].generators[0].target.id
        except (AttributeError, IndexError):
            return False
        return norm(t) == lst.format(arr, var)
    ok = (len(chain) == 5
          and tests[0] == "{} is None and {} is None".format(error, rel)
          and tests[1] == "isinstance({}, Real)".format(error)
          and list_test(chain[2][0], error)
          and tests[3] == "isinstance({}, Real)".format(rel)
          and list_test(chain[4][0], rel)
          and len(tail) == 1 and raises(tail[0]) == "TypeError")
    if not ok:
        raise Unsupported("{}: branches of _get_error_array_helper are not none / number / list / "
                          "relative number / relative list / else TypeError, in this order".format(
                              where(body[0], DS)))

    def branch(k, arr=None):
        stmts = list(chain[k][1])
        if arr is not None:
            g = stmts[0] if stmts else None
            if not (isinstance(g, ast.If) and not g.orelse and len(g.body) == 1
                    and raises(g.body[0]) == "ValueError"
                    and norm(g.test) in ("len({}) != len({})".format(arr, data),
                                         "len({}) != len({})".format(data, arr))):
                raise Unsupported("{}: list branch does not reject unequal lengths first".format(
                    where(chain[k][0], DS)))
            stmts = stmts[1:]
        if not (len(stmts) == 1 and isinstance(stmts[0], ast.Assign) and len(stmts[0].targets) == 1
                and isinstance(stmts[0].targets[0], ast.Name)):
            raise Unsupported("{}: branch is not a single assignment".format(where(chain[k][0], DS)))
        return stmts[0].targets[0].id, stmts[0].value

    names = set()

    def tr_branch(k, key, arr, vecs, scalars):
        nm, val = branch(k, arr)
        names.add(nm)
        out[key] = ArrTr(DS, names=scalars, vecs=vecs).vec(val)

    tr_branch(0, "errNone", None, {data: "xs"}, {})
    tr_branch(1, "errCommon", None, {data: "xs"}, {error: "error"})
    tr_branch(2, "errEach", error, {data: "xs", error: "es"}, {})
    tr_branch(3, "errRel", None, {data: "xs"}, {rel: "r"})
    tr_branch(4, "errRels", rel, {data: "xs", rel: "rs"}, {})
    if len(names) != 1:
        raise Unsupported("{}: the branches assign different names {}".format(where(fn, DS), sorted(names)))
    arr = names.pop()
    g = body[1]
    if not (isinstance(g, ast.If) and not g.orelse and len(g.body) == 1
            and raises(g.body[0]) == "ValueError"):
        raise Unsupported("{}: the helper does not end with `if <sign test>: raise ValueError; "
                          "return`".format(where(g, DS)))
    out["errBad"] = ArrTr(DS, vecs={arr: "l"}).trb(g.test)
    if not (isinstance(body[2], ast.Return) and dotted(body[2].value) == arr):
        raise Unsupported("{}: the helper does not return the array it tested".format(where(body[2], DS)))


def gen_xy(out, broken):
    """XYDataSet.__init__ validates the whole request before anything is changed"""
    tree = ast.parse(src(DS))
    cls = classes_of(tree).get("XYDataSet")
    if cls is None:
        raise Unsupported("{}: XYDataSet missing".format(DS))
    fn = method(cls, "__init__", DS)
    body = strip_doc(fn.body)
    first_wrap = next((k for k, st in enumerate(body) if "__wrap_data(" in norm(st)), None)
    if first_wrap is None:
        raise Unsupported("{}: XYDataSet.__init__ does not call __wrap_data".format(where(fn, DS)))
    existing = plain = False
    for st in body[:first_wrap]:
        if not isinstance(st, ast.For):
            continue
        names = {n.id for n in ast.walk(st.iter) if isinstance(n, ast.Name)}
        if not {"xerr", "yerr"} <= names:
            continue
        bound = {n.id for n in ast.walk(st.target) if isinstance(n, ast.Name)}

        def visit(stmts, under_array_test):
            nonlocal existing, plain
            for x in stmts:
                if isinstance(x, ast.If):
                    t = norm(x.test)
                    pos = "isinstance(" in t and "ExperimentalValueArray" in t and not t.startswith("not ")
                    visit(x.body, under_array_test or pos)
                    visit(x.orelse, under_array_test)
                    continue
                for c in ast.walk(x):
                    if isinstance(c, ast.Call) and dotted(c.func) == "_get_error_array_helper" and \
                            len(c.args) == 3 and isinstance(c.args[1], ast.Name) and \
                            c.args[1].id in bound and isinstance(c.args[2], ast.Constant) and \
                            c.args[2].value is None:
                        existing = existing or under_array_test or not skips_arrays
                        plain = plain or not under_array_test
        # `if isinstance(data, ExperimentalValueArray): continue` at the top of the loop body
        skips_arrays = any(isinstance(x, ast.If) and "ExperimentalValueArray" in norm(x.test)
                           and len(x.body) == 1 and isinstance(x.body[0], ast.Continue)
                           for x in st.body)
        visit(st.body, False)
    if not existing:
        broken.append("{}: XYDataSet.__init__ does not pass (xdata, xerr) and (ydata, yerr) of EXISTING "
                      "arrays through _get_error_array_helper before the first __wrap_data call (a "
                      "refused request would leave the other array overwritten)".format(where(fn, DS)))
    if not plain:
        broken.append("{}: XYDataSet.__init__ does not check the uncertainties of a plain-list side "
                      "before the first __wrap_data call".format(where(fn, DS)))


def gen():
    broken, out = [], {}
    for part in (gen_data, gen_helper, gen_xy):
        try:
            part(out, broken)
        except Unsupported as e:
            broken.append(str(e))
        except (SyntaxError, ValueError, AttributeError, IndexError, TypeError) as e:
            broken.append("uncert: {}: {}: {}".format(part.__name__, type(e).__name__, e))
    o = dict(PLACEHOLDER, **out)
    text = """/- GENERATED by vf/translate.py from {dt}, {ds} — do not edit. -/
import QExPy.Num
import QExPy.Model.Np
set_option linter.unusedVariables false
namespace QExPy.Gen
variable {{α : Type}} [Num α]

/-- reasons the translator could not follow the source (empty = tie intact) -/
def uncertTieBroken : List String := {broken}

/-! ### MeasuredValue.__init__(data, error) with a number given as `error` -/

/-- the test that raises ValueError -/
def ctorNegBad (error : α) : Bool := {ctorBad}
/-- what is stored as `_error` -/
def ctorError (error : α) : α := {ctorError}

/-! ### MeasuredValue: `x.error = error`, `x.relative_error = r` (value = self.value) -/

def setErrBad (error : α) : Bool := {setErrBad}
def setErrNew (value error : α) : α := {setErrNew}
def setRelBad (r : α) : Bool := {setRelBad}
def setRelNew (value r : α) : α := {setRelNew}

/-! ### DerivedValue: the same two setters (the quantity is cast to a MeasuredValue) -/

def dSetErrBad (error : α) : Bool := {dSetErrBad}
def dSetErrNew (value error : α) : α := {dSetErrNew}
def dSetRelBad (r : α) : Bool := {dSetRelBad}
def dSetRelNew (value r : α) : α := {dSetRelNew}

/-! ### _get_error_array_helper(data = xs, error, rel_error): the array of each branch -/

def errNone (xs : List α) : List α := {errNone}
def errCommon (xs : List α) (error : α) : List α := {errCommon}
def errEach (xs es : List α) : List α := {errEach}
def errRel (xs : List α) (r : α) : List α := {errRel}
def errRels (xs rs : List α) : List α := {errRels}
/-- the final test that raises ValueError, on the array about to be returned -/
def errArrayBad (l : List α) : Bool := {errBad}

end QExPy.Gen
""".format(dt=DT, ds=DS, broken=lean_strlist(broken), **o)
    return "Uncert.lean", text, broken

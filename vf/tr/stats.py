"""translator section `stats` (C10, and through Model/Stats.lean C04, C14, C17):

  qexpy/data/datasets.py  ExperimentalValueArray.std (incl. the default of `ddof`), error_on_mean,
                          mean, sum, error_weighted_mean, propagated_error
  qexpy/utils/utils.py    calculate_covariance
  qexpy/data/data.py      RepeatedlyMeasuredValue.__init__ (which statistic becomes the value /
                          the uncertainty), the statistic properties, the four use_* selectors
                          (which field each writes, from what, under which guard)

numpy calls (`np.mean`, `np.std(.., ddof=k)`, `np.sum`) are mapped to the primitives of
`Model/Np.lean`; everything QExPy computes itself is translated expression by expression.
"""
import ast

from translate import Unsupported, src, where, find_def, lean_strlist
from tr._arr import (ArrTr, dotted, classes_of, method, strip_doc, straight, default_of, raises,
                     is_warn, is_super_init)

DS, UT, DT = "qexpy/data/datasets.py", "qexpy/utils/utils.py", "qexpy/data/data.py"

PLACEHOLDER = {
    "ddof": "0", "std": "(Num.ofNat 0)", "sem": "(Num.ofNat 0)", "meanV": "(Num.ofNat 0)",
    "meanE": "(Num.ofNat 0)", "sumV": "(Num.ofNat 0)", "sumE": "(Num.ofNat 0)",
    "wmeanNan": "false", "wmean": "(Num.ofNat 0)", "perrNan": "false", "perr": "(Num.ofNat 0)",
    "cov": "(Num.ofNat 0)", "repMean": "(Num.ofNat 0)", "repStd": "(Num.ofNat 0)",
    "repSem": "(Num.ofNat 0)", "repWmean": "(Num.ofNat 0)", "repPerr": "(Num.ofNat 0)",
    "initV": "(Num.ofNat 0)", "initE": "(Num.ofNat 0)",
    "useStd": "(v, e)", "useSem": "(v, e)", "useWmean": "(v, e)", "usePerr": "(v, e)",
}


def _std_call(tr, node):
    """self.std() / self.std(ddof=k) / self.std(k) inside the array class"""
    kw = {k.arg: k.value for k in node.keywords}
    if set(kw) - {"ddof"} or len(node.args) > 1 or (node.args and kw):
        tr.bad(node, "arguments of std()")
    if node.args:
        return "(arrStd ({}) xs)".format(tr.nat(node.args[0]))
    if "ddof" in kw:
        return "(arrStd ({}) xs)".format(tr.nat(kw["ddof"]))
    return "(arrStd arrStdDdof xs)"


def _noargs(term):
    def h(tr, node):
        if node.args or node.keywords:
            tr.bad(node, "unexpected arguments")
        return term
    return h


def array_tr(prefix="self"):
    """translator for expressions inside ExperimentalValueArray methods (prefix = "self") or for
    expressions that reach the array through `self._raw_data` (prefix = "self._raw_data")"""
    p = prefix + "."
    return ArrTr(
        DS,
        vattr={p + "values": "xs", p + "errors": "es"},
        sattr={p + "size": "(Num.ofNat xs.length)"},
        smeth={p + "std": _std_call,
               p + "error_on_mean": _noargs("(arrSem xs)"),
               p + "error_weighted_mean": _noargs("(arrWmean xs es)"),
               p + "propagated_error": _noargs("(arrPerr es)")})


def measured_args(call, path, fn):
    """dt.MeasuredValue(A, B, ...) -> (A, B)"""
    if not (isinstance(call, ast.Call) and (dotted(call.func) or "").split(".")[-1] == "MeasuredValue"
            and len(call.args) == 2):
        raise Unsupported("{}: {} does not return MeasuredValue(value, error, ..)".format(
            where(fn, path), fn.name))
    return call.args[0], call.args[1]


def gen_array(out, broken):
    tree = ast.parse(src(DS))
    cls = classes_of(tree).get("ExperimentalValueArray")
    if cls is None:
        raise Unsupported("{}: class ExperimentalValueArray missing".format(DS))

    def attempt(f):
        try:
            f()
        except Unsupported as e:
            broken.append(str(e))

    def do_std():
        fn = method(cls, "std", DS)
        d = default_of(fn, "ddof", DS)
        if not (isinstance(d, ast.Constant) and isinstance(d.value, int)
                and not isinstance(d.value, bool) and d.value >= 0):
            raise Unsupported("{}: default of ddof".format(where(d, DS)))
        out["ddof"] = str(d.value)
        _, ret = straight(fn, DS)
        t = array_tr()
        t.nats = {"ddof": "ddof"}
        out["std"] = t.tr(ret)

    def do_sem():
        _, ret = straight(method(cls, "error_on_mean", DS), DS)
        out["sem"] = array_tr().tr(ret)

    def do_mean():
        fn = method(cls, "mean", DS)
        _, ret = straight(fn, DS)
        a, b = measured_args(ret, DS, fn)
        out["meanV"], out["meanE"] = array_tr().tr(a), array_tr().tr(b)

    def do_sum():
        fn = method(cls, "sum", DS)
        _, ret = straight(fn, DS)
        a, b = measured_args(ret, DS, fn)
        out["sumV"], out["sumE"] = array_tr().tr(a), array_tr().tr(b)

    def weighted(name, key):
        def run():
            fn = method(cls, name, DS)
            guard, ret = straight(fn, DS, nan_guard=True)
            if guard is None:
                raise Unsupported("{}: {} has no leading `if ..: return nan` guard (the model "
                                  "ignores the weighted statistics when an uncertainty is 0)"
                                  .format(where(fn, DS), name))
            t = array_tr()
            out[key + "Nan"] = t.trb(guard)
            out[key] = t.tr(ret)
        return run

    for f in (do_std, do_sem, do_mean, do_sum, weighted("error_weighted_mean", "wmean"),
              weighted("propagated_error", "perr")):
        attempt(f)
    # perr must not depend on the readings (the model's `perr es`)
    if "xs" in out.get("perr", "") or "xs" in out.get("perrNan", "") or "xs" in out.get("wmeanNan", ""):
        broken.append("{}: propagated_error / the nan guards read the values (model: uncertainties "
                      "only)".format(DS))


def gen_cov(out, broken):
    try:
        tree = ast.parse(src(UT))
        fn = find_def(tree, "calculate_covariance")
        if fn is None:
            raise Unsupported("{}: def calculate_covariance missing".format(UT))
        args = [a.arg for a in fn.args.args]
        body = strip_doc(fn.body)
        if len(args) != 2 or len(body) != 2:
            raise Unsupported("{}: shape of calculate_covariance".format(where(fn, UT)))
        g = body[0]
        lens = lambda n, a: (isinstance(n, ast.Call) and dotted(n.func) == "len"  # noqa: E731
                             and len(n.args) == 1 and dotted(n.args[0]) == a)
        if not (isinstance(g, ast.If) and not g.orelse and isinstance(g.test, ast.Compare)
                and len(g.test.ops) == 1 and isinstance(g.test.ops[0], ast.NotEq)
                and lens(g.test.left, args[0]) and lens(g.test.comparators[0], args[1])
                and len(g.body) == 1 and raises(g.body[0]) == "ValueError"):
            raise Unsupported("{}: calculate_covariance does not start with `if len(x) != len(y): "
                              "raise ValueError`".format(where(g, UT)))
        if not isinstance(body[1], ast.Return) or body[1].value is None:
            raise Unsupported("{}: calculate_covariance does not end in return".format(where(fn, UT)))
        t = ArrTr(UT, vecs={args[0]: "xs", args[1]: "ys"})
        out["cov"] = t.tr(body[1].value)
    except Unsupported as e:
        broken.append(str(e))


class _Resolve(ast.NodeTransformer):
    """inside RepeatedlyMeasuredValue: self.<property> -> what the getter returns;
    self._<field> -> what __init__ assigned to it"""

    def __init__(self, getters, fields):
        self.getters, self.fields, self.depth = getters, fields, 0

    def visit_Attribute(self, node):
        if isinstance(node.value, ast.Name) and node.value.id == "self" and isinstance(
                node.ctx, ast.Load):
            tgt = self.getters.get(node.attr) or self.fields.get(node.attr)
            if tgt is not None:
                self.depth += 1
                if self.depth > 20:
                    raise Unsupported("{}: cyclic property definitions".format(DT))
                r = self.visit(ast.parse(ast.unparse(tgt), mode="eval").body)
                self.depth -= 1
                return r
        return self.generic_visit(node)


class _MeanOf(ast.NodeTransformer):
    """self._raw_data.mean().value / .error -> placeholder names"""

    def visit_Attribute(self, node):
        v = node.value
        if node.attr in ("value", "error") and isinstance(v, ast.Call) and not v.args and \
                not v.keywords and dotted(v.func) == "self._raw_data.mean":
            return ast.Name(id="__mean_" + node.attr, ctx=ast.Load())
        return self.generic_visit(node)


def rep_tr():
    t = array_tr("self._raw_data")
    t.path = DT
    t.names.update({"__mean_value": "(arrMeanValue xs)", "__mean_error": "(arrMeanError xs)"})
    t.sattr.update({"self._value": "v", "self._error": "e"})
    return t


def gen_rep(out, broken):
    tree = ast.parse(src(DT))
    classes = classes_of(tree)
    cls = classes.get("RepeatedlyMeasuredValue")
    if cls is None:
        raise Unsupported("{}: class RepeatedlyMeasuredValue missing".format(DT))
    init = method(cls, "__init__", DT)
    params = [a.arg for a in init.args.args]
    fields, sup = {}, None
    for s in strip_doc(init.body):
        if isinstance(s, ast.ImportFrom):
            continue
        if isinstance(s, ast.If) and not s.orelse and len(s.body) == 1 and raises(s.body[0]):
            continue        # input validation
        if isinstance(s, ast.Assign) and len(s.targets) == 1 and isinstance(
                s.targets[0], ast.Attribute) and dotted(s.targets[0].value) == "self":
            if sup is not None and s.targets[0].attr in ("_value", "_error"):
                raise Unsupported("{}: __init__ overwrites {} after the parent constructor".format(
                    where(s, DT), s.targets[0].attr))
            fields[s.targets[0].attr] = s.value
            continue
        if isinstance(s, ast.Expr) and isinstance(s.value, ast.Call) and is_super_init(s.value):
            sup = s.value
            continue
        raise Unsupported("{}: statement in RepeatedlyMeasuredValue.__init__".format(where(s, DT)))
    raw = fields.pop("_raw_data", None)
    if not (isinstance(raw, ast.Call) and (dotted(raw.func) or "").split(".")[-1] ==
            "ExperimentalValueArray" and len(raw.args) == 2 and len(params) >= 3
            and dotted(raw.args[0]) == params[1] and dotted(raw.args[1]) == params[2]):
        raise Unsupported("{}: self._raw_data is not ExperimentalValueArray(data, error, ..)".format(
            where(init, DT)))
    if sup is None or len(sup.args) != 2:
        raise Unsupported("{}: super().__init__(value, error, ..) not found".format(where(init, DT)))
    # parent constructor stores its first two arguments as _value / _error
    mv = classes.get("MeasuredValue")
    ok = False
    if mv is not None:
        pin = method(mv, "__init__", DT)
        pp = [a.arg for a in pin.args.args]
        for s in ast.walk(pin):
            if isinstance(s, ast.Assign) and len(s.targets) == 1 and isinstance(
                    s.targets[0], ast.Tuple) and [dotted(e) for e in s.targets[0].elts] == [
                        "self._value", "self._error"] and isinstance(s.value, ast.Tuple):
                a, b = s.value.elts
                ok = (ast.unparse(a) == "float({})".format(pp[1])
                      and ast.unparse(b) in ("float({0}) if {0} else 0.0".format(pp[2]),
                                             "float({0}) if {0} is not None else 0.0".format(pp[2]),
                                             "float({})".format(pp[2])))
    if not ok:
        raise Unsupported("{}: MeasuredValue.__init__ does not store `float(data), float(error) if "
                          "error else 0.0` as _value, _error".format(DT))

    getters = {}
    for f in cls.body:
        if isinstance(f, ast.FunctionDef) and "property" in [dotted(d) for d in f.decorator_list]:
            b = strip_doc(f.body)
            if len(b) == 1 and isinstance(b[0], ast.Return) and b[0].value is not None:
                getters[f.name] = b[0].value
    getters.pop("value", None)
    getters.pop("raw_data", None)
    res = _Resolve(getters, fields)

    def tr_expr(node):
        node = res.visit(ast.parse(ast.unparse(node), mode="eval").body)
        node = _MeanOf().visit(node)
        return rep_tr().tr(node), node

    def attempt(f):
        try:
            f()
        except Unsupported as e:
            broken.append(str(e))

    def do_props():
        for prop, key in (("mean", "repMean"), ("std", "repStd"), ("error_on_mean", "repSem"),
                          ("error_weighted_mean", "repWmean"), ("propagated_error", "repPerr")):
            if prop not in getters:
                raise Unsupported("{}: property {} is not a single return".format(DT, prop))
            out[key], _ = tr_expr(getters[prop])

    def do_init():
        out["initV"], _ = tr_expr(sup.args[0])
        out["initE"], _ = tr_expr(sup.args[1])

    def selector(name, key):
        def run():
            fn = method(cls, name, DT)
            body = strip_doc(fn.body)

            def target(s):
                if isinstance(s, ast.Assign) and len(s.targets) == 1 and dotted(s.targets[0]) in (
                        "self._value", "self._error"):
                    return dotted(s.targets[0])[5:]
                return None
            if len(body) == 1 and target(body[0]):
                new, _ = tr_expr(body[0].value)
                out[key] = "({}, e)".format(new) if target(body[0]) == "_value" else \
                    "(v, {})".format(new)
                return
            # t = <statistic>; if not np.isnan(t): self._F = t [else: warn]
            if len(body) == 2 and isinstance(body[0], ast.Assign) and len(body[0].targets) == 1 \
                    and isinstance(body[0].targets[0], ast.Name) and isinstance(body[1], ast.If):
                t, iff = body[0].targets[0].id, body[1]
                test = iff.test
                good = (isinstance(test, ast.UnaryOp) and isinstance(test.op, ast.Not)
                        and isinstance(test.operand, ast.Call)
                        and dotted(test.operand.func) in ("np.isnan", "m.isnan", "math.isnan")
                        and len(test.operand.args) == 1 and dotted(test.operand.args[0]) == t
                        and len(iff.body) == 1 and target(iff.body[0])
                        and dotted(iff.body[0].value) == t
                        and all(is_warn(s) or isinstance(s, ast.Pass) for s in iff.orelse))
                if good:
                    new, node = tr_expr(body[0].value)
                    stat = {"self._raw_data.error_weighted_mean": "arrWmeanNan es",
                            "self._raw_data.propagated_error": "arrPerrNan es"}.get(
                                dotted(node.func) if isinstance(node, ast.Call) else None)
                    if stat is None:
                        raise Unsupported("{}: {} tests isnan of something other than the "
                                          "error-weighted statistics".format(where(fn, DT), name))
                    upd = "({}, e)".format(new) if target(iff.body[0]) == "_value" else \
                        "(v, {})".format(new)
                    out[key] = "(if {} then (v, e) else {})".format(stat, upd)
                    return
            raise Unsupported("{}: {} is neither `self._F = <statistic>` nor `t = <statistic>; if "
                              "not isnan(t): self._F = t`".format(where(fn, DT), name))
        return run

    def do_readers():
        g = method(cls, "value", DT, "getter")
        b = strip_doc(g.body)
        if not (len(b) == 1 and isinstance(b[0], ast.Return) and dotted(b[0].value) == "self._value"):
            raise Unsupported("{}: RepeatedlyMeasuredValue.value does not return self._value".format(
                where(g, DT)))
        g = method(mv, "error", DT, "getter")
        b = strip_doc(g.body)
        if not (len(b) == 1 and isinstance(b[0], ast.Return) and dotted(b[0].value) == "self._error"):
            raise Unsupported("{}: MeasuredValue.error does not return self._error".format(where(g, DT)))
        if any(isinstance(f, ast.FunctionDef) and f.name == "error" for f in cls.body):
            raise Unsupported("{}: RepeatedlyMeasuredValue overrides `error`".format(DT))

    for f in (do_props, do_init, selector("use_std_for_uncertainty", "useStd"),
              selector("use_error_on_mean_for_uncertainty", "useSem"),
              selector("use_error_weighted_mean_as_value", "useWmean"),
              selector("use_propagated_error_for_uncertainty", "usePerr"), do_readers):
        attempt(f)


def gen():
    broken, out = [], {}
    for part in (gen_array, gen_cov, gen_rep):
        try:
            part(out, broken)
        except Unsupported as e:
            broken.append(str(e))
        except (SyntaxError, ValueError, AttributeError, IndexError, TypeError) as e:
            broken.append("stats: {}: {}: {}".format(part.__name__, type(e).__name__, e))
    if broken:
        for k, v in PLACEHOLDER.items():
            out.setdefault(k, v)
    o = dict(PLACEHOLDER, **out)
    text = """/- GENERATED by vf/translate.py from {ds}, {ut}, {dt} — do not edit. -/
import QExPy.Num
import QExPy.Model.Np
set_option linter.unusedVariables false
namespace QExPy.Gen
variable {{α : Type}} [Num α]

/-- reasons the translator could not follow the source (empty = tie intact) -/
def statsTieBroken : List String := {broken}

/-! ### ExperimentalValueArray (xs = self.values, es = self.errors) -/

/-- `std(self, ddof=…)`: the default of `ddof` -/
def arrStdDdof : Nat := {ddof}

/-- `std(self, ddof)` -/
def arrStd (ddof : Nat) (xs : List α) : α := {std}

/-- `error_on_mean()` -/
def arrSem (xs : List α) : α := {sem}

/-- `mean()`: value and uncertainty handed to the `MeasuredValue` it returns -/
def arrMeanValue (xs : List α) : α := {meanV}
def arrMeanError (xs : List α) : α := {meanE}

/-- `sum()`: value and uncertainty handed to the `MeasuredValue` it returns -/
def arrSumValue (xs es : List α) : α := {sumV}
def arrSumError (xs es : List α) : α := {sumE}

/-- `error_weighted_mean()`: the test under which `nan` is returned, and the result otherwise -/
def arrWmeanNan (es : List α) : Bool := {wmeanNan}
def arrWmean (xs es : List α) : α := {wmean}

/-- `propagated_error()`: the test under which `nan` is returned, and the result otherwise -/
def arrPerrNan (es : List α) : Bool := {perrNan}
def arrPerr (es : List α) : α := {perr}

/-! ### utils.calculate_covariance(xs, ys) (after its equal-length check) -/

def calcCov (xs ys : List α) : α := {cov}

/-! ### RepeatedlyMeasuredValue (xs, es = values / uncertainties of `_raw_data`; v, e = `_value`, `_error`) -/

/-- the properties `mean`, `std`, `error_on_mean`, `error_weighted_mean`, `propagated_error` -/
def repMean (xs : List α) : α := {repMean}
def repStd (xs : List α) : α := {repStd}
def repSem (xs : List α) : α := {repSem}
def repWmean (xs es : List α) : α := {repWmean}
def repPerr (es : List α) : α := {repPerr}

/-- `__init__`: what is handed to the parent constructor as value / uncertainty -/
def repInitValue (xs : List α) : α := {initV}
def repInitError (xs : List α) : α := {initE}

/-- the selectors: (`_value`, `_error`) after the call -/
def useStd (xs es : List α) (v e : α) : α × α := {useStd}
def useSem (xs es : List α) (v e : α) : α × α := {useSem}
def useWmean (xs es : List α) (v e : α) : α × α := {useWmean}
def usePerr (xs es : List α) (v e : α) : α × α := {usePerr}

end QExPy.Gen
""".format(ds=DS, ut=UT, dt=DT, broken=lean_strlist(broken), **o)
    return "Stats.lean", text, broken

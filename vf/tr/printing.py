"""translator section `printing`: the constants of qexpy/utils/printing.py

Generated into lean/QExPy/Generated/Printing.lean:
  * `backoffErr/backoffVal order n` — exponent of the back-off power of ten in
    `__round_values_to_sig_figs` (`order - sig_fig_value + 1` in both branches)
  * `roundErrKind/roundValKind`     — the rounding function applied to `x / back_off`
  * `decimalsRaw order n shift`      — `- order + sig_fig_value - 1 + shift` of `__find_number_of_decimals`
  * `minDecimals`                    — the clip `d if d > 0 else 0`
  * `sciFallbackOrder`               — `if order == 0: return __default_printer(...)`
  * `sciShiftIsOrder`                — the scientific printer passes its order as the shift
The base of every `10 ** k` / `log10` must be 10, otherwise the section is broken (the model's
`ilog10` is decimal).
"""
import ast

from translate import Unsupported, src, where, lean_strlist

PATH = "qexpy/utils/printing.py"


def find_fn(tree, suffix):
    for node in tree.body:
        if isinstance(node, ast.FunctionDef) and node.name.endswith(suffix):
            return node
    raise Unsupported("{}: function *{} not found".format(PATH, suffix))


def linear(node, names):
    """integer-linear form of an expression over the given variable names -> {name: coef, 1: const}"""
    if isinstance(node, ast.Constant) and isinstance(node.value, int) and not isinstance(node.value, bool):
        return {1: node.value}
    if isinstance(node, ast.Name):
        for key, alts in names.items():
            if node.id in alts:
                return {key: 1}
        raise Unsupported("{}: unexpected name {}".format(where(node, PATH), node.id))
    if isinstance(node, ast.UnaryOp) and isinstance(node.op, (ast.USub, ast.UAdd)):
        a = linear(node.operand, names)
        return {k: -v for k, v in a.items()} if isinstance(node.op, ast.USub) else a
    if isinstance(node, ast.BinOp) and isinstance(node.op, (ast.Add, ast.Sub)):
        a, b = linear(node.left, names), linear(node.right, names)
        sgn = 1 if isinstance(node.op, ast.Add) else -1
        out = dict(a)
        for k, v in b.items():
            out[k] = out.get(k, 0) + sgn * v
        return out
    if isinstance(node, ast.BinOp) and isinstance(node.op, ast.Mult):
        a, b = linear(node.left, names), linear(node.right, names)
        if set(a) <= {1}:
            return {k: a.get(1, 0) * v for k, v in b.items()}
        if set(b) <= {1}:
            return {k: b.get(1, 0) * v for k, v in a.items()}
    raise Unsupported("{}: not an integer-linear expression".format(where(node, PATH)))


def lean_linear(form, order):
    terms = []
    for k in order:
        c = form.get(k, 0)
        terms.append("({}) * {}".format(c, k) if k != 1 else "({})".format(c))
    return " + ".join(terms)


def power_of_ten(node):
    """10 ** expr -> expr"""
    if isinstance(node, ast.BinOp) and isinstance(node.op, ast.Pow) and isinstance(
            node.left, ast.Constant):
        if node.left.value != 10:
            raise Unsupported("{}: power of base {} (the model is decimal)".format(
                where(node, PATH), node.left.value))
        return node.right
    raise Unsupported("{}: expected 10 ** <expr>".format(where(node, PATH)))


ROUND = {"round": ".halfEven", "floor": ".floor", "ceil": ".ceil", "int": ".trunc", "trunc": ".trunc"}


def round_kind(node, var):
    """round(var / back_off) * back_off -> kind"""
    if not (isinstance(node, ast.BinOp) and isinstance(node.op, ast.Mult)
            and isinstance(node.right, ast.Name) and node.right.id == "back_off"
            and isinstance(node.left, ast.Call) and len(node.left.args) == 1):
        raise Unsupported("{}: expected <round>({} / back_off) * back_off".format(where(node, PATH), var))
    f = node.left.func
    name = f.id if isinstance(f, ast.Name) else f.attr if isinstance(f, ast.Attribute) else None
    a = node.left.args[0]
    if not (isinstance(a, ast.BinOp) and isinstance(a.op, ast.Div) and isinstance(a.left, ast.Name)
            and a.left.id == var and isinstance(a.right, ast.Name) and a.right.id == "back_off"):
        raise Unsupported("{}: expected {} / back_off".format(where(node, PATH), var))
    if name not in ROUND:
        raise Unsupported("{}: rounding function {}".format(where(node, PATH), name))
    return ROUND[name]


def log_base(fn, broken):
    for n in ast.walk(fn):
        if isinstance(n, ast.Call) and isinstance(n.func, ast.Attribute) and n.func.attr.startswith("log"):
            if n.func.attr != "log10":
                broken.append("{}: order of magnitude taken with {} (the model is decimal)".format(
                    where(n, PATH), n.func.attr))


def gen():
    broken = []
    tree = ast.parse(src(PATH))
    vals = {"backoffErr": {"order": 1, "n": -1, 1: 1}, "backoffVal": {"order": 1, "n": -1, 1: 1},
            "decimals": {"order": -1, "n": 1, 1: -1, "shift": 0}}
    kinds = {"err": ".halfEven", "val": ".halfEven"}
    min_dec, fallback, shift_is_order = 0, 0, False
    try:
        fn = find_fn(tree, "__round_values_to_sig_figs")
        log_base(fn, broken)
        backs = []
        for n in ast.walk(fn):
            if isinstance(n, ast.Assign) and isinstance(n.targets[0], ast.Name):
                t = n.targets[0].id
                try:
                    if t == "back_off":
                        backs.append(linear(power_of_ten(n.value), {
                            "order": ("order_of_error", "order_of_value", "order"),
                            "n": ("sig_fig_value",)}))
                    elif t == "rounded_error":
                        kinds["err"] = round_kind(n.value, "error")
                    elif t == "rounded_value":
                        kinds["val"] = round_kind(n.value, "value")
                except Unsupported as e:
                    broken.append(str(e))
        if len(backs) == 2:
            vals["backoffErr"], vals["backoffVal"] = backs
        else:
            broken.append("{}: expected two back_off assignments (error branch, value branch)".format(PATH))
    except Unsupported as e:
        broken.append(str(e))
    try:
        fn = find_fn(tree, "__find_number_of_decimals")
        log_base(fn, broken)
        extra = [a.arg for a in fn.args.args[2:]]
        found = False
        for n in ast.walk(fn):
            if isinstance(n, ast.Assign) and isinstance(n.targets[0], ast.Name) and \
                    n.targets[0].id == "number_of_decimals":
                vals["decimals"] = linear(n.value, {"order": ("order",), "n": ("sig_fig_value",),
                                                    "shift": tuple(extra)})
                found = True
            if isinstance(n, ast.Return) and isinstance(n.value, ast.IfExp):
                t = n.value
                if (isinstance(t.test, ast.Compare) and isinstance(t.test.ops[0], ast.Gt)
                        and isinstance(t.test.comparators[0], ast.Constant)
                        and isinstance(t.orelse, ast.Constant)
                        and t.test.comparators[0].value == t.orelse.value):
                    min_dec = t.orelse.value
                else:
                    broken.append("{}: clip of the number of decimals".format(where(n, PATH)))
        if not found:
            broken.append("{}: number_of_decimals assignment not found".format(PATH))
    except Unsupported as e:
        broken.append(str(e))
    try:
        fn = find_fn(tree, "__scientific_printer")
        log_base(fn, broken)
        got = False
        for n in ast.walk(fn):
            if isinstance(n, ast.If) and isinstance(n.test, ast.Compare) and isinstance(
                    n.test.left, ast.Name) and n.test.left.id == "order" and isinstance(
                    n.test.ops[0], ast.Eq) and isinstance(n.test.comparators[0], ast.Constant):
                fallback, got = n.test.comparators[0].value, True
            if isinstance(n, ast.BinOp) and isinstance(n.op, ast.Pow):
                power_of_ten(n)
            if isinstance(n, ast.Call) and isinstance(n.func, ast.Name) and n.func.id.endswith(
                    "__find_number_of_decimals"):
                shift_is_order = (len(n.args) == 3 and isinstance(n.args[2], ast.Name)
                                  and n.args[2].id == "order"
                                  and all(isinstance(a, ast.Name) and a.id.startswith("rounded_")
                                          for a in n.args[:2]))
                if not shift_is_order:
                    broken.append("{}: scientific printer does not count the decimals on the rounded "
                                  "pair shifted by the order".format(where(n, PATH)))
        if not got:
            broken.append("{}: `if order == 0` fallback not found".format(PATH))
    except Unsupported as e:
        broken.append(str(e))

    text = """/- GENERATED by vf/translate.py from {path} — do not edit. -/
import QExPy.Model.PrintingTypes
namespace QExPy.Printing.Gen

/-- reasons the translator could not follow the source (empty = tie intact) -/
def printingTieBroken : List String := {broken}

/-- exponent of `back_off = 10 ** (...)`, automatic/error mode -/
def backoffErr (order n : Int) : Int := {be}

/-- exponent of `back_off = 10 ** (...)`, value mode -/
def backoffVal (order n : Int) : Int := {bv}

/-- rounding applied to `error / back_off` and to `value / back_off` -/
def roundErrKind : RoundKind := {ke}
def roundValKind : RoundKind := {kv}

/-- `number_of_decimals` before the clip -/
def decimalsRaw (order n shift : Int) : Int := {dec}

/-- `number_of_decimals if number_of_decimals > c else c` -/
def minDecimals : Int := {mind}

/-- the scientific printer falls back to the default printer when the order equals this -/
def sciFallbackOrder : Int := {fb}

end QExPy.Printing.Gen
""".format(path=PATH, broken=lean_strlist(broken),
           be=lean_linear(vals["backoffErr"], ["order", "n", 1]),
           bv=lean_linear(vals["backoffVal"], ["order", "n", 1]),
           ke=kinds["err"], kv=kinds["val"],
           dec=lean_linear(vals["decimals"], ["order", "n", 1, "shift"]),
           mind=min_dec, fb=fallback)
    return "Printing.lean", text, broken

"""translator section `mccorr`: qexpy/data/utils.py correlate_samples / generate_offset_matrix (C02).

The "no correlations present" shortcut (`if <test>: return sample_vector`) is TRANSLATED into a
Lean predicate over the matrix vocabulary of Model/MCMat.lean (`Gen.mcNoCorrelation`, used by
`MC.factor`, so `C02_shortcut_generated` / `C02_factor_cases` are re-proved against the regenerated
text).  The rest of the two functions — matrix of get_correlation values over the sources in
order, unit diagonal, Cholesky factor times the offsets, the LinAlgError handler that warns and
returns the uncorrelated offsets, one N(0, 1) array of the sample size per source — is checked
structurally: any other shape breaks the tie."""
import ast
import copy

from translate import Unsupported, src, where, lean_str, lean_strlist


FALLBACK_PREFIX = "Fail to generate a physical correlation matrix"


def _np(n, *names):
    """np.<name>(...) call?"""
    return (isinstance(n, ast.Call) and isinstance(n.func, ast.Attribute)
            and isinstance(n.func.value, ast.Name) and n.func.value.id == "np"
            and n.func.attr in names)


def _dotted(n):
    parts = []
    while isinstance(n, ast.Attribute):
        parts.append(n.attr)
        n = n.value
    if isinstance(n, ast.Name):
        parts.append(n.id)
        return ".".join(reversed(parts))
    return None


class _Subst(ast.NodeTransformer):
    def __init__(self, env):
        self.env = env

    def visit_Name(self, node):
        if isinstance(node.ctx, ast.Load) and node.id in self.env:
            return copy.deepcopy(self.env[node.id])
        return node


def _subst(expr, env):
    return _Subst(env).visit(copy.deepcopy(expr))


def _body(fn):
    b = list(fn.body)
    if b and isinstance(b[0], ast.Expr) and isinstance(b[0].value, ast.Constant) \
            and isinstance(b[0].value.value, str):
        b = b[1:]
    return b


class _Shortcut:
    """the `if <cond>: return sample_vector` test of correlate_samples -> Lean Bool term over R"""

    def __init__(self, path, rname, vname):
        self.path, self.rname, self.vname = path, rname, vname

    def bad(self, n, what):
        raise Unsupported("{}: shortcut condition: {}".format(where(n, self.path), what))

    def size(self, n):
        """len(variables) | len(R) | R.shape[0]"""
        if isinstance(n, ast.Call) and isinstance(n.func, ast.Name) and n.func.id == "len" \
                and len(n.args) == 1 and isinstance(n.args[0], ast.Name) \
                and n.args[0].id in (self.rname, self.vname):
            return True
        if isinstance(n, ast.Subscript) and _dotted(n.value) == self.rname + ".shape" \
                and isinstance(n.slice, ast.Constant) and n.slice.value in (0, 1):
            return True
        return False

    def mat(self, n):
        if isinstance(n, ast.Name) and n.id == self.rname:
            return "R"
        if isinstance(n, ast.BinOp) and isinstance(n.op, ast.Sub):
            return "(QExPy.MC.msub {} {})".format(self.mat(n.left), self.mat(n.right))
        if _np(n, "diag") and len(n.args) == 1 and not n.keywords and \
                _np(n.args[0], "diag", "diagonal") and len(n.args[0].args) == 1 \
                and not n.args[0].keywords:
            return "(QExPy.MC.diagMat {})".format(self.mat(n.args[0].args[0]))
        if _np(n, "eye", "identity") and len(n.args) == 1 and not n.keywords and self.size(n.args[0]):
            return "(QExPy.MC.identity R.length)"
        if _np(n, "triu", "tril") and n.args:
            k = n.args[1] if len(n.args) == 2 else (n.keywords[0].value if len(n.keywords) == 1
                                                    and n.keywords[0].arg == "k" else None)
            kv = None
            if isinstance(k, ast.Constant):
                kv = k.value
            elif isinstance(k, ast.UnaryOp) and isinstance(k.op, ast.USub) and \
                    isinstance(k.operand, ast.Constant):
                kv = -k.operand.value
            if n.func.attr == "triu" and kv == 1:
                return "(QExPy.MC.triu1 {})".format(self.mat(n.args[0]))
            if n.func.attr == "tril" and kv == -1:
                return "(QExPy.MC.tril1 {})".format(self.mat(n.args[0]))
        self.bad(n, "matrix expression " + ast.unparse(n))

    def scalar(self, n):
        """-> (kind, term); kind in nat | num | lit"""
        if isinstance(n, ast.Constant) and isinstance(n.value, int) and not isinstance(n.value, bool) \
                and n.value >= 0:
            return "lit", str(n.value)
        if self.size(n):
            return "nat", "R.length"
        if _np(n, "count_nonzero") and len(n.args) == 1 and not n.keywords:
            return "nat", "(QExPy.MC.countNonzero {})".format(self.mat(n.args[0]))
        if _np(n, "sum", "trace") and len(n.args) == 1 and not n.keywords:
            f = "sumAll" if n.func.attr == "sum" else "trace"
            return "num", "(QExPy.MC.{} {})".format(f, self.mat(n.args[0]))
        if isinstance(n, ast.Call) and isinstance(n.func, ast.Attribute) and \
                n.func.attr in ("sum", "trace") and not n.args and not n.keywords:
            f = "sumAll" if n.func.attr == "sum" else "trace"
            return "num", "(QExPy.MC.{} {})".format(f, self.mat(n.func.value))
        self.bad(n, "scalar expression " + ast.unparse(n))

    def any_(self, n):
        """np.any(M) / M.any()  -> term, else None"""
        if _np(n, "any") and len(n.args) == 1 and not n.keywords:
            return "(QExPy.MC.anyNonzero {})".format(self.mat(n.args[0]))
        if isinstance(n, ast.Call) and isinstance(n.func, ast.Attribute) and n.func.attr == "any" \
                and not n.args and not n.keywords and not _dotted(n.func.value) == "np":
            return "(QExPy.MC.anyNonzero {})".format(self.mat(n.func.value))
        return None

    def cond(self, n):
        if isinstance(n, ast.UnaryOp) and isinstance(n.op, ast.Not):
            a = self.any_(n.operand)
            if a:
                return "(!{})".format(a)
            try:
                k, t = self.scalar(n.operand)
            except Unsupported:
                return "(!{})".format(self.cond(n.operand))
            if k == "nat":
                return "({} == 0)".format(t)
            if k == "num":
                return "(Num.isZero {})".format(t)
            self.bad(n, "not <literal>")
        if isinstance(n, ast.Compare) and len(n.ops) == 1 and isinstance(n.ops[0], (ast.Eq, ast.NotEq)):
            (ka, ta), (kb, tb) = self.scalar(n.left), self.scalar(n.comparators[0])
            if ka == "lit" and kb == "lit":
                self.bad(n, "comparison of two literals")
            if {ka, kb} <= {"nat", "lit"}:
                t = "({} == {})".format(*("({} : Nat)".format(x) if k == "lit" else x
                                          for k, x in ((ka, ta), (kb, tb))))
            elif {ka, kb} <= {"num", "lit"}:
                t = "(QExPy.MC.feq {} {})".format(*("(Num.ofNat {})".format(x) if k == "lit" else x
                                                    for k, x in ((ka, ta), (kb, tb))))
            else:
                self.bad(n, "comparison of a count with a float")
            return t if isinstance(n.ops[0], ast.Eq) else "(!{})".format(t)
        if _np(n, "array_equal") and len(n.args) == 2 and not n.keywords:
            return "(QExPy.MC.matEq {} {})".format(self.mat(n.args[0]), self.mat(n.args[1]))
        inner = None
        if _np(n, "all") and len(n.args) == 1 and not n.keywords:
            inner = n.args[0]
        elif isinstance(n, ast.Call) and isinstance(n.func, ast.Attribute) and n.func.attr == "all" \
                and not n.args and not n.keywords:
            inner = n.func.value
        if isinstance(inner, ast.Compare) and len(inner.ops) == 1 and isinstance(inner.ops[0], ast.Eq):
            return "(QExPy.MC.matEq {} {})".format(self.mat(inner.left), self.mat(inner.comparators[0]))
        self.bad(n, ast.unparse(n))


def _is_zero_one(a, b):
    ok = lambda n, v: isinstance(n, ast.Constant) and not isinstance(n.value, bool) \
        and isinstance(n.value, (int, float)) and n.value == v   # noqa: E731
    return ok(a, 0) and ok(b, 1)


def correlate_section(tree, path):
    """-> (lean term of the shortcut, its source text, warning text); raises Unsupported"""
    fn = next((n for n in tree.body if isinstance(n, ast.FunctionDef)
               and n.name == "correlate_samples"), None)
    if fn is None:
        raise Unsupported("{}: correlate_samples missing".format(path))
    args = [a.arg for a in fn.args.args]
    if len(args) != 2 or fn.args.vararg or fn.args.kwarg or fn.args.kwonlyargs:
        raise Unsupported("{}: correlate_samples signature".format(where(fn, path)))
    vname, zname = args
    body = _body(fn)
    if len(body) != 4:
        raise Unsupported("{}: correlate_samples has {} statements (matrix, unit diagonal, shortcut, "
                          "try/except expected)".format(where(fn, path), len(body)))
    st = body[0]
    # 1. R = np.array([[dt.get_correlation(row, col) for col in variables] for row in variables])
    ok = isinstance(st, ast.Assign) and len(st.targets) == 1 and isinstance(st.targets[0], ast.Name) \
        and _np(st.value, "array", "asarray") and len(st.value.args) == 1 and not st.value.keywords
    if ok:
        rname = st.targets[0].id
        outer = st.value.args[0]
        ok = isinstance(outer, ast.ListComp) and len(outer.generators) == 1 and \
            isinstance(outer.elt, ast.ListComp) and len(outer.elt.generators) == 1
    if ok:
        go, gi = outer.generators[0], outer.elt.generators[0]
        call = outer.elt.elt
        ok = all(isinstance(g.target, ast.Name) and isinstance(g.iter, ast.Name) and g.iter.id == vname
                 and not g.ifs and not g.is_async for g in (go, gi)) and \
            isinstance(call, ast.Call) and _dotted(call.func) in ("dt.get_correlation", "get_correlation") \
            and len(call.args) == 2 and not call.keywords and \
            all(isinstance(a, ast.Name) for a in call.args) and go.target.id != gi.target.id and \
            {a.id for a in call.args} == {go.target.id, gi.target.id}
    if not ok:
        raise Unsupported("{}: correlation matrix is not the table of get_correlation over the "
                          "sources (rows and columns in source order)".format(where(st, path)))
    # 2. np.fill_diagonal(R, 1)
    st = body[1]
    if not (isinstance(st, ast.Expr) and _np(st.value, "fill_diagonal") and len(st.value.args) == 2
            and not st.value.keywords and isinstance(st.value.args[0], ast.Name)
            and st.value.args[0].id == rname and isinstance(st.value.args[1], ast.Constant)
            and not isinstance(st.value.args[1].value, bool) and st.value.args[1].value == 1):
        raise Unsupported("{}: unit diagonal step (np.fill_diagonal(matrix, 1)) not found".format(
            where(st, path)))
    # 3. if <shortcut>: return sample_vector
    st = body[2]
    if not (isinstance(st, ast.If) and not st.orelse and len(st.body) == 1
            and isinstance(st.body[0], ast.Return) and isinstance(st.body[0].value, ast.Name)
            and st.body[0].value.id == zname):
        raise Unsupported("{}: shortcut is not `if <test>: return <the offsets unchanged>`".format(
            where(st, path)))
    cond_src = ast.unparse(st.test)
    term = _Shortcut(path, rname, vname).cond(st.test)
    # 4. try: return np.dot(np.linalg.cholesky(R), Z)  except np.linalg.LinAlgError: warn; return Z
    st = body[3]
    if not (isinstance(st, ast.Try) and len(st.handlers) == 1 and not st.orelse and not st.finalbody):
        raise Unsupported("{}: try/except around the factorisation not found".format(where(st, path)))
    env, ret = {}, None
    for x in st.body:
        if isinstance(x, ast.Assign) and len(x.targets) == 1 and isinstance(x.targets[0], ast.Name) \
                and ret is None:
            env[x.targets[0].id] = _subst(x.value, env)
        elif isinstance(x, ast.Return) and x.value is not None and ret is None:
            ret = _subst(x.value, env)
        else:
            raise Unsupported("{}: statement in the factorisation block".format(where(x, path)))
    good = False
    if ret is not None:
        lhs = rhs = None
        if _np(ret, "dot", "matmul") and len(ret.args) == 2 and not ret.keywords:
            lhs, rhs = ret.args
        elif isinstance(ret, ast.BinOp) and isinstance(ret.op, ast.MatMult):
            lhs, rhs = ret.left, ret.right
        elif isinstance(ret, ast.Call) and isinstance(ret.func, ast.Attribute) and ret.func.attr == "dot" \
                and len(ret.args) == 1 and not ret.keywords:
            lhs, rhs = ret.func.value, ret.args[0]
        good = lhs is not None and isinstance(lhs, ast.Call) and \
            _dotted(lhs.func) == "np.linalg.cholesky" and len(lhs.args) == 1 and not lhs.keywords and \
            isinstance(lhs.args[0], ast.Name) and lhs.args[0].id == rname and \
            isinstance(rhs, ast.Name) and rhs.id == zname
    if not good:
        raise Unsupported("{}: the correlated offsets are not np.dot(np.linalg.cholesky(matrix), "
                          "offsets)".format(where(st, path)))
    h = st.handlers[0]
    if _dotted(h.type) not in ("np.linalg.LinAlgError", "numpy.linalg.LinAlgError", "LinAlgError"):
        raise Unsupported("{}: the handler does not catch np.linalg.LinAlgError".format(where(h, path)))
    hb = list(h.body)
    if not (len(hb) == 2 and isinstance(hb[0], ast.Expr) and isinstance(hb[0].value, ast.Call)
            and _dotted(hb[0].value.func) == "warnings.warn" and hb[0].value.args
            and isinstance(hb[0].value.args[0], ast.Constant) and isinstance(hb[0].value.args[0].value, str)
            and isinstance(hb[1], ast.Return) and isinstance(hb[1].value, ast.Name)
            and hb[1].value.id == zname):
        raise Unsupported("{}: the fallback is not `warnings.warn(<text>); return <the offsets "
                          "unchanged>`".format(where(h, path)))
    warn = hb[0].value.args[0].value
    if not warn.startswith(FALLBACK_PREFIX):
        raise Unsupported("{}: fallback warning text changed: {!r}".format(where(h, path), warn[:60]))
    # generate_offset_matrix: one N(0, 1) array of the sample size per source, then correlate
    g = next((n for n in tree.body if isinstance(n, ast.FunctionDef)
              and n.name == "generate_offset_matrix"), None)
    if g is None:
        raise Unsupported("{}: generate_offset_matrix missing".format(path))
    ga = [a.arg for a in g.args.args]
    if len(ga) != 2:
        raise Unsupported("{}: generate_offset_matrix signature".format(where(g, path)))
    env, ret = {}, None
    for x in _body(g):
        if isinstance(x, ast.Assign) and len(x.targets) == 1 and isinstance(x.targets[0], ast.Name) \
                and ret is None:
            env[x.targets[0].id] = _subst(x.value, env)
        elif isinstance(x, ast.Return) and x.value is not None and ret is None:
            ret = _subst(x.value, env)
        else:
            raise Unsupported("{}: statement in generate_offset_matrix".format(where(x, path)))
    ok = isinstance(ret, ast.Call) and _dotted(ret.func) == "correlate_samples" and len(ret.args) == 2 \
        and not ret.keywords and isinstance(ret.args[0], ast.Name) and ret.args[0].id == ga[0]
    if ok:
        m = ret.args[1]
        ok = _np(m, "vstack", "array", "asarray") and len(m.args) == 1 and not m.keywords and \
            isinstance(m.args[0], ast.ListComp) and len(m.args[0].generators) == 1
    if ok:
        gen, draw = m.args[0].generators[0], m.args[0].elt
        ok = isinstance(gen.iter, ast.Name) and gen.iter.id == ga[0] and not gen.ifs and \
            isinstance(draw, ast.Call) and _dotted(draw.func) in (
                "np.random.normal", "np.random.standard_normal", "np.random.randn")
    if ok and _dotted(draw.func) == "np.random.normal":
        kw = {k.arg: k.value for k in draw.keywords}
        pos = list(draw.args) + [None] * 3
        loc, scale, size = (pos[0] or kw.get("loc"), pos[1] or kw.get("scale"), pos[2] or kw.get("size"))
        ok = loc is not None and scale is not None and _is_zero_one(loc, scale) and \
            isinstance(size, ast.Name) and size.id == ga[1]
    elif ok:     # standard_normal(n) / randn(n): the same N(0, 1) draws
        size = draw.args[0] if len(draw.args) == 1 else (
            draw.keywords[0].value if len(draw.keywords) == 1 and draw.keywords[0].arg == "size"
            and not draw.args else None)
        ok = isinstance(size, ast.Name) and size.id == ga[1]
    if not ok:
        raise Unsupported("{}: the offsets are not one np.random.normal(0, 1, sample_size) array per "
                          "source handed to correlate_samples".format(where(g, path)))
    return term, cond_src, warn


def gen():
    path = "qexpy/data/utils.py"
    broken = []
    short_term, short_src, warn_text = "(QExPy.MC.offDiagAllZero R)", "", FALLBACK_PREFIX
    try:
        short_term, short_src, warn_text = correlate_section(ast.parse(src(path)), path)
    except Unsupported as e:
        broken.append(str(e))
    except (SyntaxError, ValueError) as e:
        broken.append("{}: {}".format(path, e))
    text = """/- GENERATED by vf/translate.py from {path} (correlate_samples, generate_offset_matrix)
   — do not edit. -/
import QExPy.Num
import QExPy.Model.MCMat
namespace QExPy.Gen

/-- reasons the translator could not follow the source (empty = tie intact) -/
def mcCorrTieBroken : List String := {broken}

/-- correlate_samples: the "no correlations present" test (`if <test>: return sample_vector`)
    on the unit-diagonal correlation matrix `R`, translated from the source text below -/
def mcNoCorrelation {{α : Type}} [Num α] (R : QExPy.MC.Mat α) : Bool := {short}
def mcNoCorrelationSrc : String := {short_src}

/-- correlate_samples: text of the warning issued by the LinAlgError handler (fallback) -/
def mcFallbackWarning : String := {warn}

end QExPy.Gen
""".format(path=path, broken=lean_strlist(broken), short=short_term, short_src=lean_str(short_src),
           warn=lean_str(warn_text))
    return "MCCorr.lean", text, broken

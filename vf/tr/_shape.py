"""Shared helper (not a section): comparison of a function body with the *shape* a hand model
mirrors.  The body, docstrings and comments dropped, parameters renamed p0.., locals v0.. in order
of first binding, must be the expected statement list (given as Python source).  Used for code
that is control flow rather than a formula: the comparison has no Lean counterpart, it only breaks
the translator tie, with the first differing statement as the reason."""
import ast

from translate import Unsupported, where
from tr._arr import strip_doc


class _Alpha(ast.NodeTransformer):
    def __init__(self, names):
        self.names = names

    def visit_Name(self, node):
        return ast.copy_location(ast.Name(id=self.names.get(node.id, node.id), ctx=node.ctx), node)

    def visit_arg(self, node):
        node.arg = self.names.get(node.arg, node.arg)
        return node


def canon(fn):
    """function -> list of statement texts with parameters p0.., locals v0.. (order of first
    binding), docstring dropped"""
    fn = ast.parse(ast.unparse(fn)).body[0]
    names = {}
    args = fn.args
    for a in args.posonlyargs + args.args + ([args.vararg] if args.vararg else []) + \
            args.kwonlyargs + ([args.kwarg] if args.kwarg else []):
        if a.arg != "self":
            names[a.arg] = "p{}".format(len(names))
    nloc = 0
    for node in ast.walk(fn):
        if isinstance(node, ast.Name) and isinstance(node.ctx, ast.Store) and node.id not in names:
            names[node.id] = "v{}".format(nloc)
            nloc += 1
    # ast.walk is breadth-first: renumber locals by source position instead
    stores = sorted(((n.lineno, n.col_offset, n.id) for n in ast.walk(fn)
                     if isinstance(n, ast.Name) and isinstance(n.ctx, ast.Store)
                     and not names[n.id].startswith("p")))
    order = []
    for _, _, i in stores:
        if i not in order:
            order.append(i)
    for k, i in enumerate(order):
        names[i] = "v{}".format(k)
    fn = _Alpha(names).visit(fn)
    return [ast.unparse(s) for s in strip_doc(fn.body)], names


def canon_src(text):
    return canon(DropMsg().visit(ast.parse(text).body[0]))[0]


def same_shape(fn, expected_src, path, what):
    got, _ = canon(fn)
    want = canon_src(expected_src)
    if got != want:
        k = next((i for i, (a, b) in enumerate(zip(got, want)) if a != b), min(len(got), len(want)))
        raise Unsupported("{}: {} differs from the shape the model mirrors at statement {}: found "
                          "`{}`, expected `{}`".format(
                              where(fn, path), what, k + 1,
                              (got[k] if k < len(got) else "<end>").splitlines()[0],
                              (want[k] if k < len(want) else "<end>").splitlines()[0]))


class DropMsg(ast.NodeTransformer):
    """raise X("text ..".format(..)) -> raise X('')  and drop annotations"""

    def visit_Raise(self, node):
        if isinstance(node.exc, ast.Call):
            node.exc.args, node.exc.keywords = [ast.Constant(value="")], []
        return node

    def visit_arg(self, node):
        node.annotation = None
        return node

    def visit_FunctionDef(self, node):
        node.returns, node.decorator_list = None, []
        return self.generic_visit(node)




def fresh(fn):
    """private, message-free, annotation-free copy of a FunctionDef"""
    return DropMsg().visit(ast.parse(ast.unparse(fn)).body[0])

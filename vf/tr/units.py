"""translator section `units`: the table-like parts of qexpy/utils/units.py

  * DOT_STRING, and the literal pair of the `unit_string.replace(dot, "*")` call of the tokeniser
  * the regular-expression *texts* of the tokeniser (resolved through `.format(...)` and
    `<compiled>.pattern`), the validity pattern, the bare-numerator prefix
  * the `precedence` dict of the two-stack parser and the bottom marker of its operator stack
  * UNIT_OPERATIONS: operator literal -> name of the function it dispatches to
  * the name pattern of define_unit

Regular expressions are not interpreted: the Lean scanner is written by hand for the texts that
`Props/C12.lean` pins (`C12_scanner_pins_patterns`); a changed text breaks that obligation.
"""
import ast

from translate import Unsupported, src, literals, find_assign, find_def, lit_key, where, lean_str, \
    lean_strlist

PATH = "qexpy/utils/units.py"
TOKENISER = "__parse_unit_string_to_list"
TWOSTACK = "__construct_expression_tree_with_list"


class ConstEval:
    """evaluates string-valued constant expressions inside one function body: string literals,
    names bound earlier to such expressions, "...".format(...), <re.compile(..)>.pattern"""

    def __init__(self, path):
        self.path = path
        self.strs = {}      # name -> str
        self.patterns = {}  # name -> pattern text of a re.compile(...) bound to that name
        self.flags = {}     # name -> flags of that re.compile(...), e.g. "DOTALL" ("" = none)

    def ev(self, n):
        if isinstance(n, ast.Constant) and isinstance(n.value, str):
            return n.value
        if isinstance(n, ast.Name) and n.id in self.strs:
            return self.strs[n.id]
        if isinstance(n, ast.Attribute) and n.attr == "pattern" and isinstance(n.value, ast.Name) \
                and n.value.id in self.patterns:
            return self.patterns[n.value.id]
        if isinstance(n, ast.Call) and isinstance(n.func, ast.Attribute) and n.func.attr == "format" \
                and not n.keywords:
            return self.ev(n.func.value).format(*[self.ev(a) for a in n.args])
        if isinstance(n, ast.BinOp) and isinstance(n.op, ast.Add):
            return self.ev(n.left) + self.ev(n.right)
        raise Unsupported("{}: not a constant string expression".format(where(n, self.path)))

    @staticmethod
    def re_flags(n, path):
        """second argument of re.compile: re.A | re.B | ... -> "A|B" (sorted)"""
        if isinstance(n, ast.BinOp) and isinstance(n.op, ast.BitOr):
            return "|".join(sorted((ConstEval.re_flags(n.left, path) + "|"
                                    + ConstEval.re_flags(n.right, path)).split("|")))
        if isinstance(n, ast.Attribute) and isinstance(n.value, ast.Name) and n.value.id == "re":
            return {"S": "DOTALL", "I": "IGNORECASE", "M": "MULTILINE", "X": "VERBOSE",
                    "A": "ASCII", "U": "UNICODE"}.get(n.attr, n.attr)
        raise Unsupported("{}: regular-expression flags not recognised".format(where(n, path)))

    @staticmethod
    def is_re_call(n, fn):
        return (isinstance(n, ast.Call) and isinstance(n.func, ast.Attribute) and n.func.attr == fn
                and isinstance(n.func.value, ast.Name) and n.func.value.id == "re")


def gen():
    broken = []
    lits = literals()
    tree = ast.parse(src(PATH))
    out = {"dot": "", "dotFrom": "", "dotTo": "", "token": "", "bracket": "", "unitexp": "",
           "operator": "", "validity": "", "bare": "", "definename": "", "base": "",
           "prec": [], "ops": [], "flags": []}

    # ---- DOT_STRING
    try:
        v = find_assign(tree, "DOT_STRING")
        if not (isinstance(v, ast.Constant) and isinstance(v.value, str)):
            raise Unsupported("{}: DOT_STRING is not a string literal".format(PATH))
        out["dot"] = v.value
    except Unsupported as e:
        broken.append(str(e))

    # ---- tokeniser: regex texts, replace() literals, bare numerator prefix
    try:
        fn = find_def(tree, TOKENISER)
        if fn is None:
            raise Unsupported("{}: def {} missing".format(PATH, TOKENISER))
        ce = ConstEval(PATH)
        want = {"token_pattern": "token", "bracket_enclosed_expression_pattern": "bracket",
                "unit_with_exponent_pattern": "unitexp", "operator_pattern": "operator"}
        replaces, fullmatches, prefixes = [], [], []
        for node in ast.walk(fn):
            pass
        for st in fn.body:
            if isinstance(st, ast.Assign) and len(st.targets) == 1 and isinstance(
                    st.targets[0], ast.Name):
                name, val = st.targets[0].id, st.value
                if ConstEval.is_re_call(val, "compile") and len(val.args) in (1, 2) \
                        and not val.keywords:
                    try:
                        fl = ConstEval.re_flags(val.args[1], PATH) if len(val.args) == 2 else ""
                        ce.patterns[name] = ce.ev(val.args[0])
                        ce.flags[name] = fl
                    except Unsupported as e:
                        broken.append(str(e))
                else:
                    try:
                        ce.strs[name] = ce.ev(val)
                    except Unsupported:
                        pass
        for node in ast.walk(fn):
            if isinstance(node, ast.Call) and isinstance(node.func, ast.Attribute):
                f = node.func
                if f.attr == "replace" and isinstance(f.value, ast.Name) and len(node.args) == 2:
                    replaces.append((ce.ev(node.args[0]), ce.ev(node.args[1])))
                if ConstEval.is_re_call(node, "fullmatch") and len(node.args) == 2:
                    fullmatches.append(ce.ev(node.args[0]))
                if f.attr == "startswith" and len(node.args) == 1:
                    prefixes.append(ce.ev(node.args[0]))
        for py, key in want.items():
            if py not in ce.patterns:
                raise Unsupported("{}: {} is not re.compile(<constant string>)".format(PATH, py))
            out[key] = ce.patterns[py]
            out["flags"].append((key, ce.flags.get(py, "")))
        if len(replaces) != 1:
            raise Unsupported("{}: expected one str.replace in {}, found {}".format(
                PATH, TOKENISER, len(replaces)))
        out["dotFrom"], out["dotTo"] = replaces[0]
        # validity check: either re.fullmatch(<pattern>, s) or "the tokens found cover the
        # string" (`"".join(tokens) != unit_string`), reported as the pseudo pattern <cover>
        covers = [n for n in ast.walk(fn) if isinstance(n, ast.Compare) and len(n.ops) == 1
                  and isinstance(n.ops[0], ast.NotEq) and isinstance(n.left, ast.Call)
                  and isinstance(n.left.func, ast.Attribute) and n.left.func.attr == "join"
                  and isinstance(n.left.func.value, ast.Constant) and n.left.func.value.value == ""]
        if len(fullmatches) == 1 and not covers:
            out["validity"] = fullmatches[0]
        elif len(covers) == 1 and not fullmatches:
            out["validity"] = "<cover>"
        else:
            raise Unsupported("{}: validity check of {} not recognised ({} re.fullmatch, {} "
                              "join-coverage tests)".format(PATH, TOKENISER, len(fullmatches),
                                                            len(covers)))
        if len(prefixes) > 1:
            raise Unsupported("{}: more than one startswith() in {}".format(PATH, TOKENISER))
        out["bare"] = prefixes[0] if prefixes else ""
    except Unsupported as e:
        broken.append(str(e))

    # ---- two-stack parser: precedence dict and bottom marker
    try:
        fn = find_def(tree, TWOSTACK)
        if fn is None:
            raise Unsupported("{}: def {} missing".format(PATH, TWOSTACK))
        prec, base = None, None
        for st in fn.body:
            if isinstance(st, ast.Assign) and len(st.targets) == 1 and isinstance(
                    st.targets[0], ast.Name):
                if st.targets[0].id == "precedence":
                    if not isinstance(st.value, ast.Dict):
                        raise Unsupported("{}: precedence is not a dict literal".format(
                            where(st, PATH)))
                    prec = []
                    for k, v in zip(st.value.keys, st.value.values):
                        if not (isinstance(k, ast.Constant) and isinstance(k.value, str)
                                and isinstance(v, ast.Constant) and isinstance(v.value, int)
                                and not isinstance(v.value, bool) and v.value >= 0):
                            raise Unsupported("{}: precedence entry".format(where(k, PATH)))
                        prec.append((k.value, v.value))
                if st.targets[0].id == "operator_stack":
                    v = st.value
                    if not (isinstance(v, ast.List) and len(v.elts) == 1 and isinstance(
                            v.elts[0], ast.Constant) and isinstance(v.elts[0].value, str)):
                        raise Unsupported("{}: operator_stack initialiser".format(where(st, PATH)))
                    base = v.elts[0].value
        if prec is None or base is None:
            raise Unsupported("{}: precedence / operator_stack not found in {}".format(
                PATH, TWOSTACK))
        out["prec"], out["base"] = prec, base
    except Unsupported as e:
        broken.append(str(e))

    # ---- UNIT_OPERATIONS
    try:
        node = find_assign(tree, "UNIT_OPERATIONS")
        if not isinstance(node, ast.Dict):
            raise Unsupported("{}: UNIT_OPERATIONS is not a dict literal".format(PATH))
        ops = []
        for k, v in zip(node.keys, node.values):
            if not isinstance(v, ast.Name):
                raise Unsupported("{}: UNIT_OPERATIONS value".format(where(v, PATH)))
            ops.append((lit_key(k, lits, PATH), v.id))
        out["ops"] = ops
    except Unsupported as e:
        broken.append(str(e))

    # ---- define_unit name pattern
    try:
        fn = find_def(tree, "define_unit")
        pats = []
        if fn is not None:
            ce = ConstEval(PATH)
            for node in ast.walk(fn):
                if ConstEval.is_re_call(node, "match") and len(node.args) == 2:
                    pats.append(ce.ev(node.args[0]))
        if len(pats) != 1:
            raise Unsupported("{}: define_unit name check not found".format(PATH))
        out["definename"] = pats[0]
    except Unsupported as e:
        broken.append(str(e))

    def pairs(xs, f):
        return "[" + ", ".join("({}, {})".format(lean_str(a), f(b)) for a, b in xs) + "]"

    text = """/- GENERATED by vf/translate.py from {path} — do not edit. -/
namespace QExPy.Gen

/-- reasons the translator could not follow the source (empty = tie intact) -/
def unitsTieBroken : List String := {broken}

/-- DOT_STRING: the separator the printer writes between factors -/
def dotString : String := {dot}
/-- `unit_string.replace(dotFrom, dotTo)` at the start of the tokeniser -/
def lexDotFrom : String := {dotFrom}
def lexDotTo : String := {dotTo}
/-- `unit_string.startswith(..)`: the bare numerator the tokeniser strips ("" = none) -/
def bareNumeratorPrefix : String := {bare}

/-- pattern texts of the tokeniser (not interpreted; the scanner in Model/UnitParse.lean is
    hand-written for the texts pinned in Props/C12.lean) -/
def tokenPatternSrc : String := {token}
def bracketPatternSrc : String := {bracket}
def unitExpPatternSrc : String := {unitexp}
def operatorPatternSrc : String := {operator}
def validityPatternSrc : String := {validity}
def defineNamePatternSrc : String := {definename}
/-- flags of the four `re.compile` calls of the tokeniser ("" = none) -/
def patternFlags : List (String × String) := {flags}

/-- `precedence` dict of the two-stack parser, in source order -/
def precTable : List (String × Nat) := {prec}
/-- bottom marker of the operator stack -/
def precBase : String := {base}

/-- UNIT_OPERATIONS: operator literal ↦ function it dispatches to -/
def unitOps : List (String × String) := {ops}

end QExPy.Gen
""".format(path=PATH, broken=lean_strlist(broken), dot=lean_str(out["dot"]),
           dotFrom=lean_str(out["dotFrom"]), dotTo=lean_str(out["dotTo"]),
           bare=lean_str(out["bare"]), token=lean_str(out["token"]),
           bracket=lean_str(out["bracket"]), unitexp=lean_str(out["unitexp"]),
           operator=lean_str(out["operator"]), validity=lean_str(out["validity"]),
           definename=lean_str(out["definename"]), prec=pairs(out["prec"], str),
           base=lean_str(out["base"]), ops=pairs(out["ops"], lean_str),
           flags=pairs(out["flags"], lean_str))
    return "Units.lean", text, broken

"""translator section `ops`: qexpy/data/operations.py OPERATIONS / DIFFERENTIATORS / degree variants"""
import ast

from translate import (Unsupported, ExprTr, NP_FUNCS, src, literals, find_assign, find_def, lit_key,
                       inline_def, where, lean_strlist)

OP1 = ["neg", "sqrt", "exp", "sin", "cos", "tan", "asin", "acos", "atan", "sec", "csc", "cot",
       "log10", "ln"]
OP2 = ["add", "sub", "mul", "div", "pow", "log"]
DEG = {"sind": "sin", "cosd": "cos", "tand": "tan", "secd": "sec", "cscd": "csc", "cotd": "cot"}


def check_fresh_operand_values(tree, path):
    fn = find_def(tree, "differentiate")
    if fn is None:
        raise Unsupported("{}: def differentiate missing".format(path))
    # find the wrapper applied to formula.operands
    wrappers = set()
    for node in ast.walk(fn):
        if isinstance(node, ast.Call) and isinstance(node.func, ast.Name) and len(node.args) == 1 \
                and not node.keywords and isinstance(node.args[0], ast.Name):
            wrappers.add(node.func.id)   # W(operand)
        if isinstance(node, ast.Call) and isinstance(node.func, ast.Name) and node.func.id == "map" \
                and len(node.args) == 2 and isinstance(node.args[0], ast.Name):
            wrappers.add(node.args[0].id)
    uses_operands = any(isinstance(n, ast.Attribute) and n.attr == "operands" for n in ast.walk(fn))
    starred_raw = any(isinstance(n, ast.Starred) and isinstance(n.value, ast.Attribute)
                      and n.value.attr == "operands" for n in ast.walk(fn))
    classes = {c.name: c for c in tree.body if isinstance(c, ast.ClassDef)}
    good = [w for w in wrappers if w in classes and _is_fresh_view(classes[w])]
    if not uses_operands or starred_raw or not good:
        raise Unsupported(
            "{}: differentiate() passes the operands to the derivative rules without a view whose "
            ".value is _evaluate_formula(operand): `x.value` in DIFFERENTIATORS is then the "
            "memoised, method-dispatching public value (model assumes fresh evaluation)".format(
                where(fn, path)))


def _is_fresh_view(cls):
    """class W: __init__(self, operand): self.A = operand; value -> _evaluate_formula(self.A);
    derivative(self, other) -> self.A.derivative(other)"""
    attr = None
    ok_value = ok_deriv = False
    for item in cls.body:
        if isinstance(item, ast.FunctionDef) and item.name == "__init__":
            for st in item.body:
                if isinstance(st, ast.Assign) and len(st.targets) == 1 and isinstance(
                        st.targets[0], ast.Attribute) and isinstance(st.value, ast.Name) and \
                        len(item.args.args) == 2 and st.value.id == item.args.args[1].arg:
                    attr = st.targets[0].attr
    if attr is None:
        return False

    def is_self_attr(n):
        return isinstance(n, ast.Attribute) and n.attr == attr and isinstance(n.value, ast.Name) \
            and n.value.id == "self"
    for item in cls.body:
        if not isinstance(item, ast.FunctionDef):
            continue
        rets = [s for s in item.body if isinstance(s, ast.Return)]
        if item.name == "value" and len(rets) == 1:
            r = rets[0].value
            ok_value = (isinstance(r, ast.Call) and isinstance(r.func, ast.Name)
                        and r.func.id == "_evaluate_formula" and len(r.args) == 1
                        and is_self_attr(r.args[0]) and not r.keywords)
        if item.name == "derivative" and len(rets) == 1 and len(item.args.args) == 2:
            r = rets[0].value
            ok_deriv = (isinstance(r, ast.Call) and isinstance(r.func, ast.Attribute)
                        and r.func.attr == "derivative" and is_self_attr(r.func.value)
                        and len(r.args) == 1 and isinstance(r.args[0], ast.Name)
                        and r.args[0].id == item.args.args[1].arg)
    return ok_value and ok_deriv


def check_derivative_methods():
    path = "qexpy/data/data.py"
    tree = ast.parse(src(path))
    classes = {c.name: c for c in tree.body if isinstance(c, ast.ClassDef)}

    def ret_of(cname):
        c = classes.get(cname)
        f = next((m for m in (c.body if c else []) if isinstance(m, ast.FunctionDef)
                  and m.name == "derivative"), None)
        if f is None:
            raise Unsupported("{}: {}.derivative missing".format(path, cname))
        rets = [n for n in ast.walk(f) if isinstance(n, ast.Return)]
        if len(rets) != 1:
            raise Unsupported("{}: {}.derivative has {} return statements".format(
                where(f, path), cname, len(rets)))
        return f, rets[0].value

    def is_id_test(t, other):
        def idof(n, who):
            return isinstance(n, ast.Attribute) and n.attr == "_id" and isinstance(n.value, ast.Name) \
                and n.value.id == who
        return (isinstance(t, ast.Compare) and len(t.ops) == 1 and isinstance(t.ops[0], ast.Eq)
                and ((idof(t.left, "self") and idof(t.comparators[0], other))
                     or (idof(t.left, other) and idof(t.comparators[0], "self"))))

    f, r = ret_of("Constant")
    if not (isinstance(r, ast.Constant) and r.value == 0):
        raise Unsupported("{}: Constant.derivative does not return 0".format(where(f, path)))
    f, r = ret_of("MeasuredValue")
    other = f.args.args[1].arg
    if not (isinstance(r, ast.IfExp) and is_id_test(r.test, other) and isinstance(r.body, ast.Constant)
            and r.body.value == 1 and isinstance(r.orelse, ast.Constant) and r.orelse.value == 0):
        raise Unsupported("{}: MeasuredValue.derivative is not `1 if self._id == other._id else 0` "
                          "(identity of measurements)".format(where(f, path)))
    f, r = ret_of("DerivedValue")
    other = f.args.args[1].arg
    ok = (isinstance(r, ast.IfExp) and is_id_test(r.test, other) and isinstance(r.body, ast.Constant)
          and r.body.value == 1 and isinstance(r.orelse, ast.Call)
          and isinstance(r.orelse.func, ast.Attribute) and r.orelse.func.attr == "differentiate"
          and len(r.orelse.args) == 2 and isinstance(r.orelse.args[0], ast.Attribute)
          and r.orelse.args[0].attr == "_formula" and isinstance(r.orelse.args[1], ast.Name)
          and r.orelse.args[1].id == other)
    if not ok:
        raise Unsupported("{}: DerivedValue.derivative is not `1 if self._id == other._id else "
                          "op.differentiate(self._formula, other)`".format(where(f, path)))


class _Rename(ast.NodeTransformer):
    """x.error -> s_x ; differentiate(<anything>, x) -> g_x  (so ExprTr sees plain names)"""

    def visit_Attribute(self, node):
        if isinstance(node.value, ast.Name) and node.attr == "error":
            return ast.copy_location(ast.Name(id="s_" + node.value.id, ctx=ast.Load()), node)
        return self.generic_visit(node)

    def visit_Call(self, node):
        if isinstance(node.func, ast.Name) and node.func.id == "differentiate" and \
                len(node.args) == 2 and isinstance(node.args[1], ast.Name) and not node.keywords:
            return ast.copy_location(ast.Name(id="g_" + node.args[1].id, ctx=ast.Load()), node)
        return self.generic_visit(node)


def gen_evaluator(tree, path, broken):
    """DerivativeEvaluator.__evaluate / __find_cov_terms: the quadrature term, the covariance of a
    pair, the yielded covariance term and its guard, how the sums are combined"""
    out = {"quad": "(Num.ofNat 0)", "cov": "(Num.ofNat 0)", "yield": "(Num.ofNat 0)",
           "combine": "q", "err": "x"}
    try:
        cls = next((c for c in tree.body if isinstance(c, ast.ClassDef)
                    and c.name == "DerivativeEvaluator"), None)
        if cls is None:
            raise Unsupported("{}: class DerivativeEvaluator missing".format(path))
        meth = {f.name: f for f in cls.body if isinstance(f, ast.FunctionDef)}
        ev, cv = meth.get("__evaluate"), meth.get("__find_cov_terms")
        if ev is None or cv is None:
            raise Unsupported("{}: __evaluate / __find_cov_terms missing".format(path))
        # quads = list(map(lambda x: <body>, sources))
        lam = None
        assigns = {}
        for st in ast.walk(ev):
            if isinstance(st, ast.Assign) and len(st.targets) == 1 and isinstance(st.targets[0], ast.Name):
                assigns[st.targets[0].id] = st.value
        q = assigns.get("quads")
        for n in ast.walk(q) if q is not None else []:
            if isinstance(n, ast.Lambda) and len(n.args.args) == 1:
                lam = n
        if lam is None:
            raise Unsupported("{}: quads = list(map(lambda x: ..., sources)) not found".format(
                where(ev, path)))
        x = lam.args.args[0].arg
        body = _Rename().visit(lam.body)
        out["quad"] = ExprTr(path, names={"s_" + x: "s", "g_" + x: "g"}).tr(body)
        rs = assigns.get("result_sums")
        if not (isinstance(rs, ast.BinOp) and all(
                isinstance(o, ast.Call) and isinstance(o.func, ast.Name) and o.func.id == "sum"
                and len(o.args) == 1 and isinstance(o.args[0], ast.Name) for o in (rs.left, rs.right))):
            raise Unsupported("{}: result_sums = sum(..) + sum(..) not found".format(where(ev, path)))
        nm = {rs.left.args[0].id: "q", rs.right.args[0].id: "c"}
        if set(nm) != {"quads", "covariance_terms"}:
            raise Unsupported("{}: result_sums sums {}".format(where(ev, path), sorted(nm)))
        out["combine"] = ExprTr(path, names={"__q": "q", "__c": "c"}).tr(
            ast.BinOp(left=ast.Name(id="__q" if nm[rs.left.args[0].id] == "q" else "__c"), op=rs.op,
                      right=ast.Name(id="__c" if nm[rs.right.args[0].id] == "c" else "__q")))
        re_ = assigns.get("result_error")
        if re_ is None:
            raise Unsupported("{}: result_error not found".format(where(ev, path)))
        out["err"] = ExprTr(path, names={"result_sums": "x"}).tr(re_)
        # __find_cov_terms
        loop = next((n for n in ast.walk(cv) if isinstance(n, ast.For)), None)
        if loop is None or not (isinstance(loop.target, ast.Tuple) and len(loop.target.elts) == 2):
            raise Unsupported("{}: pair loop not found".format(where(cv, path)))
        it = loop.iter
        if not (isinstance(it, ast.Call) and isinstance(it.func, ast.Attribute)
                and it.func.attr == "combinations" and len(it.args) == 2
                and isinstance(it.args[1], ast.Constant) and it.args[1].value == 2):
            raise Unsupported("{}: pairs are not itertools.combinations(.., 2)".format(where(loop, path)))
        v1, v2 = (e.id for e in loop.target.elts)
        la = {}
        guard = yld = None
        for st in loop.body:
            if isinstance(st, ast.Assign) and len(st.targets) == 1 and isinstance(st.targets[0], ast.Name):
                la[st.targets[0].id] = st.value
            elif isinstance(st, ast.If) and len(st.body) == 1 and isinstance(st.body[0], ast.Expr) \
                    and isinstance(st.body[0].value, ast.Yield) and not st.orelse:
                guard, yld = st.test, st.body[0].value.value
            elif isinstance(st, ast.Expr) and isinstance(st.value, ast.Constant):
                pass
            else:
                raise Unsupported("{}: statement in pair loop".format(where(st, path)))
        corr = la.get("corr")
        if not (isinstance(corr, ast.Call) and isinstance(corr.func, ast.Attribute)
                and corr.func.attr == "get_correlation" and [getattr(a, "id", None) for a in corr.args]
                in ([v1, v2], [v2, v1])):
            raise Unsupported("{}: corr is not get_correlation(var1, var2)".format(where(cv, path)))
        names = {"corr": "r", "s_" + v1: "s1", "s_" + v2: "s2", "g_" + v1: "g1", "g_" + v2: "g2"}
        if "cov" not in la:
            raise Unsupported("{}: cov not assigned".format(where(cv, path)))
        out["cov"] = ExprTr(path, names=names).tr(_Rename().visit(la["cov"]))
        if not (isinstance(guard, ast.Compare) and isinstance(guard.left, ast.Name)
                and guard.left.id == "cov" and len(guard.ops) == 1 and isinstance(guard.ops[0], ast.NotEq)
                and isinstance(guard.comparators[0], ast.Constant) and guard.comparators[0].value == 0):
            raise Unsupported("{}: guard of the covariance term is not `cov != 0`".format(where(cv, path)))
        names["cov"] = "cov"
        out["yield"] = ExprTr(path, names=names).tr(_Rename().visit(yld))
    except Unsupported as e:
        broken.append(str(e))
    except Exception as e:  # noqa: BLE001
        broken.append("{}: DerivativeEvaluator: {}: {}".format(path, type(e).__name__, e))
    return out


def gen():
    path = "qexpy/data/operations.py"
    lits = literals()
    tree = ast.parse(src(path))
    broken = []
    op1, op2, d1, d2 = {}, {}, {}, {}

    def table(name):
        node = find_assign(tree, name)
        if not isinstance(node, ast.Dict):
            raise Unsupported("{}: {} is not a dict literal".format(path, name))
        return [(lit_key(k, lits, path), v) for k, v in zip(node.keys, node.values)]

    # ---- OPERATIONS
    try:
        for key, val in table("OPERATIONS"):
            try:
                if isinstance(val, ast.Lambda):
                    args = [a.arg for a in val.args.args]
                    names = {a: "x{}".format(i) for i, a in enumerate(args)}
                    term = ExprTr(path, names=names).tr(val.body)
                    arity = len(args)
                elif isinstance(val, ast.Attribute) and isinstance(val.value, ast.Name) and \
                        val.value.id == "np" and val.attr in NP_FUNCS:
                    term, arity = "({} x0)".format(NP_FUNCS[val.attr]), 1
                else:
                    raise Unsupported("{}: OPERATIONS[{}]".format(where(val, path), key))
                (op1 if arity == 1 else op2)[key] = term
                if arity not in (1, 2):
                    raise Unsupported("{}: arity {}".format(where(val, path), arity))
            except Unsupported as e:
                broken.append(str(e))
    except Unsupported as e:
        broken.append(str(e))

    # ---- DIFFERENTIATORS
    try:
        for key, val in table("DIFFERENTIATORS"):
            try:
                if isinstance(val, ast.Name):
                    # name-mangled reference to a module-level def
                    fn = find_def(tree, val.id)
                    if fn is None:
                        raise Unsupported("{}: DIFFERENTIATORS[{}] -> {}".format(
                            where(val, path), key, val.id))
                    args, body = inline_def(fn, path)
                elif isinstance(val, ast.Lambda):
                    args, body = [a.arg for a in val.args.args], val.body
                else:
                    raise Unsupported("{}: DIFFERENTIATORS[{}]".format(where(val, path), key))
                target, operands = args[0], args[1:]
                objs = {a: ("v{}".format(i), "d{}".format(i)) for i, a in enumerate(operands)}
                term = ExprTr(path, objs=objs, target=target).tr(body)
                (d1 if len(operands) == 1 else d2)[key] = term
                if len(operands) not in (1, 2):
                    raise Unsupported("{}: arity".format(where(val, path)))
            except Unsupported as e:
                broken.append(str(e))
    except Unsupported as e:
        broken.append(str(e))

    for nm, tab, want in (("OPERATIONS(1)", op1, OP1), ("OPERATIONS(2)", op2, OP2),
                          ("DIFFERENTIATORS(1)", d1, OP1), ("DIFFERENTIATORS(2)", d2, OP2)):
        if sorted(tab) != sorted(want) and not broken:
            broken.append("{}: keys of {} are {} (model alphabet {})".format(
                path, nm, sorted(tab), sorted(want)))

    # ---- what does `x.value` mean inside the rules?  The model (Expr.diff) uses the operand's
    # formula evaluated afresh (`eval env a`).  That is what the code does only if
    # `differentiate` hands the rules a view whose `.value` is `_evaluate_formula(operand)`.
    try:
        check_fresh_operand_values(tree, path)
    except Unsupported as e:
        broken.append(str(e))

    # ---- leaves and dispatch of derivative() (qexpy/data/data.py): identity by _id, constants 0,
    # calculated quantities 1 w.r.t. themselves else the rule of their operator
    try:
        check_derivative_methods()
    except Unsupported as e:
        broken.append(str(e))

    # ---- degree variants
    deg = {}
    for name, inner in DEG.items():
        try:
            fn = find_def(tree, name)
            if fn is None:
                raise Unsupported("{}: def {} missing".format(path, name))
            args, body = inline_def(fn, path)
            if len(args) != 1 or not (isinstance(body, ast.Call) and isinstance(
                    body.func, ast.Name) and len(body.args) == 1 and not body.keywords):
                raise Unsupported("{}: body of {}".format(where(fn, path), name))
            if body.func.id != inner:
                raise Unsupported("{}: {} calls {} (model expects {})".format(
                    where(fn, path), name, body.func.id, inner))
            deg[name] = ExprTr(path, names={args[0]: "x0"}).tr(body.args[0])
        except Unsupported as e:
            broken.append(str(e))

    evl = gen_evaluator(tree, path, broken)

    def arm(tab, keys, default):
        return "\n".join("  | .{} => {}".format(k, tab.get(k, default)) for k in keys)

    zero = "(Num.ofNat 0)"
    text = """/- GENERATED by vf/translate.py from {path} — do not edit. -/
import QExPy.Num
import QExPy.Model.Ops
namespace QExPy.Gen
variable {{α : Type}} [Num α]

/-- reasons the translator could not follow the source (empty = tie intact) -/
def opsTieBroken : List String := {broken}

/-- OPERATIONS[op] for one-operand operators -/
def op1 (o : Op1) (x0 : α) : α :=
  match o with
{op1}

/-- OPERATIONS[op] for two-operand operators -/
def op2 (o : Op2) (x0 x1 : α) : α :=
  match o with
{op2}

/-- DIFFERENTIATORS[op](target, x): v0 = x.value, d0 = x.derivative(target) -/
def d1 (o : Op1) (v0 d0 : α) : α :=
  match o with
{d1}

/-- DIFFERENTIATORS[op](target, a, b): v0,d0 for the first operand, v1,d1 for the second -/
def d2 (o : Op2) (v0 d0 v1 d1 : α) : α :=
  match o with
{d2}

/-- the argument the degree variant passes to its radian function -/
def degArg (o : DegOp) (x0 : α) : α :=
  match o with
{deg}

/-- DerivativeEvaluator.__evaluate: the quadrature term of one source (s = its uncertainty,
    g = the derivative of the formula with respect to it) -/
def quadTerm (s g : α) : α := {quad}

/-- __find_cov_terms: covariance of a pair from its correlation r and the two uncertainties -/
def covOf (r s1 s2 : α) : α := {cov}

/-- __find_cov_terms: the term yielded for a pair when `cov != 0` -/
def covYield (cov g1 g2 : α) : α := {yld}

/-- result_sums from the sum of quadrature terms q and the sum of covariance terms c -/
def combine (q c : α) : α := {combine}

/-- result_error from result_sums -/
def errOf (x : α) : α := {err}

end QExPy.Gen
""".format(path=path, quad=evl["quad"], cov=evl["cov"], yld=evl["yield"],
           combine=evl["combine"], err=evl["err"], broken=lean_strlist(broken),
           op1=arm(op1, OP1, "x0"), op2=arm(op2, OP2, "x0"),
           d1=arm(d1, OP1, zero), d2=arm(d2, OP2, zero),
           deg=arm(deg, list(DEG), "x0"))
    return "Ops.lean", text, broken



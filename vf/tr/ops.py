"""translator section `ops`: qexpy/data/operations.py OPERATIONS / DIFFERENTIATORS / degree variants"""
import ast

from translate import (Unsupported, ExprTr, NP_FUNCS, src, literals, find_assign, find_def, lit_key,
                       inline_def, where, lean_strlist)

OP1 = ["neg", "sqrt", "exp", "sin", "cos", "tan", "asin", "acos", "atan", "sec", "csc", "cot",
       "log10", "ln"]
OP2 = ["add", "sub", "mul", "div", "pow", "log"]
DEG = {"sind": "sin", "cosd": "cos", "tand": "tan", "secd": "sec", "cscd": "csc", "cotd": "cot"}


def check_fresh_operand_values(tree, path):
    fn = find_def(tree, "differentiate")
    if fn is None:
        raise Unsupported("{}: def differentiate missing".format(path))
    # find the wrapper applied to formula.operands
    wrappers = set()
    for node in ast.walk(fn):
        if isinstance(node, ast.Call) and isinstance(node.func, ast.Name) and len(node.args) == 1 \
                and not node.keywords and isinstance(node.args[0], ast.Name):
            wrappers.add(node.func.id)   # W(operand)
        if isinstance(node, ast.Call) and isinstance(node.func, ast.Name) and node.func.id == "map" \
                and len(node.args) == 2 and isinstance(node.args[0], ast.Name):
            wrappers.add(node.args[0].id)
    uses_operands = any(isinstance(n, ast.Attribute) and n.attr == "operands" for n in ast.walk(fn))
    starred_raw = any(isinstance(n, ast.Starred) and isinstance(n.value, ast.Attribute)
                      and n.value.attr == "operands" for n in ast.walk(fn))
    classes = {c.name: c for c in tree.body if isinstance(c, ast.ClassDef)}
    good = [w for w in wrappers if w in classes and _is_fresh_view(classes[w])]
    if not uses_operands or starred_raw or not good:
        raise Unsupported(
            "{}: differentiate() passes the operands to the derivative rules without a view whose "
            ".value is _evaluate_formula(operand): `x.value` in DIFFERENTIATORS is then the "
            "memoised, method-dispatching public value (model assumes fresh evaluation)".format(
                where(fn, path)))


def _is_fresh_view(cls):
    """class W: __init__(self, operand): self.A = operand; value -> _evaluate_formula(self.A);
    derivative(self, other) -> self.A.derivative(other)"""
    attr = None
    ok_value = ok_deriv = False
    for item in cls.body:
        if isinstance(item, ast.FunctionDef) and item.name == "__init__":
            for st in item.body:
                if isinstance(st, ast.Assign) and len(st.targets) == 1 and isinstance(
                        st.targets[0], ast.Attribute) and isinstance(st.value, ast.Name) and \
                        len(item.args.args) == 2 and st.value.id == item.args.args[1].arg:
                    attr = st.targets[0].attr
    if attr is None:
        return False

    def is_self_attr(n):
        return isinstance(n, ast.Attribute) and n.attr == attr and isinstance(n.value, ast.Name) \
            and n.value.id == "self"
    for item in cls.body:
        if not isinstance(item, ast.FunctionDef):
            continue
        rets = [s for s in item.body if isinstance(s, ast.Return)]
        if item.name == "value" and len(rets) == 1:
            r = rets[0].value
            ok_value = (isinstance(r, ast.Call) and isinstance(r.func, ast.Name)
                        and r.func.id == "_evaluate_formula" and len(r.args) == 1
                        and is_self_attr(r.args[0]) and not r.keywords)
        if item.name == "derivative" and len(rets) == 1 and len(item.args.args) == 2:
            r = rets[0].value
            ok_deriv = (isinstance(r, ast.Call) and isinstance(r.func, ast.Attribute)
                        and r.func.attr == "derivative" and is_self_attr(r.func.value)
                        and len(r.args) == 1 and isinstance(r.args[0], ast.Name)
                        and r.args[0].id == item.args.args[1].arg)
    return ok_value and ok_deriv


def gen():
    path = "qexpy/data/operations.py"
    lits = literals()
    tree = ast.parse(src(path))
    broken = []
    op1, op2, d1, d2 = {}, {}, {}, {}

    def table(name):
        node = find_assign(tree, name)
        if not isinstance(node, ast.Dict):
            raise Unsupported("{}: {} is not a dict literal".format(path, name))
        return [(lit_key(k, lits, path), v) for k, v in zip(node.keys, node.values)]

    # ---- OPERATIONS
    try:
        for key, val in table("OPERATIONS"):
            try:
                if isinstance(val, ast.Lambda):
                    args = [a.arg for a in val.args.args]
                    names = {a: "x{}".format(i) for i, a in enumerate(args)}
                    term = ExprTr(path, names=names).tr(val.body)
                    arity = len(args)
                elif isinstance(val, ast.Attribute) and isinstance(val.value, ast.Name) and \
                        val.value.id == "np" and val.attr in NP_FUNCS:
                    term, arity = "({} x0)".format(NP_FUNCS[val.attr]), 1
                else:
                    raise Unsupported("{}: OPERATIONS[{}]".format(where(val, path), key))
                (op1 if arity == 1 else op2)[key] = term
                if arity not in (1, 2):
                    raise Unsupported("{}: arity {}".format(where(val, path), arity))
            except Unsupported as e:
                broken.append(str(e))
    except Unsupported as e:
        broken.append(str(e))

    # ---- DIFFERENTIATORS
    try:
        for key, val in table("DIFFERENTIATORS"):
            try:
                if isinstance(val, ast.Name):
                    # name-mangled reference to a module-level def
                    fn = find_def(tree, val.id)
                    if fn is None:
                        raise Unsupported("{}: DIFFERENTIATORS[{}] -> {}".format(
                            where(val, path), key, val.id))
                    args, body = inline_def(fn, path)
                elif isinstance(val, ast.Lambda):
                    args, body = [a.arg for a in val.args.args], val.body
                else:
                    raise Unsupported("{}: DIFFERENTIATORS[{}]".format(where(val, path), key))
                target, operands = args[0], args[1:]
                objs = {a: ("v{}".format(i), "d{}".format(i)) for i, a in enumerate(operands)}
                term = ExprTr(path, objs=objs, target=target).tr(body)
                (d1 if len(operands) == 1 else d2)[key] = term
                if len(operands) not in (1, 2):
                    raise Unsupported("{}: arity".format(where(val, path)))
            except Unsupported as e:
                broken.append(str(e))
    except Unsupported as e:
        broken.append(str(e))

    for nm, tab, want in (("OPERATIONS(1)", op1, OP1), ("OPERATIONS(2)", op2, OP2),
                          ("DIFFERENTIATORS(1)", d1, OP1), ("DIFFERENTIATORS(2)", d2, OP2)):
        if sorted(tab) != sorted(want) and not broken:
            broken.append("{}: keys of {} are {} (model alphabet {})".format(
                path, nm, sorted(tab), sorted(want)))

    # ---- what does `x.value` mean inside the rules?  The model (Expr.diff) uses the operand's
    # formula evaluated afresh (`eval env a`).  That is what the code does only if
    # `differentiate` hands the rules a view whose `.value` is `_evaluate_formula(operand)`.
    try:
        check_fresh_operand_values(tree, path)
    except Unsupported as e:
        broken.append(str(e))

    # ---- degree variants
    deg = {}
    for name, inner in DEG.items():
        try:
            fn = find_def(tree, name)
            if fn is None:
                raise Unsupported("{}: def {} missing".format(path, name))
            args, body = inline_def(fn, path)
            if len(args) != 1 or not (isinstance(body, ast.Call) and isinstance(
                    body.func, ast.Name) and len(body.args) == 1 and not body.keywords):
                raise Unsupported("{}: body of {}".format(where(fn, path), name))
            if body.func.id != inner:
                raise Unsupported("{}: {} calls {} (model expects {})".format(
                    where(fn, path), name, body.func.id, inner))
            deg[name] = ExprTr(path, names={args[0]: "x0"}).tr(body.args[0])
        except Unsupported as e:
            broken.append(str(e))

    def arm(tab, keys, default):
        return "\n".join("  | .{} => {}".format(k, tab.get(k, default)) for k in keys)

    zero = "(Num.ofNat 0)"
    text = """/- GENERATED by vf/translate.py from {path} — do not edit. -/
import QExPy.Num
import QExPy.Model.Ops
namespace QExPy.Gen
variable {{α : Type}} [Num α]

/-- reasons the translator could not follow the source (empty = tie intact) -/
def opsTieBroken : List String := {broken}

/-- OPERATIONS[op] for one-operand operators -/
def op1 (o : Op1) (x0 : α) : α :=
  match o with
{op1}

/-- OPERATIONS[op] for two-operand operators -/
def op2 (o : Op2) (x0 x1 : α) : α :=
  match o with
{op2}

/-- DIFFERENTIATORS[op](target, x): v0 = x.value, d0 = x.derivative(target) -/
def d1 (o : Op1) (v0 d0 : α) : α :=
  match o with
{d1}

/-- DIFFERENTIATORS[op](target, a, b): v0,d0 for the first operand, v1,d1 for the second -/
def d2 (o : Op2) (v0 d0 v1 d1 : α) : α :=
  match o with
{d2}

/-- the argument the degree variant passes to its radian function -/
def degArg (o : DegOp) (x0 : α) : α :=
  match o with
{deg}

end QExPy.Gen
""".format(path=path, broken=lean_strlist(broken),
           op1=arm(op1, OP1, "x0"), op2=arm(op2, OP2, "x0"),
           d1=arm(d1, OP1, zero), d2=arm(d2, OP2, zero),
           deg=arm(deg, list(DEG), "x0"))
    return "Ops.lean", text, broken



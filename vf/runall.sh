#!/bin/sh
# vf/runall.sh [tier] [seed] — run every check registered in MANIFEST.json, print one line each
cd "$(dirname "$0")/.." || exit 2
tier=${1:-quick}; seed=${2:-0}
for p in $(/venv/bin/python -c "import json;print(' '.join(c['property_id'] for c in json.load(open('MANIFEST.json'))['checks']))"); do
  VERIF_SEED=$seed ./check $p --tier $tier 2>&1 | grep -E "VIOLATION|KNOWN-FINDING|tier=" 
done

#!/venv/bin/python
"""./check <ID> [--tier quick|thorough] [--replay FILE]

One run decides one property (DESIGN §4):
  1. translate the tables the property depends on from /repo's working tree
  2. prove: lake build the property's Props module(s) + axiom audit
  3. correspond: run the executable Lean model and the real qexpy on seeded inputs
  4. decide; when a tie or an obligation is broken, search for a concrete failing input
exit 0 = held; exit 1 = `VIOLATION property=<id> replay=<path>`; exit 2 = tool failure
"""
import argparse
import importlib
import json
import os
import random
import re
import shutil
import subprocess
import sys
import time
import traceback

HERE = os.path.dirname(os.path.abspath(__file__))
sys.path.insert(0, HERE)
import common as C  # noqa: E402

sys.path.insert(0, C.REPO)


from concurrent.futures.process import BrokenProcessPool  # noqa: E402

INFRA_ERRORS = (BrokenProcessPool, MemoryError, subprocess.TimeoutExpired, BrokenPipeError)


class Ctx:
    def __init__(self, pid, tier, seed):
        self.pid, self.tier, self.seed = pid, tier, seed
        self.rng = random.Random((seed * 1000003) ^ hash_str(pid))
        self.driver = C.DRIVER
        self._ref = None
        self.notes = []

    @property
    def quick(self):
        return self.tier == "quick"

    def n(self, quick, thorough):
        return quick if self.quick else thorough

    def model(self, lines, ref=False):
        return C.run_driver(lines, driver=self.ref_driver() if ref else self.driver)

    def tables_changed(self, sections):
        """do the tables regenerated from the working tree differ from the proved reference copies?
        (then the regenerated model is not known to be correct and replays use the reference driver)"""
        import translate
        for sec in sections:
            try:
                fname, text, br = translate.SECTIONS[sec]()
                with open(os.path.join(C.LEAN, "Reference", fname)) as rf:
                    if br or rf.read() != text:
                        return True
            except Exception:
                return True
        return False

    def ref_driver(self):
        """driver built from the committed *reference* tables (lean/Reference), i.e. the
        tables the theorems were last proved for; used only by the failing-input search"""
        if self._ref:
            return self._ref
        dst = os.path.join(C.ROOT, ".refbuild")
        src = C.LEAN
        os.makedirs(dst, exist_ok=True)
        # mirror sources (not .lake), then overwrite Generated with Reference
        subprocess.run(["rsync", "-a", "--delete", "--exclude", ".lake", src + "/", dst + "/"],
                       check=True)
        refdir = os.path.join(src, "Reference")
        for f in os.listdir(refdir):
            shutil.copy(os.path.join(refdir, f), os.path.join(dst, "QExPy", "Generated", f))
        with C.Lake():
            p = subprocess.run(["lake", "build", "driver"], cwd=dst, capture_output=True,
                               text=True, timeout=1800)
        if p.returncode != 0:
            raise RuntimeError("reference driver build failed:\n" + (p.stdout + p.stderr)[-3000:])
        self._ref = os.path.join(dst, ".lake", "build", "bin", "driver")
        return self._ref


def hash_str(s):
    h = 0
    for ch in s:
        h = (h * 131 + ord(ch)) & 0xFFFFFFFF
    return h


def load_findings():
    path = os.path.join(C.ROOT, "known_findings.json")
    try:
        with open(path) as f:
            return json.load(f).get("findings", [])
    except FileNotFoundError:
        return []


def match_finding(findings, pid, failure):
    for f in findings:
        if f.get("property") != pid or f.get("status") != "known":
            continue
        if re.fullmatch(f["signature"], failure.get("signature", "")):
            return f
    return None


def audit(mod, theorems):
    """#print axioms for every property theorem; returns (ok, {thm: [axioms]}, output)"""
    if not theorems:
        return True, {}, ""
    path = os.path.join(C.LEAN, "QExPy", "Audit")
    os.makedirs(path, exist_ok=True)
    fn = os.path.join(path, mod.ID + ".lean")
    text = "".join("import {}\n".format(m) for m in mod.LEAN_MODULES)
    text += "".join("#print axioms {}\n".format(t) for t in theorems)
    with open(fn, "w") as f:
        f.write(text)
    rc, out = C.lean_run_file(os.path.relpath(fn, C.LEAN))
    axioms = {}
    # "'QExPy.C03_x' depends on axioms: [propext, Classical.choice, Quot.sound]"
    # "'QExPy.C03_y' does not depend on any axioms"
    flat = re.sub(r"\s+", " ", out)
    for t in theorems:
        m = re.search(r"'" + re.escape(t) + r"' depends on axioms: \[([^\]]*)\]", flat)
        if m:
            axioms[t] = [a.strip() for a in m.group(1).split(",") if a.strip()]
        elif re.search(r"'" + re.escape(t) + r"' does not depend on any axioms", flat):
            axioms[t] = []
    ok = rc == 0 and all(t in axioms and set(axioms[t]) <= C.STD_AXIOMS for t in theorems)
    return ok, axioms, out


def grep_forbidden(mod):
    """no sorry/admit/axiom/native_decide/... in the files the property's theorems live in"""
    bad = []
    pat = re.compile(r"\b(sorry|admit|native_decide|bv_decide|implemented_by|unsafe)\b|^axiom |maxHeartbeats 0")
    files = []
    for root, _, fs in os.walk(os.path.join(C.LEAN, "QExPy")):
        if "Audit" in root:
            continue
        files += [os.path.join(root, f) for f in fs if f.endswith(".lean")]
    for fn in files:
        incomment = False
        for i, line in enumerate(open(fn, encoding="utf-8"), 1):
            s = line
            if "/-" in s:
                incomment = True
            if not incomment and not s.lstrip().startswith("--"):
                code = s.split("--")[0]
                if pat.search(code):
                    bad.append("{}:{}: {}".format(os.path.relpath(fn, C.LEAN), i, s.strip()))
            if "-/" in s:
                incomment = False
    return bad


def write_replay(pid, payload):
    d = os.path.join(C.ROOT, "replays")
    os.makedirs(d, exist_ok=True)
    path = os.path.join(d, "{}-{}.json".format(pid, C.canon_hash(payload)))
    with open(path, "w") as f:
        json.dump(payload, f, indent=1, default=str)
    return os.path.relpath(path, C.ROOT)


def write_evidence(pid, ev):
    d = os.path.join(C.ROOT, "evidence")
    os.makedirs(d, exist_ok=True)
    with open(os.path.join(d, pid + ".json"), "w") as f:
        json.dump(ev, f, indent=1, default=str)


def main():
    ap = argparse.ArgumentParser()
    ap.add_argument("pid")
    ap.add_argument("--tier", default=os.environ.get("VERIF_TIER", "quick"),
                    choices=["quick", "thorough"])
    ap.add_argument("--replay")
    ap.add_argument("--skip-build", action="store_true")
    a = ap.parse_args()
    pid = a.pid.upper()
    try:
        seed = int(os.environ.get("VERIF_SEED", "0"))
    except ValueError:
        seed = 0
    t0 = time.time()
    os.environ.setdefault("MPLBACKEND", "Agg")
    try:
        mod = importlib.import_module("props." + pid.lower())
    except ImportError:
        C.eprint(traceback.format_exc())
        print("no check for", pid)
        return 2
    ctx = Ctx(pid, a.tier, seed)
    findings = load_findings()

    if a.replay:
        with open(a.replay) as f:
            rp = json.load(f)
        # the model driver must correspond to the CURRENT working tree
        import translate
        for sec in translate.SECTIONS.all():
            fname, text, br = translate.SECTIONS[sec]()
            translate.write_if_changed(os.path.join(translate.GEN, fname), text)
        rc, out, _ = C.lake_build(["driver"])
        if rc != 0:
            print("tool failure: model driver does not build")
            return 2
        res = mod.replay(ctx, rp)
        print(json.dumps(res, indent=1, default=str))
        return 1 if res.get("fails") else 0

    broken = []   # human-readable reasons a tie / obligation is broken
    # ---- 1. translate
    ref_same = {}
    try:
        import translate
        report = {}
        # every section is regenerated (the driver links all of them; none may be left over from
        # an earlier run on a different tree); only the property's own sections are judged
        for sec in translate.SECTIONS.all():
            fname, text, br = translate.SECTIONS[sec]()
            translate.write_if_changed(os.path.join(translate.GEN, fname), text)
            if sec not in mod.SECTIONS:
                continue
            report[sec] = br
            try:
                with open(os.path.join(C.LEAN, "Reference", fname)) as rf:
                    ref_same[fname] = (rf.read() == text)
            except FileNotFoundError:
                ref_same[fname] = None
            for b in br:
                broken.append("translator[{}]: {}".format(sec, b))
    except Exception:
        C.eprint(traceback.format_exc())
        broken.append("translator crashed: " + traceback.format_exc().splitlines()[-1])
        report = {}

    # ---- 2. prove
    obligations = list(mod.THEOREMS)
    discharged = []
    build_log = ""
    try:
        rc, out, dt = C.lake_build(list(mod.LEAN_MODULES) + ["driver"])
        build_log = out
        if rc != 0:
            errs = [l for l in out.splitlines() if l.startswith("error:")][:12]
            broken.append("lake build failed: " + " | ".join(errs))
            # the driver may still be buildable on its own (model without proofs)
            rc2, out2, _ = C.lake_build(["driver"])
            if rc2 != 0:
                broken.append("model driver does not build")
        ok_a, axioms, aout = audit(mod, obligations) if rc == 0 else (False, {}, "")
        if rc == 0:
            for t in obligations:
                if t in axioms and set(axioms[t]) <= C.STD_AXIOMS:
                    discharged.append(t)
                else:
                    broken.append("theorem {} not discharged / non-standard axioms: {}".format(
                        t, axioms.get(t)))
        if rc == 0 and a.tier == "thorough":
            # independent re-check of the compiled proofs by the toolchain's leanchecker
            mods_ = list(mod.LEAN_MODULES) + list(getattr(mod, "LEMMA_MODULES", []))
            with C.Lake():
                pc = subprocess.run(["lake", "env", "leanchecker"] + mods_, cwd=C.LEAN,
                                    capture_output=True, text=True, timeout=3000)
            ctx.notes.append("leanchecker {}: rc={}".format(" ".join(mods_), pc.returncode))
            if pc.returncode != 0:
                broken.append("leanchecker rejected {}: {}".format(mods_, (pc.stdout + pc.stderr)[-500:]))
        forb = grep_forbidden(mod)
        for b in forb:
            broken.append("forbidden construct: " + b)
    except subprocess.TimeoutExpired:
        print("tool timeout in lake build")
        return 2
    except Exception:
        C.eprint(traceback.format_exc())
        print("tool failure in proof step")
        return 2

    failures = []
    # ---- 3a. corpus (runs first, in a clean session): concrete inputs on which the property failed under a past (seeded or
    # genuine) defect; each is re-executed on the current tree through the module's replay()
    corpus_dir = os.path.join(C.ROOT, "corpus", pid)
    corpus_n = 0
    if os.path.isdir(corpus_dir) and hasattr(mod, "replay") and os.path.exists(C.DRIVER):
        for fn in sorted(os.listdir(corpus_dir)):
            if not fn.endswith(".json"):
                continue
            try:
                with open(os.path.join(corpus_dir, fn)) as f:
                    rp = json.load(f)
                if "failure" not in rp:
                    continue        # module-specific corpus format, handled by the module itself
                corpus_n += 1
                r = mod.replay(ctx, rp)
                if r.get("fails"):
                    fs = r.get("failures") or [dict(rp["failure"])]
                    for f0 in fs[:1]:
                        # keep the stored record replayable (its input), refresh what is reported
                        f1 = dict(rp["failure"])
                        f1.update({k: v for k, v in f0.items() if k in (
                            "signature", "what", "impl", "expected", "clause", "oracle", "kind")})
                        f1["what"] = "corpus case {}: {}".format(fn, f0.get("what", ""))
                        failures.append(f1)
            except Exception:
                C.eprint(traceback.format_exc())
                broken.append("corpus case {} could not be replayed: {}".format(
                    fn, traceback.format_exc().splitlines()[-1]))
    ctx.notes.append("corpus cases replayed: {}".format(corpus_n))

    # ---- 3. correspond
    res = {"evaluations": 0, "nontrivial": set(), "samples": [], "distribution": {}}
    try:
        if os.path.exists(C.DRIVER):
            try:
                res = mod.correspond(ctx)
            except INFRA_ERRORS:
                C.eprint(traceback.format_exc())
                C.eprint("infrastructure failure in the correspondence run; retrying once")
                ctx.rng = random.Random((seed * 1000003) ^ hash_str(pid))
                res = mod.correspond(ctx)
            failures += list(res.get("failures", []))
        else:
            broken.append("no model driver binary")
    except INFRA_ERRORS:
        # a dead worker process, exhausted memory or a timeout says nothing about the property
        C.eprint(traceback.format_exc())
        print("tool failure in the correspondence run (infrastructure): " +
              traceback.format_exc().splitlines()[-1])
        return 2
    except Exception:
        C.eprint(traceback.format_exc())
        broken.append("correspondence run crashed: " + traceback.format_exc().splitlines()[-1])

    # ---- 4. decide
    # "implementation output = model output" accuses the code only while the model is proved
    # correct; with a broken obligation a mismatch is a broken correspondence, and the search
    # below (independent oracles) has to find the failing input
    if broken:
        for f in failures:
            if f.get("oracle") != "independent":
                f["kind"] = "disagreement"
    searched = None
    if (broken or failures) and hasattr(mod, "search"):
        try:
            searched = mod.search(ctx, broken)
            failures += list(searched.get("failures", []))
        except INFRA_ERRORS:
            C.eprint(traceback.format_exc())
            print("tool failure in the failing-input search (infrastructure): " +
                  traceback.format_exc().splitlines()[-1])
            return 2
        except Exception:
            C.eprint(traceback.format_exc())
            broken.append("failing-input search crashed: " + traceback.format_exc().splitlines()[-1])

    known, unknown = [], []
    seen = set()
    for f in failures:
        k = match_finding(findings, pid, f)
        if k:
            if k["id"] not in seen:
                seen.add(k["id"])
                known.append((k, f))
        else:
            unknown.append(f)

    for k, f in known:
        print("KNOWN-FINDING: property={} {}".format(pid, k["what"]))

    rcode = 0
    replay_path = None
    if unknown:
        # prefer genuine property failures over bare model/implementation disagreements
        # ... and, where a check re-runs its failures in a new interpreter, those that reproduce from
        # the replay file alone over those that were only seen in the session of this run
        unknown.sort(key=lambda f: (0 if f.get("kind", "violation") == "violation" else 1,
                                    1 if f.get("standalone") in ("unverified", "not-reproduced") else 0,
                                    len(json.dumps(f.get("input", ""), default=str))))
        if getattr(mod, "CLEANROOM", False):
            # the replay file must reproduce STAND-ALONE (in a new process).  A failing input
            # found late in a long run may owe its failure to state that earlier cases left in a
            # changed library (a cache, a shared object): each candidate is replayed in a clean
            # room; the first that fails there is reported, refuted ones are demoted
            refuted = confirmed = 0
            for f in unknown:
                f.pop("reproduces_alone", None)     # a corpus record may carry the flag of its own run
            try:
                with C.CleanRoom("props." + pid.lower()) as room:
                    # order of trial: the five shortest plain inputs, then the inputs that carry
                    # their own history, then the rest
                    plain = [f for f in unknown if not f.get("carries_history")]
                    for f in plain[:5] + [f for f in unknown if f.get("carries_history")] + plain[5:]:
                        if f.get("kind", "violation") != "violation" or refuted >= 40:
                            continue
                        if room.replay(f).get("fails"):
                            f["reproduces_alone"] = True
                            confirmed = 1
                            break
                        refuted += 1
                        f["kind"] = "not-reproducible-alone"
                        f["note"] = ("fails inside the run (after other cases in the same process) "
                                     "but not when replayed alone in a new process")
            except Exception:
                C.eprint(traceback.format_exc())
            ctx.notes.append("clean-room confirmation of the reported input: {} refuted, {} "
                             "confirmed".format(refuted, confirmed))
            unknown.sort(key=lambda f: (0 if f.get("reproduces_alone") else 1,
                                        0 if f.get("kind", "violation") == "violation" else 1,
                                        len(json.dumps(f.get("input", ""), default=str))))
        f = unknown[0]
        genuine = f.get("kind", "violation") == "violation"
        payload = {"property": pid, "seed": seed, "tier": a.tier, "failure": f,
                   "other_failures": len(unknown) - 1, "broken": broken,
                   "how_to_rerun": "./check {} --replay <this file>".format(pid)}
        if not genuine:
            payload["note"] = ("model and implementation disagree (correspondence broken) and no "
                               "input was found on which the property itself fails")
            payload["no_longer_checks"] = ["correspondence:" + pid] + broken
        replay_path = write_replay(pid, payload)
        print("VIOLATION property={} replay={}{}".format(
            pid, replay_path, "" if genuine else " no-failing-input-found"))
        rcode = 1
    elif broken:
        payload = {"property": pid, "seed": seed, "tier": a.tier,
                   "no_longer_checks": broken, "build_log_tail": build_log[-4000:],
                   "search": {k: v for k, v in (searched or {}).items() if k != "failures"},
                   "note": "a proof obligation or the translator/correspondence tie is broken; the "
                           "search found no concrete input on which the property fails"}
        replay_path = write_replay(pid, payload)
        print("VIOLATION property={} replay={} no-failing-input-found".format(pid, replay_path))
        rcode = 1

    wall = time.time() - t0
    nontriv = res.get("nontrivial", set())
    ev = {
        "property_id": pid, "tier": a.tier, "seed": seed, "level": "proof",
        "coverage": {
            "obligations": len(obligations), "discharged": len(discharged),
            "checker_cmd": "cd lean && lake build {} && lake env lean QExPy/Audit/{}.lean".format(
                " ".join(mod.LEAN_MODULES), pid),
            "trusted_base": [
                "Lean 4.33 kernel; axioms per theorem: " + json.dumps(
                    {t.split(".")[-1]: axioms.get(t) for t in obligations}) if obligations else
                "no theorem",
                "translator vf/translate.py sections " + json.dumps(mod.SECTIONS),
                "correspondence harness vf/props/{}.py (tolerance: FB running error bound)".format(
                    pid.lower()),
            ] + list(getattr(mod, "TRUSTED", [])),
            "theorems": obligations,
            "translator_broken": report,
            "generated_equals_reference": ref_same,
            "evaluations": int(res.get("evaluations", 0)),
            "distinct_nontrivial": len(nontriv) if not isinstance(nontriv, int) else nontriv,
            "rule": getattr(mod, "RULE", ""),
            "samples": res.get("samples", [])[:5] or ["(no case generated)"],
            "traces_validated_against_impl": int(res.get("evaluations", 0)),
            "disagreements_checked": len(failures),
            "distribution": res.get("distribution", {}),
            "skipped_ill_conditioned": res.get("skipped", 0),
            "exhaustive": bool(res.get("exhaustive", False)),
            "search": {k: v for k, v in (searched or {}).items() if k != "failures"},
            "known_findings_seen": [k["id"] for k, _ in known],
            "notes": ctx.notes,
        },
        "assumptions": list(getattr(mod, "ASSUMPTIONS", [])),
        "wall_s": round(wall, 2),
        "violations": 0 if rcode == 0 else 1,
    }
    if len(discharged) < max(1, len(obligations)):
        # not a proof-level run any more: keep the schema's generic fallback keys only
        cov = ev["coverage"]
        cov["obligations_total"] = cov.pop("obligations")
        cov["discharged_count"] = cov.pop("discharged")
        cov["evaluations"] = max(1, cov["evaluations"])
    write_evidence(pid, ev)
    print("{} {} tier={} seed={} obligations={}/{} cases={} nontrivial={} failures={} "
          "known={} wall={:.1f}s".format(
              pid, "OK" if rcode == 0 else "FAIL", a.tier, seed, len(discharged),
              len(obligations), ev["coverage"]["evaluations"],
              ev["coverage"]["distinct_nontrivial"], len(unknown), len(known), wall))
    return rcode


if __name__ == "__main__":
    try:
        sys.exit(main())
    except subprocess.TimeoutExpired:
        print("tool timeout")
        sys.exit(2)
    except Exception:
        traceback.print_exc()
        sys.exit(2)

"""Seeded generator of fit problems (C06, C07) and the runner of the real library on them.

A case is a plain JSON-able dict (floats as Python floats: json round-trips them exactly):
  model     "linear" | "quadratic" | "polynomial" | "exponential" | "gaussian" | "custom:<name>"
  degree    polynomial degree (linear 1, quadratic 2)
  x, y      data (distinct x, more points than parameters)
  xerr,yerr None | number (common) | list (per point)
  xrange    None | [lo, hi]
  form      how the data are handed to the library
  parguess  start values for non-polynomial models (within ~10 % of the generating values)
  ptrue     generating parameters;  noise_free: y is exactly the model at ptrue
  xs        evaluation points for fit_function
  sx        how the x-uncertainties were chosen: none | common | point | zeros (per point, some
            exactly 0) | one (exactly one point has one) | edit (a common value on a
            MeasurementArray / XYDataSet, one element set to 0 afterwards: `xerr_edit`)
  scale     [xs, ys]: the whole problem was rescaled (x by xs, y by ys, uncertainties, parameters,
            ranges accordingly) from a problem of order one
  types     (typed cases, gen_typed) the numeric TYPE of every number handed to the library and the
            ROUTE by which the uncertainties reach the measurements; all numbers of such a case are
            whole (or multiples of 1/4), so every type represents them exactly -- see TYPE NOTES
  faults    rejected requests sent with the case's own data objects BEFORE the judged fit (FAULT NOTES)
  equal_params  the generating parameters (= the exact guess of noise-free data) are equal (EQUAL NOTES)
  rep       (gen_repeated) y (and x) points recorded as repeated measurements: the readings, how
            value and uncertainty are chosen; case["y"] / case["yerr"] are the value and the
            uncertainty of each point as the harness computes them from the readings
  signs     which parameters of the generating set were mirrored to the other, equivalent or
            negative, branch (gaussian std -> -std, sine (a, b) -> (-a, -b), negative amplitudes)
"""
import math
import warnings

from common import bits

PRESET_POLY = ("linear", "quadratic", "polynomial")
FORMS = ("lists", "arrays", "marrays", "xyds", "xyds.fit", "kwargs", "enum", "xyds.marrays", "derived",
         "plot.fit")
# xyds.marrays: XYDataSet built from two MeasurementArrays that carry the uncertainties themselves
# (no xerr=/yerr= keyword); derived: y is an array of DerivedValues (a MeasurementArray + 0, or half
# the values times 2 -- both exact in binary floating point); plot.fit: the data are put on a Plot
# (qexpy.plotting.plot(x, y, xerr=, yerr=)) and fitted with Plot.fit(model, ...)


def _c(v):
    return ["const", bits(v)]


# user models: the Python callable (built on the real library's functions) and the same formula
# as a node list for the Lean driver; variables 0..m-1 are the parameters, variable m is x
CUSTOM = {
    "sine": {"m": 2, "py": lambda q: (lambda x, a, b: a * q.sin(b * x)),
             "nodes": [["var", 0], ["var", 1], ["var", 2], ["bin", "mul", 1, 2], ["un", "sin", 3],
                       ["bin", "mul", 0, 4]], "root": 5,
             "ref": lambda x, a, b: a * math.sin(b * x)},
    "growth": {"m": 2, "py": lambda q: (lambda x, a, b: a * q.exp(b * x)),
               "nodes": [["var", 0], ["var", 1], ["var", 2], ["bin", "mul", 1, 2], ["un", "exp", 3],
                         ["bin", "mul", 0, 4]], "root": 5,
               "ref": lambda x, a, b: a * math.exp(b * x)},
    "lorentz": {"m": 2, "py": lambda q: (lambda x, a, b: a / (1 + b * x ** 2)),
                "nodes": [["var", 0], ["var", 1], ["var", 2], _c(2.0), ["bin", "pow", 2, 3],
                          ["bin", "mul", 1, 4], _c(1.0), ["bin", "add", 6, 5], ["bin", "div", 0, 7]],
                "root": 8,
                "ref": lambda x, a, b: a / (1 + b * x ** 2)},
}

CUSTOM["decay"] = {"m": 2, "py": lambda q: (lambda x, a, b: a * q.exp(-(b * x))),
                   "nodes": [["var", 0], ["var", 1], ["var", 2], ["bin", "mul", 1, 2], ["un", "neg", 3],
                             ["un", "exp", 4], ["bin", "mul", 0, 5]], "root": 6,
                   "ref": lambda x, a, b: a * math.exp(-(b * x))}
# a peak whose POSITION is a parameter (as for the Gaussian): a / (1 + ((x - m)/w)^2)
CUSTOM["lpeak"] = {"m": 3, "py": lambda q: (lambda x, a, m, w: a / (1 + ((x - m) / w) ** 2)),
                   "nodes": [["var", 0], ["var", 1], ["var", 2], ["var", 3], ["bin", "sub", 3, 1],
                             ["bin", "div", 4, 2], _c(2.0), ["bin", "pow", 5, 6], _c(1.0),
                             ["bin", "add", 8, 7], ["bin", "div", 0, 9]], "root": 10,
                   "ref": lambda x, a, m, w: a / (1 + ((x - m) / w) ** 2)}


# user models that are polynomials in x but NOT the pre-set ones: the parameters in the order a user
# writes them (constant term first), a power left out.  A user function is fitted as what it
# computes, whatever it is called (CALLABLE NOTES below).
CUSTOM["affine"] = {"m": 2, "py": lambda q: (lambda x, offset, gain: offset + gain * x),
                    "nodes": [["var", 0], ["var", 1], ["var", 2], ["bin", "mul", 1, 2],
                              ["bin", "add", 0, 3]], "root": 4,
                    "ref": lambda x, offset, gain: offset + gain * x}
CUSTOM["parabola"] = {"m": 2, "py": lambda q: (lambda x, a, c: a * x ** 2 + c),
                      "nodes": [["var", 0], ["var", 1], ["var", 2], _c(2.0), ["bin", "pow", 2, 3],
                                ["bin", "mul", 0, 4], ["bin", "add", 5, 1]], "root": 6,
                      "ref": lambda x, a, c: a * x ** 2 + c}
CUSTOM["cubic0"] = {"m": 3, "py": lambda q: (lambda x, c, b, a: c + b * x + a * x ** 3),
                    "nodes": [["var", 0], ["var", 1], ["var", 2], ["var", 3], ["bin", "mul", 1, 3],
                              ["bin", "add", 0, 4], _c(3.0), ["bin", "pow", 3, 6], ["bin", "mul", 2, 7],
                              ["bin", "add", 5, 8]], "root": 9,
                    "ref": lambda x, c, b, a: c + b * x + a * x ** 3}
POLY_LIKE = ("custom:affine", "custom:parabola", "custom:cubic0")


def custom_spec(case_or_model, case=None):
    """the user model of a case.  `custom:<name>` is an entry of CUSTOM; `custom:o<name>` is the
    same formula in the variable (x - x0) with the constant x0 = case["x0"] written into the
    callable (a user who measures from an epoch: abscissae with a large offset, parameters of
    order one)"""
    if isinstance(case_or_model, dict):
        case = case_or_model
        model = case["model"]
    else:
        model = case_or_model
    name = model[7:]
    if name in CUSTOM:
        return CUSTOM[name]
    if not (name.startswith("o") and name[1:] in CUSTOM and case is not None and "x0" in case):
        raise KeyError(model)
    base = CUSTOM[name[1:]]
    x0 = float(case["x0"])
    m = base["m"]

    def shift(n):
        if n[0] == "var" and n[1] == m:
            return ["bin", "sub", 0, 1]
        if n[0] in ("var", "const"):
            return list(n)
        return list(n[:2]) + [k + 2 for k in n[2:]]
    nodes = [["var", m], _c(x0)] + [shift(n) for n in base["nodes"]]

    def py(q):
        f = base["py"](q)
        if m == 2:
            return lambda x, a, b: f(x - x0, a, b)
        return lambda x, a, b, c: f(x - x0, a, b, c)
    return {"m": m, "py": py, "nodes": nodes, "root": base["root"] + 2,
            "ref": lambda x, *p: base["ref"](x - x0, *p)}


# closed forms of the pre-set models, written from the documentation (independent oracle for the
# failing-input search: highest power first for polynomials)
REF = {
    "linear": lambda x, a, b: a * x + b,
    "quadratic": lambda x, a, b, c: a * x * x + b * x + c,
    "polynomial": lambda x, *cs: sum(c * x ** (len(cs) - 1 - k) for k, c in enumerate(cs)),
    "exponential": lambda x, c, a: c * math.exp(-a * x),
    "gaussian": lambda x, n, mu, sd: n / math.sqrt(2 * math.pi * sd * sd) * math.exp(
        -0.5 * (x - mu) ** 2 / (sd * sd)),
}


def ref_fn(model, case=None):
    if isinstance(model, dict):
        model, case = model["model"], model
    if model.startswith("custom:"):
        return custom_spec(model, case)["ref"]
    return REF[model]


def n_params(case):
    m = case["model"]
    if m in PRESET_POLY:
        return case["degree"] + 1
    if m.startswith("custom:"):
        return custom_spec(case)["m"]
    return {"exponential": 2, "gaussian": 3}[m]


def distinct_xs(rng, n, lo, hi):
    """n distinct abscissae in [lo, hi): jittered grid, shuffled or sorted"""
    step = (hi - lo) / n
    xs = [lo + (i + rng.uniform(0.1, 0.9)) * step for i in range(n)]
    xs = [round(v, rng.choice((2, 3, 6))) for v in xs]
    xs = sorted(set(xs))
    if rng.random() < 0.3:
        rng.shuffle(xs)
    return xs


ZERO_SX = ("zeros", "one", "edit")     # per-point x-uncertainties some of which are exactly 0


def err_pattern(rng, kind, n, scale):
    if kind == "none":
        return None
    if kind == "common":
        return round(scale * rng.uniform(0.5, 2.0), 6)
    if kind == "one":
        # exactly one point carries an x-uncertainty (a large one, so that it matters)
        e = [0.0] * n
        e[rng.randrange(n)] = round(scale * rng.uniform(2.0, 6.0), 6)
        return e
    if kind == "edit":
        # a common value, one element exactly known (set to 0 after construction where the form
        # allows it, see call_fit)
        e = [round(scale * rng.uniform(1.0, 3.0), 6)] * n
        e[rng.randrange(n)] = 0.0
        return e
    # per point, spread up to x20
    e = [round(scale * 20 ** rng.uniform(-0.5, 0.5), 6) for _ in range(n)]
    if kind == "yzeros":
        # sigma_y: a few ordinates exactly known (C07 only: chi-squared skips them)
        for i in rng.sample(range(n), rng.randint(1, 3)):
            e[i] = 0.0
    if kind == "zeros":
        # some (at least one, not all but two) of the abscissae are exactly known
        k = rng.randint(1, max(1, n - 2))
        if rng.random() < 0.5:
            k = min(k, 3)
        for i in rng.sample(range(n), k):
            e[i] = 0.0
    return e


def as_list(e, n):
    if e is None:
        return [0.0] * n
    if isinstance(e, (int, float)):
        return [float(e)] * n
    return [float(v) for v in e]


def gen_case(rng, family=None, noise_free=None, form=None, want_range=None, degree=None,
             sx=None, sy=None, units=None, guess=None):
    family = family or rng.choice(["linear", "quadratic", "polynomial", "polynomial", "exponential",
                                   "gaussian", "custom:sine", "custom:growth", "custom:lorentz"] * 3
                                  + list(POLY_LIKE))
    case = {"model": family, "form": form or rng.choice(FORMS)}
    if family.startswith("custom:") and rng.random() < 0.6:
        case["callable"] = gen_callable(rng)
    poly = family in PRESET_POLY
    if poly:
        d = {"linear": 1, "quadratic": 2}.get(family) or degree or rng.randint(1, 5)
        case["degree"] = d
        m = d + 1
        n = rng.randint(m + 2, 30)
        lo = rng.choice([-3.0, -1.0, 0.0, 0.5])
        xs = distinct_xs(rng, n, lo, lo + rng.choice([2.0, 4.0, 6.0]))
        ptrue = [round(rng.uniform(-2, 2), 3) for _ in range(m)]
        if abs(ptrue[0]) < 0.1:
            ptrue[0] = 0.5
        f = REF["polynomial"]
        ys0 = [f(x, *ptrue) for x in xs]
        scale = 0.02 * (max(abs(v) for v in ys0) + 0.1)
        skind = sy or rng.choice(["none", "common", "point", "point"])
        xkind = sx or rng.choice(["none", "none", "common", "zeros"])    # ignored by polynomial fits
        noise_free = False
        if guess is None:
            guess = rng.random() < 0.25
        if guess:
            # the documented `parguess` keyword on a closed-form fit: it has no influence on the
            # least-squares solution (a list or a tuple, see call_fit; any numbers will do)
            t = rng.random()
            case["parguess"] = ([1.0] * m if t < 0.3 else [0.0] * m if t < 0.4 else
                                [v * (1 + rng.uniform(-0.3, 0.3)) + rng.uniform(-0.5, 0.5)
                                 for v in ptrue])
            case["guess_kind"] = rng.choice(["list", "tuple"])
            # `degrees` may be left out for the default degree 3 (any other length of parguess is
            # rejected without it)
            case["degrees_kw"] = not (family == "polynomial" and d == 3 and rng.random() < 0.5)
    else:
        n = rng.randint(8, 24)
        if family == "exponential":
            ptrue = [round(rng.uniform(0.5, 5), 3), round(rng.uniform(0.2, 1.5), 3)]
            xs = distinct_xs(rng, n, rng.choice([0.0, 0.2, -0.5]), rng.choice([2.5, 4.0]))
        elif family == "gaussian":
            mu = round(rng.uniform(-1, 3), 3)
            sd = round(rng.uniform(0.5, 2.0), 3)
            ptrue = [round(rng.uniform(1, 10), 3), mu, sd]
            xs = distinct_xs(rng, n, mu - 2.5 * sd, mu + 2.5 * sd)
        elif family == "custom:sine":
            ptrue = [round(rng.uniform(0.5, 3), 3), round(rng.uniform(0.5, 1.5), 3)]
            xs = distinct_xs(rng, n, 0.2, 4.0)
        elif family == "custom:growth":
            ptrue = [round(rng.uniform(0.5, 3), 3), round(rng.uniform(0.2, 0.9), 3)]
            xs = distinct_xs(rng, n, 0.0, 3.0)
        elif family == "custom:decay":
            ptrue = [round(rng.uniform(0.5, 5), 3), round(rng.uniform(0.2, 1.5), 3)]
            xs = distinct_xs(rng, n, rng.choice([0.0, 0.2, -0.5]), rng.choice([2.5, 4.0]))
        elif family == "custom:lpeak":
            mu = round(rng.uniform(-1, 3), 3)
            w = round(rng.uniform(0.5, 2.0), 3)
            ptrue = [round(rng.uniform(1, 10), 3), mu, w]
            xs = distinct_xs(rng, n, mu - 3.0 * w, mu + 3.0 * w)
        elif family == "custom:cubic0":
            ptrue = [round(rng.uniform(1, 5), 3), round(rng.uniform(0.3, 2.0), 3),
                     round(rng.uniform(0.3, 2.0), 3)]
            xs = distinct_xs(rng, n, -2.0, 3.0)
        else:
            ptrue = [round(rng.uniform(1, 5), 3), round(rng.uniform(0.3, 2.0), 3)]
            xs = distinct_xs(rng, n, -2.0, 3.0)
        n = len(xs)
        f = ref_fn(family)
        ys0 = [f(x, *ptrue) for x in xs]
        scale = 0.01 * (max(abs(v) for v in ys0) + 0.05)
        skind = sy or rng.choice(["none", "common", "point", "point"])
        xkind = sx or rng.choice(["none", "common", "point", "point", "zeros", "one", "edit"])
        if skind == "yzeros":
            # only well-posed when every point still has s_i > 0: all sigma_x positive
            xkind = sx if sx in ("common", "point") else rng.choice(["common", "point"])
        if xkind in ZERO_SX and skind == "none":
            # a point with sigma_x = 0 and no sigma_y would have s_i = 0: not a least-squares problem
            skind = rng.choice(["common", "point"])
        if noise_free is None:
            noise_free = rng.random() < 0.25
        case["parguess"] = [v * (1 + rng.uniform(-0.1, 0.1)) + rng.uniform(-0.02, 0.02)
                            for v in ptrue]
    n = len(xs)
    yerr = err_pattern(rng, skind, n, scale)
    dx = (max(xs) - min(xs)) / n
    xerr = err_pattern(rng, xkind, n, 0.08 * dx)
    if noise_free:
        ys = list(ys0)
    else:
        # scatter consistent with the stated uncertainties: sd_i^2 = sigma_y^2 + (f'(x_i) sigma_x)^2
        # (a nominal scatter when no uncertainty is stated)
        sig = as_list(yerr, n)
        if not poly and xerr is not None:
            h = 1e-6
            slope = [(f(x + h, *ptrue) - f(x - h, *ptrue)) / (2 * h) for x in xs]
            sig = [math.hypot(s, sl * e) for s, sl, e in zip(sig, slope, as_list(xerr, n))]
        if yerr is None and (poly or xerr is None):
            sig = [scale] * n
        ys = [round(v + rng.gauss(0, 1) * s, 6) for v, s in zip(ys0, sig)]
    case.update({"x": xs, "y": ys, "xerr": xerr, "yerr": yerr, "ptrue": ptrue,
                 "noise_free": bool(noise_free), "sx": xkind, "sy": skind})
    # x-range: none, or a window whose bounds may coincide with data points
    if want_range is None:
        want_range = rng.random() < 0.35
    case["xrange"] = None
    if want_range:
        m = n_params(case)
        sx_ = sorted(xs)
        for _ in range(20):
            i = rng.randint(0, max(0, n - m - 2))
            j = rng.randint(min(n - 1, i + m + 1), n - 1)
            lo = sx_[i] if rng.random() < 0.6 else sx_[i] - rng.uniform(0, 0.5) * dx
            if j == n - 1 and rng.random() < 0.5:
                hi = sx_[j] + 0.5 * dx
            else:
                hi = sx_[j] if rng.random() < 0.6 else sx_[j] - rng.uniform(0, 0.4) * dx
            cnt = sum(1 for v in xs if lo <= v < hi)
            # non-polynomial models: keep enough of the curve for the optimum to be well defined
            need = m + 2 if poly else max(m + 4, (3 * n + 4) // 5)
            if cnt >= need:
                case["xrange"] = [lo, hi]
                break
    a, b = min(xs), max(xs)
    case["xs"] = [round(rng.uniform(a - 0.1 * (b - a), b + 0.1 * (b - a)), 4) for _ in range(4)]
    if xkind == "edit":
        i0 = xerr.index(0.0)
        case["xerr_edit"] = {"common": max(xerr), "zero_at": i0,
                             "how": rng.choice(["error=", "item=", "tuple="])}
    case["pscale"] = [1.0] * len(ptrue)
    if rng.random() < 0.25:
        case["parnames"] = gen_parnames(rng, len(ptrue))
    if units is not None and (units[0] != 1.0 or units[1] != 1.0):
        rescale(case, float(units[0]), float(units[1]))
    return case


def gen_parnames(rng, m):
    """the documented `parnames` keyword: names in an order that is not the alphabetical one, names
    of pre-set models, the name a neighbour has by default; the order of the returned parameters
    is the model's, whatever they are called"""
    pools = (["z", "y", "x", "w", "v", "u"], ["offset", "gain", "curvature", "d", "e", "f"],
             ["b", "a", "d", "c", "f", "e"], ["linear", "quadratic", "custom", "c", "b", "a"],
             ["slope", "intercept", "p2", "p3", "p4", "p5"])
    return list(rng.choice(pools)[:m])


# ---------------------------------------------------------------------------------------------
# FAULT NOTES (requests that are rejected BEFORE the judged fit).  Wherever the data are objects of
# the caller (MeasurementArrays, numpy arrays, the lists themselves) the fit API takes uncertainties
# by keyword and writes them onto those objects.  A request that is rejected must leave them as they
# were: the next, ordinary fit of the same objects is the weighted optimum for the data the user
# HAS.  case["faults"] is a list of [entry, kind, other]:
#   entry  "fit" (q.fit(x, y, model, xerr=, yerr=)) | "fit-kw" (xdata=, ydata= keywords) |
#          "xyds" (q.XYDataSet(x, y, xerr=, yerr=)) | "xyds-kw"
#   kind   which side is invalid and how: "<side>-short" / "<side>-long" (a list of the wrong
#          length), "<side>-negative" (one negative entry), "<side>-negative-scalar", side = yerr | xerr
#   other  the VALID uncertainty given for the other side in the same request (a number, a list, or
#          None): the part of the request that a library may already have carried out
# Must-be-rejected is decided here (wrong length / a negative uncertainty); a request the library
# accepts is logged as "accepted" and the case is counted as skipped, not judged.
FAULT_ENTRIES = ("fit", "fit-kw", "xyds", "xyds-kw")
FAULT_KINDS = ("yerr-short", "yerr-long", "yerr-negative", "yerr-negative-scalar",
               "xerr-short", "xerr-long", "xerr-negative", "xerr-negative-scalar")
FAULT_FORMS = ("marrays", "xyds.marrays", "arrays", "lists")


def gen_faults(rng, case, entry=None, kind=None, count=None):
    """rejected requests on the case's own data objects, in units of the case's data"""
    n = len(case["x"])
    dx = (max(case["x"]) - min(case["x"])) / n
    ymag = max(abs(v) for v in case["y"]) or 1.0
    out = []
    for k in range(count or rng.choice([1, 1, 2])):
        kd = kind if (kind and k == 0) else rng.choice(FAULT_KINDS)
        side = kd[:4]
        # the valid part: of the size of the spacing of the points / a few per cent of y (large
        # against the case's own uncertainties, so that a request carried out half-way is visible)
        if side == "yerr":
            v = dx * rng.uniform(0.5, 2.0)
        else:
            v = 0.05 * ymag * rng.uniform(0.5, 2.0)
        t = rng.random()
        other = None if t < 0.1 else v if t < 0.6 else [v * (1 + 0.5 * (i % 3)) for i in range(n)]
        out.append([entry if (entry and k == 0) else rng.choice(FAULT_ENTRIES), kd, other])
    return out


def add_faults(rng, case, **kw):
    case["faults"] = gen_faults(rng, case, **kw)
    return case


def fault_request(case, fault):
    """-> (entry, xerr, yerr) of a request the harness knows must be rejected"""
    entry, kind, other = fault
    n = len(case["x"])
    side, _, how = kind.partition("-")
    base = (0.05 * (max(abs(v) for v in case["y"]) or 1.0)) if side == "yerr" else \
        0.1 * (max(case["x"]) - min(case["x"])) / n
    if how == "short":
        bad = [base] * (n - 1)
    elif how == "long":
        bad = [base] * (n + 1)
    elif how == "negative":
        bad = [base] * n
        bad[(n // 2) if n % 2 else 0] = -base
    elif how == "negative-scalar":
        bad = -base
    else:
        raise KeyError(kind)
    return (entry, other, bad) if side == "yerr" else (entry, bad, other)


def apply_faults(q, case, xa, ya, model, log):
    """send the rejected requests of the case with the caller's data objects xa, ya"""
    for fault in case.get("faults") or []:
        entry, xerr, yerr = fault_request(case, fault)
        ek = {}
        if xerr is not None:
            ek["xerr"] = xerr
        if yerr is not None:
            ek["yerr"] = yerr
        try:
            if entry == "fit":
                q.fit(xa, ya, model, **ek)
            elif entry == "fit-kw":
                q.fit(xdata=xa, ydata=ya, model=model, **ek)
            elif entry == "xyds":
                q.XYDataSet(xa, ya, **ek)
            elif entry == "xyds-kw":
                q.XYDataSet(xdata=xa, ydata=ya, **ek)
            else:
                raise KeyError(entry)
            log.append([entry, fault[1], "accepted"])
        except KeyError:
            raise
        except Exception as e:  # noqa: BLE001  (the request is invalid: any rejection will do)
            log.append([entry, fault[1], type(e).__name__])


# EQUAL NOTES.  Two parameters of one fit may come out with EXACTLY the same central value (slope
# and intercept both 2.0).  They are still different quantities with the covariance the fit found.
# Such results are produced deliberately: a user model that is a polynomial in x (exact arithmetic
# on a grid of halves with parameters in quarters), noise-free data and the exact guess -- the
# residual vector is exactly 0, so the optimiser returns the guess bit for bit.  Variants: all
# parameters equal; exactly two of three equal; equal magnitude with opposite sign (the near miss).
# Excluded, with the reason: the pre-set exponential / Gaussian and the transcendental user models --
# the harness's math.exp and numpy's exp may differ in the last bit, the residual is then not
# exactly 0 and the optimiser moves the parameters apart in the last bits; polyfit never returns
# exactly equal coefficients.
EQUAL_VARIANTS = ("all", "all", "pair", "negated")


def gen_equal_params(rng, family=None, variant=None, form=None, sy=None):
    family = family or rng.choice(POLY_LIKE)
    variant = variant or rng.choice(EQUAL_VARIANTS)
    case = gen_case(rng, family=family, noise_free=True, sx="none", sy=sy or rng.choice(["common", "point"]),
                    want_range=False, form=form)
    m = n_params(case)
    v = rng.choice([2.0, 1.0, 0.5, 3.0, -1.5, 1.25, -2.0])
    ptrue = [v] * m
    if variant == "negated":
        ptrue[rng.randrange(m)] = -v
    elif variant == "pair" and m >= 3:
        ptrue[rng.randrange(m)] = v + rng.choice([0.25, -0.5, 1.0])
    n = rng.randint(m + 4, 14)
    grid = [k * 0.5 for k in range(-6, 13)]
    rng.shuffle(grid)
    xs = grid[:n]
    if rng.random() < 0.5:
        xs.sort()
    f = ref_fn(case)
    ys = [f(x, *ptrue) for x in xs]
    ymag = max(abs(y) for y in ys) or 1.0
    s0 = 2.0 ** round(math.log2(0.05 * ymag))
    yerr = s0 if case["sy"] == "common" else [s0 * (1 + (i % 3)) for i in range(n)]
    case.update({"x": xs, "y": ys, "xerr": None, "yerr": yerr, "ptrue": list(ptrue),
                 "parguess": list(ptrue), "equal_params": variant, "noise_free": True,
                 "xs": [rng.choice(grid) + rng.choice([0.0, 0.25]) for _ in range(4)],
                 "pscale": [1.0] * m, "xrange": None})
    case.pop("xerr_edit", None)
    return case


SCALES = (1e-12, 1e-6, 1e-3, 1.0, 1e3, 1e6, 1e12)


def gen_centred(rng, units=None):
    """straight-line fit on abscissae (almost) symmetric about 0: slope and intercept are (almost)
    uncorrelated -- correlation -mean(x)/rms(x) = 1e-7 ... 1e-2 in magnitude, small but not 0"""
    n = rng.randint(3, 9) * 2
    half = [round((i + rng.uniform(0.2, 0.8)) * 0.5, 3) for i in range(n // 2)]
    rms = math.sqrt(sum(v * v for v in half) / len(half))
    shift = rng.choice([1.0, -1.0]) * rms * 10 ** rng.uniform(-7, -2)
    xs = sorted([-v + shift for v in half] + [v + shift for v in half])
    ptrue = [round(rng.uniform(-2, 2), 3) or 0.5, round(rng.uniform(-2, 2), 3)]
    skind = rng.choice(["none", "common"])
    yerr = err_pattern(rng, skind, n, 0.05)
    ys = [round(ptrue[0] * x + ptrue[1] + rng.gauss(0, 1) * 0.05, 6) for x in xs]
    case = {"model": "linear", "degree": 1, "form": rng.choice(FORMS), "x": xs, "y": ys,
            "xerr": None, "yerr": yerr, "ptrue": ptrue, "noise_free": False, "sx": "none",
            "sy": skind, "xrange": None, "pscale": [1.0, 1.0],
            "xs": [round(rng.uniform(-1, 1) * 2 * rms, 4) for _ in range(4)]}
    if units is not None and (units[0] != 1.0 or units[1] != 1.0):
        rescale(case, float(units[0]), float(units[1]))
    return case


def param_scales(case, xs, ys):
    """factor by which each parameter changes when x is multiplied by xs and y by ys"""
    m = case["model"]
    if m in PRESET_POLY:
        d = case["degree"]
        return [ys / xs ** (d - k) for k in range(d + 1)]
    if m.startswith("custom:o"):
        m = "custom:" + m[8:]
    return {"exponential": [ys, 1 / xs], "gaussian": [ys * xs, xs, xs],
            "custom:sine": [ys, 1 / xs], "custom:growth": [ys, 1 / xs],
            "custom:decay": [ys, 1 / xs], "custom:lpeak": [ys, xs, xs],
            "custom:lorentz": [ys, 1 / xs ** 2], "custom:affine": [ys, ys / xs],
            "custom:parabola": [ys / xs ** 2, ys], "custom:cubic0": [ys, ys / xs, ys / xs ** 3]}[m]


def rescale(case, xs, ys):
    """the same fit problem in other units: x -> xs*x, y -> ys*y (small-unit / large-unit data);
    uncertainties, generating parameters, guesses, range and evaluation points follow"""
    def mul(v, f):
        if v is None:
            return None
        if isinstance(v, (int, float)):
            return v * f
        return [e * f for e in v]
    ps = param_scales(case, xs, ys)
    case["x"], case["xerr"] = mul(case["x"], xs), mul(case["xerr"], xs)
    case["y"], case["yerr"] = mul(case["y"], ys), mul(case["yerr"], ys)
    case["xs"] = mul(case["xs"], xs)
    case["xrange"] = mul(case["xrange"], xs)
    if "x0" in case:
        case["x0"] = case["x0"] * xs
    case["ptrue"] = [p * f for p, f in zip(case["ptrue"], ps)]
    if case.get("parguess") is not None:
        case["parguess"] = [p * f for p, f in zip(case["parguess"], ps)]
    if case.get("xerr_edit"):
        case["xerr_edit"]["common"] = max(case["xerr"])
    case["pscale"] = [abs(f) for f in ps]
    case["scale"] = [xs, ys]
    if case["noise_free"]:
        # exact data must be exact for the scaled parameters too
        f = ref_fn(case)
        case["y"] = [f(x, *case["ptrue"]) for x in case["x"]]
    return case


# ---------------------------------------------------------------------------------------------
# OFFSET data: abscissae with a large offset relative to their span and to the width of the curve
# (a spectral line at 6562.8 with width 0.12; times since an epoch).  |x|/span = `ratio`.

OFFSET_FAMILIES = ("gaussian", "custom:lpeak", "custom:sine", "custom:growth", "custom:decay",
                   "custom:lorentz")


def shift_x(case, X0):
    """the same problem with every abscissa moved by X0.  Models with a position parameter
    (Gaussian mean, peak position) get it moved; the others become the user model in (x - X0)."""
    m = case["model"]
    if m in ("gaussian", "custom:lpeak"):
        for key in ("ptrue", "parguess"):
            case[key] = list(case[key])
            case[key][1] = case[key][1] + X0
    elif m.startswith("custom:") and not m.startswith("custom:o"):
        case["model"] = "custom:o" + m[7:]
        case["x0"] = float(X0)
    else:
        raise ValueError("cannot shift " + m)
    case["x"] = [v + X0 for v in case["x"]]
    case["xs"] = [v + X0 for v in case["xs"]]
    if case["xrange"]:
        case["xrange"] = [v + X0 for v in case["xrange"]]
    if case["model"] in ("gaussian", "custom:lpeak"):
        case["pscale"] = list(case["pscale"])
    f = ref_fn(case)
    if case["noise_free"]:
        case["y"] = [f(x, *case["ptrue"]) for x in case["x"]]
    case["offset"] = float(X0)
    return case


def gen_offset(rng, family=None, ratio=None, units=None, **kw):
    """a non-polynomial fit with x-uncertainties on abscissae whose offset is `ratio` times their
    span (1e2 ... 1e5), noisy y unless asked otherwise"""
    family = family or rng.choice(OFFSET_FAMILIES)
    kw.setdefault("sx", rng.choice(["common", "point", "point", "zeros"]))
    kw.setdefault("noise_free", False)
    case = gen_case(rng, family=family, **kw)
    span = max(case["x"]) - min(case["x"])
    ratio = ratio or 10 ** rng.uniform(2, 5)
    # a short decimal offset (6562, 410000, ...), either sign
    X0 = float("%.3g" % (ratio * span)) * rng.choice([1.0, 1.0, -1.0])
    shift_x(case, X0)
    case["ratio"] = abs(X0) / span
    if units is not None and (units[0] != 1.0 or units[1] != 1.0):
        rescale(case, float(units[0]), float(units[1]))
    return case


# ---------------------------------------------------------------------------------------------
# CALLABLE NOTES.  "A user-defined model" is any callable `f(x, p1, ..., pm)`; which KIND of callable
# it is and what it is CALLED are accidents of the user's program and must not change the fit.  The
# generator hands the same formula over as
#   lambda            a lambda (name "<lambda>")                     -- what the harness always did
#   def               `def <name>(x, a, b): ...` (made with exec, so that __name__, __qualname__ and
#                     the code object all carry the name)
#   renamed           a lambda whose __name__ was assigned
#   partial           functools.partial(g, k) binding a leading positional constant (no __name__)
#   object            an instance of a class with __call__ (no __name__)
#   object-named      the same with an instance attribute __name__
#   method            a bound method called <name>
#   decorated         a `*args` wrapper made with functools.wraps (name and signature of the wrapped)
#   varargs           `def <name>(x, *p)`; the number of parameters comes from parguess
# under names drawn from: every pre-set model name (the library dispatches on model NAMES, a user's
# `def linear(x, offset, gain)` is still the user's function), the library's own word "custom", and
# ordinary names.  Excluded, with the reason: functools.partial binding a KEYWORD (the signature
# then has a keyword-only parameter, which the library rejects by design: "should not have keyword
# arguments"); numpy.vectorize objects (signature (*args, **kwargs), rejected the same way).
CALLABLE_KINDS = ("lambda", "def", "def", "renamed", "partial", "object", "object-named", "method",
                  "decorated", "varargs")
PRESET_NAMES = ("linear", "quadratic", "polynomial", "gaussian", "exponential")
CALLABLE_NAMES = PRESET_NAMES + PRESET_NAMES + ("custom", "model", "func", "f", "fit", "line", "Linear",
                                                "LINEAR", "poly")
NAMED_KINDS = ("def", "renamed", "object-named", "method", "decorated", "varargs")


def gen_callable(rng, kind=None, name=None):
    kind = kind or rng.choice(CALLABLE_KINDS)
    if kind not in NAMED_KINDS:
        return {"kind": kind}
    return {"kind": kind, "name": name or rng.choice(CALLABLE_NAMES)}


def add_callable(rng, case, kind=None, name=None):
    """a user-model case handed over as another kind of callable / under another name"""
    if case["model"].startswith("custom:"):
        case["callable"] = gen_callable(rng, kind, name)
    return case


def wrap_callable(f, m, spec):
    """the formula f(x, p1..pm) as the kind of callable the case says"""
    import functools
    kind = (spec or {}).get("kind", "lambda")
    name = (spec or {}).get("name")
    if kind == "lambda":
        return f
    args = ", ".join("p%d" % k for k in range(m))
    if kind in ("def", "varargs", "method"):
        ns = {"_f": f}
        if kind == "def":
            src = "def {0}(x, {1}):\n    return _f(x, {1})\n".format(name, args)
        elif kind == "varargs":
            src = "def {0}(x, *p):\n    return _f(x, *p)\n".format(name)
        else:
            src = ("class Analysis:\n    def {0}(self, x, {1}):\n        return _f(x, {1})\n"
                   "_obj = Analysis()\n").format(name, args)
        exec(src, ns)                      # noqa: S102  (source text of the harness itself)
        return getattr(ns["_obj"], name) if kind == "method" else ns[name]
    if kind == "renamed":
        ns = {"_f": f}
        exec("g = lambda x, {0}: _f(x, {0})\n".format(args), ns)      # noqa: S102
        g = ns["g"]
        g.__name__ = name
        g.__qualname__ = name
        return g
    if kind == "partial":
        ns = {"_f": f}
        exec("def general(k, x, {0}):\n    return _f(x, {0})\n".format(args), ns)   # noqa: S102
        return functools.partial(ns["general"], 1)
    if kind in ("object", "object-named"):
        ns = {"_f": f}
        exec("class Model:\n    def __call__(self, x, {0}):\n        return _f(x, {0})\n".format(args), ns)  # noqa: S102
        obj = ns["Model"]()
        if kind == "object-named":
            obj.__name__ = name
        return obj
    if kind == "decorated":
        ns = {"_f": f}
        exec("def {0}(x, {1}):\n    return _f(x, {1})\n".format(name, args), ns)      # noqa: S102
        inner = ns[name]

        @functools.wraps(inner)
        def wrapper(*a):
            return inner(*a)
        return wrapper
    raise KeyError(kind)


def callable_tag(case):
    """evidence label: kind of callable, and whether its name is one of the pre-set model names"""
    sp = case.get("callable")
    if not sp:
        return "lambda"
    t = sp["kind"]
    if "name" in sp:
        nm = sp["name"]
        t += ":named-" + (nm if nm in PRESET_NAMES or nm == "custom" else
                          "like-a-preset-in-other-case" if nm.lower() in PRESET_NAMES else "other")
    return t


def model_arg(q, case):
    m = case["model"]
    if m.startswith("custom:"):
        sp = custom_spec(case)
        return wrap_callable(sp["py"](q), sp["m"], case.get("callable"))
    if case["form"] == "enum":
        return q.FitModel(m)
    return m


def driver_model(case):
    """the fields of a driver request that name the model"""
    m = case["model"]
    if m.startswith("custom:"):
        c = custom_spec(case)
        return {"model": "custom", "nodes": c["nodes"], "root": c["root"], "m": c["m"]}
    return {"model": m}


def points(case):
    n = len(case["x"])
    sx, sy = as_list(case["xerr"], n), as_list(case["yerr"], n)
    return [[bits(a), bits(b), bits(c), bits(d)] for a, b, c, d in zip(case["x"], case["y"], sx, sy)]


def reset(q):
    q.reset_default_configuration()
    q.reset_correlations()
    q.clear_unit_definitions()


def call_fit(q, case, drop_xerr=False, use_range=True, holder=None):
    """hand the data to the library in the way the case says (holder: dict that receives the Plot
    when the fit is made through one)"""
    import numpy as np
    if case.get("types"):
        return call_fit_typed(q, case, drop_xerr, use_range, holder)
    if case.get("rep"):
        return call_fit_repeated(q, case, drop_xerr, use_range, holder)
    x, y = list(case["x"]), list(case["y"])
    xerr = None if drop_xerr else case["xerr"]
    yerr = case["yerr"]
    kw = {}
    if case.get("xrange") and use_range:
        kw["xrange"] = tuple(case["xrange"]) if len(x) % 2 else list(case["xrange"])
    if case["model"] == "polynomial" and case.get("degrees_kw", True):
        kw["degrees"] = case["degree"]
    if case.get("parguess") is not None:
        kw["parguess"] = list(case["parguess"]) if len(x) % 3 else tuple(case["parguess"])
        if case.get("guess_kind"):
            kw["parguess"] = (list if case["guess_kind"] == "list" else tuple)(case["parguess"])
    if case.get("parnames"):
        kw["parnames"] = list(case["parnames"])
    model = model_arg(q, case)
    form = case["form"]
    ek = {}
    if xerr is not None:
        ek["xerr"] = xerr
    if yerr is not None:
        ek["yerr"] = yerr
    flog = holder.setdefault("fault_log", []) if holder is not None else []
    if form in ("lists", "enum"):
        apply_faults(q, case, x, y, model, flog)
        return q.fit(x, y, model, **ek, **kw)
    if form == "plot.fit":
        import qexpy.plotting as qplt
        fig = qplt.plot(x, y, **ek) if len(x) % 2 else qplt.plot(q.XYDataSet(x, y, **ek))
        if holder is not None:
            holder["fig"] = fig
        return fig.fit(model, **kw) if len(x) % 3 else fig.fit(model=model, **kw)
    if form == "arrays":
        ek = {k: (np.array(v) if isinstance(v, list) else v) for k, v in ek.items()}
        xn, yn = np.array(x), np.array(y)
        apply_faults(q, case, xn, yn, model, flog)
        return q.fit(xn, yn, model, **ek, **kw)
    ed = None if drop_xerr else case.get("xerr_edit")

    def edit(arr):
        # a common x-uncertainty, then one abscissa declared exactly known
        i = ed["zero_at"]
        if ed["how"] == "error=":
            arr[i].error = 0.0
        elif ed["how"] == "item=":
            arr[i] = q.Measurement(x[i], 0.0)
        else:
            arr[i] = (x[i], 0.0)
        return arr
    if form == "marrays":
        if ed:
            xa = edit(q.MeasurementArray(x, ed["common"]))
        else:
            xa = q.MeasurementArray(x, xerr) if xerr is not None else q.MeasurementArray(x)
        ya = q.MeasurementArray(y, yerr) if yerr is not None else q.MeasurementArray(y)
        apply_faults(q, case, xa, ya, model, flog)
        return q.fit(xa, ya, model, **kw)
    if form in ("xyds", "xyds.fit") and ed:
        ds = q.XYDataSet(x, y, **dict(ek, xerr=ed["common"]))
        edit(ds.xdata)
        return q.fit(ds, model, **kw) if form == "xyds" else ds.fit(model, **kw)
    if form in ("xyds.marrays", "derived"):
        if ed:
            xa = edit(q.MeasurementArray(x, ed["common"]))
        else:
            xa = q.MeasurementArray(x, xerr) if xerr is not None else q.MeasurementArray(x)
        if form == "xyds.marrays":
            ya = q.MeasurementArray(y, yerr) if yerr is not None else q.MeasurementArray(y)
            apply_faults(q, case, xa, ya, model, flog)
            ds = q.XYDataSet(xa, ya)
            return q.fit(ds, model, **kw) if len(x) % 2 else ds.fit(model, **kw)
        if len(x) % 2:
            ya = (q.MeasurementArray(y, yerr) if yerr is not None else q.MeasurementArray(y)) + 0
        else:
            half = [v / 2 for v in y]
            herr = None if yerr is None else (
                yerr / 2 if isinstance(yerr, (int, float)) else [v / 2 for v in yerr])
            ya = (q.MeasurementArray(half, herr) if herr is not None else q.MeasurementArray(half)) * 2
        return q.fit(xa, ya, model, **kw)
    if form == "xyds":
        return q.fit(q.XYDataSet(x, y, **ek), model, **kw)
    if form == "xyds.fit":
        return q.XYDataSet(xdata=x, ydata=y, **ek).fit(model, **kw)
    if form == "kwargs":
        return q.fit(xdata=x, ydata=y, model=model, **ek, **kw)
    raise ValueError(form)



# ---------------------------------------------------------------------------------------------
# TYPE NOTES.  Wherever the fitting API takes a number it takes a `numbers.Real`; the generator
# passes every kind the ecosystem produces, choosing data that the type represents EXACTLY (whole
# numbers, or multiples of 1/4 for the non-integer types), so that the model sees the same number:
#   int, float, np.float64, np.float32, np.int64, np.int32, an element of an integer array,
#   fractions.Fraction; lists of each, ndarrays of dtype int64 / int32 / float32 / float64.
# Excluded, with the reason:
#   * bool: True is accepted as the number 1 everywhere; nothing in the fit API documents it.
#   * xrange / parguess as an ndarray: documented as "tuple|list" / "list"; the code tests their
#     truth value.  Their ELEMENTS are typed.
#   * tuples as data or as evaluation points: the API accepts lists and arrays only.
SCALAR_TYPES = ("float", "int", "np.float64", "np.float32", "np.int64", "np.int32", "arange-elem",
                "Fraction")
INT_TYPES = ("int", "np.int64", "np.int32", "arange-elem")
SEQ_TYPES = ("list:float", "list:int", "list:np.int64", "list:np.int32", "list:np.float32",
             "list:Fraction", "list:arange-elem", "array:int64", "array:int32", "array:float32",
             "array:float64")
ERR_ROUTES = ("kw", "ctor", "kw-on-marray", "kw-over-old", "setter", "setter-late", "relative-ctor",
              "relative-setter")
# kw            uncertainties by keyword next to plain data (constructor of the measurements)
# ctor          MeasurementArray(values, uncertainties)
# kw-on-marray  existing MeasurementArrays, uncertainties by keyword to fit() / XYDataSet()
# kw-over-old   the same, the arrays already carried OTHER uncertainties (overwritten)
# setter        existing MeasurementArrays, `measurement.error = s` element by element
# setter-late   the same AFTER the arrays (carrying other uncertainties) were put into the XYDataSet
#               that is fitted -- and, for half of them, after a first fit of that data (discarded)
# relative-*    MeasurementArray(values, relative_error=r) / `measurement.relative_error = r`


def _is_int_type(t):
    return t.split(":")[-1] in INT_TYPES + ("int64", "int32")


def conv_scalar(np, tag, v):
    """the number v as an object of the type `tag`; raises when the type cannot represent it"""
    from fractions import Fraction
    v = float(v)
    if tag == "float":
        return v
    if tag == "np.float64":
        return np.float64(v)
    if tag == "Fraction":
        return Fraction(v)
    if tag == "np.float32":
        if float(np.float32(v)) != v:
            raise ValueError("{!r} is not a binary32 number".format(v))
        return np.float32(v)
    if not v.is_integer():
        raise ValueError("{!r} is not a whole number".format(v))
    if tag == "int":
        return int(v)
    if tag == "np.int64":
        return np.int64(int(v))
    if tag == "np.int32":
        return np.int32(int(v))
    if tag == "arange-elem":
        return np.arange(int(v), int(v) + 1)[0]
    raise KeyError(tag)


def conv_seq(np, tag, vs):
    kind, el = tag.split(":")
    if kind == "list":
        return [conv_scalar(np, el, v) for v in vs]
    dt = {"int64": np.int64, "int32": np.int32, "float32": np.float32, "float64": np.float64}[el]
    a = np.array([float(v) for v in vs], dtype=np.float64).astype(dt)
    if [float(t) for t in a] != [float(v) for v in vs]:
        raise ValueError("not representable as " + el)
    return a


def typed_point(np, x, k):
    """an evaluation point as an object of another numeric type that represents it exactly
    (Fraction always; numpy integers where the point is whole; np.float32 where it is a binary32
    number -- all judged in binary64 like a float: fit_function converts numpy numbers, fixes
    e4aa6c1 / f2dbd01)"""
    from fractions import Fraction
    x = float(x)
    opts = [Fraction(x)]
    if x.is_integer() and abs(x) < 2 ** 31:
        opts += [np.int64(int(x)), np.int32(int(x)), np.arange(int(x), int(x) + 1)[0]]
    if float(np.float32(x)) == x:
        opts.append(np.float32(x))
    return opts[k % len(opts)]


def _pick_types(grid):
    whole = grid == 1.0
    sc = [t for t in SCALAR_TYPES if whole or not _is_int_type(t)]
    sq = [t for t in SEQ_TYPES if whole or not _is_int_type(t)]
    return sc, sq


# problems of order 10..1000 in whole numbers: (x-scale, y-scale) applied to gen_case's problem of
# order one before its abscissae are snapped to the grid
TYPED_SCALE = {"exponential": (4.0, 256.0), "gaussian": (4.0, 512.0), "custom:sine": (4.0, 128.0),
               "custom:growth": (4.0, 32.0), "custom:lorentz": (4.0, 256.0)}


def _typed_problem(rng, family, degree, grid, sy, want_range):
    """the numbers of a typed case (no types yet); None when the draw is unusable"""
    poly = family in PRESET_POLY
    if poly:
        d = {"linear": 1, "quadratic": 2}.get(family) or degree or rng.randint(1, 4)
        m = d + 1
        n = rng.randint(m + 3, 16)
        # abscissae on the grid, centred (the normal matrix stays well-conditioned)
        half = n if d <= 2 else max((n + 1) // 2, 4)
        pool = [v * grid for v in range(-half, half + 1)]
        xs = sorted(rng.sample(pool, min(n, len(pool))))
        ptrue = [rng.choice([-3, -2, -1, 1, 2, 3]) * rng.choice([0.5, 1.0, 2.0]) for _ in range(m)]
        f = REF["polynomial"]
        case = {"model": family, "degree": d}
        pscale = [1.0] * m
    else:
        base = gen_case(rng, family=family, want_range=False, noise_free=False, form="lists",
                        sx="none", sy="none")
        rescale(base, *TYPED_SCALE[family])
        ptrue, pscale = list(base["ptrue"]), list(base["pscale"])
        xs = sorted({round(v / grid) * grid for v in base["x"]})
        f = ref_fn(family)
        case = {"model": family}
        m = len(ptrue)
        if len(xs) < m + 4:
            return None
    if rng.random() < 0.3:
        rng.shuffle(xs)
    n = len(xs)
    ys0 = [f(x, *ptrue) for x in xs]
    top = max(abs(v) for v in ys0)
    if top < 32 * grid or top > 2 ** 22:
        return None
    # uncertainties on the grid: common, or per point with a spread of 1..6
    skind = sy or rng.choice(["common", "point", "point", "point", "none"])
    # (the iterative models get the 1 % scatter of gen_case: with 2-12 % on a curve cut by an
    # x-range the optimum itself can be lost -- thorough tier, a*sin(b*x) on its rising part)
    unit = max(grid, round((0.02 if poly else 0.01) * top / grid) * grid)
    yerr = None if skind == "none" else unit * rng.randint(1, 3) if skind == "common" else \
        [unit * rng.randint(1, 6 if poly else 4) for _ in range(n)]
    xkind, xerr = "none", None
    if not poly:
        xkind = rng.choice(["none", "none", "common", "point", "zeros"])
        if xkind != "none" and skind == "none":
            skind, yerr = "common", unit * rng.randint(1, 3)
        if xkind == "common":
            xerr = grid
        elif xkind != "none":
            xerr = [grid * rng.choice([1, 1, 2] if xkind == "point" else [0, 0, 1, 2])
                    for _ in range(n)]
            if not any(xerr):
                xerr[rng.randrange(n)] = grid
    sig = as_list(yerr, n) if (yerr is not None and poly) else [unit] * n
    ys = [round((v + rng.gauss(0, 1) * s) / grid) * grid + 0.0 for v, s in zip(ys0, sig)]
    case.update({"x": [float(v) for v in xs], "y": ys, "xerr": xerr, "yerr": yerr,
                 "ptrue": ptrue, "pscale": pscale, "noise_free": False, "sx": xkind,
                 "sy": skind, "xrange": None, "grid": grid})
    if poly:
        if rng.random() < 0.2:
            case["parguess"] = [1.0] * m
            case["guess_kind"] = rng.choice(["list", "tuple"])
    else:
        case["parguess"] = [v * (1 + rng.uniform(-0.1, 0.1)) for v in ptrue]
    # x-range with bounds on the grid (on a data point or next to it)
    if want_range is None:
        want_range = rng.random() < 0.35
    if want_range:
        sx_ = sorted(xs)
        need = m + 2 if poly else max(m + 4, (3 * n + 4) // 5)
        for _ in range(20):
            i = rng.randint(0, max(0, n - need))
            j = rng.randint(min(n - 1, i + need - 1), n - 1)
            lo = sx_[i] if rng.random() < 0.7 else sx_[i] - grid
            hi = sx_[j] + grid if (j == n - 1 or rng.random() < 0.5) else sx_[j]
            if sum(1 for v in xs if lo <= v < hi) >= need:
                case["xrange"] = [float(lo), float(hi)]
                break
    a, b = min(xs), max(xs)
    case["xs"] = [float(round(rng.uniform(a, b) / grid) * grid) for _ in range(4)]
    return case


def gen_typed(rng, family=None, degree=None, grid=None, force=None, want_range=None, sy=None):
    """a fit problem in whole numbers (grid 1) or multiples of 1/4 (grid 0.25) with the type of
    every number and the route of the uncertainties chosen (TYPE NOTES, ERR_ROUTES).
    force: entries of case["types"] to fix (a deliberate scenario)"""
    import numpy as np
    family = family or rng.choice(["linear", "quadratic", "polynomial", "polynomial", "exponential",
                                   "gaussian", "custom:sine", "custom:growth", "custom:lorentz"])
    grid = grid or rng.choice([1.0, 1.0, 1.0, 0.25])
    for _ in range(400):
        case = _typed_problem(rng, family, degree, grid, sy, want_range)
        if case is None:
            continue
        sc, sq = _pick_types(grid)
        flt = [t for t in sc if not _is_int_type(t)]
        fo = dict(force or {})
        container = fo.get("container") or rng.choice(
            ["lists", "xyds", "marrays", "marrays", "xyds.marrays", "xyds.marrays", "plot"])
        plain = container in ("lists", "xyds", "plot")
        T = {"container": container, "x": rng.choice(sq), "y": rng.choice(sq),
             "xrange": rng.choice(sc), "xrange_seq": rng.choice(["tuple", "list"]),
             "degrees": rng.choice(["int", "np.int64", "np.int32"]),
             "parguess": rng.choice(["float", "np.float64", "np.float32", "int-where-large",
                                     "Fraction"]),
             "call": rng.choice(["fit", "fit", ".fit"]), "refit": rng.random() < 0.5}
        for key in ("xerr", "yerr"):
            err = case[key]
            vals = case[key[0]]
            route = None if err is None else "kw" if plain else fo.get(key + "_route") or \
                rng.choice([r for r in ERR_ROUTES if r != "kw"])
            if route and route.startswith("relative") and (
                    key == "xerr" or min(abs(v) for v in vals) * 8 < max(abs(v) for v in vals)):
                # sigma_i = |y_i|/4 on data that span more than a factor 8 (or cross zero) gives
                # weights spread over more than 64: the few smallest ordinates decide the fit, and
                # for the iterative models scipy's termination then misses the certificate
                # (thorough tier: no convergence / a flat direction) -- not this class's subject
                route = "setter"
            T[key + "_route"] = route
            if route is None:
                T[key] = None
            elif route.startswith("relative"):
                # the stated uncertainty IS a relative one: sigma_i = |value_i| / 4 (exact)
                case[key] = [abs(v) * 0.25 for v in vals]
                case["s" + key[0]] = "point"
                T[key] = rng.choice(flt)
            elif isinstance(err, list):
                T[key] = rng.choice(sq)
            else:
                T[key] = rng.choice(sc)
        for k_, v_ in fo.items():
            if k_ in ("x", "y", "xrange", "degrees", "parguess", "call", "xrange_seq", "refit"):
                T[k_] = v_
            elif k_ in ("xerr", "yerr") and T[k_] is not None and not (
                    T[k_ + "_route"] or "").startswith("relative"):
                # a scalar tag for a common value, the list of it / the array dtype per point
                if isinstance(case[k_], list) and ":" not in v_:
                    v_ = "list:" + v_
                if not isinstance(case[k_], list) and ":" in v_:
                    continue
                T[k_] = v_
        case["types"] = T
        case["form"] = "typed:" + container
        try:
            typed_args(np, case)     # every number representable in its type
        except ValueError:
            continue
        return case
    raise RuntimeError("no typed problem for " + family)


def typed_args(np, case, drop_xerr=False):
    """the Python objects a typed case hands to the library"""
    T = case["types"]
    out = {"x": conv_seq(np, T["x"], case["x"]), "y": conv_seq(np, T["y"], case["y"])}
    for key in ("xerr", "yerr"):
        e = case[key]
        if e is None or (key == "xerr" and drop_xerr):
            out[key] = None
        elif (T[key + "_route"] or "").startswith("relative"):
            out[key] = conv_scalar(np, T[key], 0.25)
        elif isinstance(e, list):
            out[key] = conv_seq(np, T[key], e)
        else:
            out[key] = conv_scalar(np, T[key], e)
    if case.get("xrange"):
        seq = [conv_scalar(np, T["xrange"], v) for v in case["xrange"]]
        out["xrange"] = tuple(seq) if T["xrange_seq"] == "tuple" else seq
    if case["model"] == "polynomial":
        out["degrees"] = conv_scalar(np, T["degrees"], case["degree"])
    if case.get("parguess") is not None:
        g = case["parguess"]
        t = T["parguess"]
        if t == "int-where-large":
            # parguess=[500, 0.2]: whole numbers where that moves the guess by less than 3 %
            g = [int(round(v)) if abs(v) >= 16 else v for v in g]
        elif t == "np.float32":
            g = [np.float32(v) for v in g]
        elif t == "Fraction":
            from fractions import Fraction
            g = [Fraction(v) for v in g]
        elif t == "np.float64":
            g = [np.float64(v) for v in g]
        out["parguess"] = tuple(g) if case.get("guess_kind") == "tuple" else list(g)
    return out


def call_fit_typed(q, case, drop_xerr=False, use_range=True, holder=None):
    import numpy as np
    T = case["types"]
    A = typed_args(np, case, drop_xerr=drop_xerr)
    n = len(case["x"])
    kw = {}
    if "xrange" in A and use_range:
        kw["xrange"] = A["xrange"]
    if "degrees" in A and case.get("degrees_kw", True):
        kw["degrees"] = A["degrees"]
    if "parguess" in A:
        kw["parguess"] = A["parguess"]
    if case.get("parnames"):
        kw["parnames"] = list(case["parnames"])
    model = model_arg(q, case)
    cont = T["container"]
    if cont in ("lists", "xyds", "plot"):
        ek = {k: A[k] for k in ("xerr", "yerr") if A[k] is not None}
        if cont == "lists":
            return q.fit(A["x"], A["y"], model, **ek, **kw)
        if cont == "xyds":
            ds = q.XYDataSet(A["x"], A["y"], **ek)
            return q.fit(ds, model, **kw) if T["call"] == "fit" else ds.fit(model, **kw)
        import qexpy.plotting as qplt
        fig = qplt.plot(A["x"], A["y"], **ek)
        if holder is not None:
            holder["fig"] = fig
        return fig.fit(model, **kw)
    later = {}
    pending = []

    def write_errors(arr, err):
        errs = err if hasattr(err, "__len__") else [err] * n
        for meas, e in zip(arr, errs):
            meas.error = e

    def build(key_v, key_e):
        vals, err = A[key_v], A[key_e]
        route = T[key_e + "_route"]
        if err is None:
            return q.MeasurementArray(vals)
        if route == "setter-late":
            pending.append((key_e, err))
            return q.MeasurementArray(vals, 0.75)
        if route == "ctor":
            return q.MeasurementArray(vals, err)
        if route == "relative-ctor":
            return q.MeasurementArray(vals, relative_error=err)
        if route in ("kw-on-marray", "kw-over-old"):
            later[key_e] = err
            return q.MeasurementArray(vals, 0.75) if route == "kw-over-old" else q.MeasurementArray(vals)
        arr = q.MeasurementArray(vals)
        if route == "relative-setter":
            for meas in arr:
                meas.relative_error = err
            return arr
        write_errors(arr, err)
        return arr
    xa, ya = build("x", "xerr"), build("y", "yerr")
    ds = None if cont == "marrays" else q.XYDataSet(xa, ya, **later)

    def fit_now():
        if ds is None:
            return q.fit(xa, ya, model, **later, **kw)
        return q.fit(ds, model, **kw) if T["call"] == "fit" else ds.fit(model, **kw)
    if pending:
        if T.get("refit"):
            try:
                fit_now()       # a first fit of the data as they were; its result is not used
            except RuntimeError:
                pass
        for key_e, err in pending:
            write_errors((xa if ds is None else ds.xdata) if key_e == "xerr" else
                         (ya if ds is None else ds.ydata), err)
    return fit_now()


# ---------------------------------------------------------------------------------------------
# REPEATED MEASUREMENTS as data points: q.Measurement([readings]).  The point's value and its
# uncertainty (what the fit weighs with and chi-squared divides by) are what the point REPORTS:
# by default the mean and the error on the mean -- not the standard deviation of the readings --
# and other statistics after use_std_for_uncertainty / use_error_weighted_mean_as_value /
# use_propagated_error_for_uncertainty.  The readings are constructed on a dyadic grid (2^-16) so
# that mean, standard deviation and error on the mean are exact in binary64:
#   4 readings  v+d, v+d, v+d, v-3d          mean v, std 2d, error on the mean d
#   9 readings  v+d (x4), v-d (x4), v         mean v, std d,  error on the mean d/3
# and, with per-reading uncertainties e/2, e, e, e, e on readings v+a, v-a (x4):
#   error-weighted mean v (the plain mean is v - 3a/5), propagated error e/sqrt(8).
REP_KINDS = ("mean-error", "mean-error", "std", "std-and-back", "weighted")
REP_GRID = 2.0 ** -16


def _dy(v):
    return round(v / REP_GRID) * REP_GRID


def make_readings(rng, v, s, kind):
    """-> (readings, per-reading uncertainties or None, value, sigma) for a point that should
    report about (v, s); value and sigma are what it reports exactly"""
    v = _dy(v)
    if kind == "weighted":
        e = 2.0 ** round(math.log2(max(s, 4 * REP_GRID) * math.sqrt(8)))
        a = _dy(rng.uniform(0.5, 2.0) * e) or REP_GRID
        rd = [v + a] + [v - a] * 4
        er = [e / 2, e, e, e, e]
        order = list(range(5))
        rng.shuffle(order)
        sigma = 1.0 / math.sqrt(4.0 / (e * e) + 4 * (1.0 / (e * e)))
        return [rd[i] for i in order], [er[i] for i in order], v, sigma
    n = rng.choice([4, 9])
    s = max(_dy(s), REP_GRID)
    if n == 4:
        d = s if kind != "std" else max(_dy(s / 2), REP_GRID)
        rd = [v + d, v + d, v + d, v - 3 * d]
        sigma = d if kind != "std" else 2 * d
    else:
        d = 3 * s if kind != "std" else s
        rd = [v + d] * 4 + [v - d] * 4 + [v]
        sigma = d / 3.0 if kind != "std" else d
    if rng.random() < 0.5:
        rd = [2 * v - t for t in rd]          # mirrored
    rng.shuffle(rd)
    return rd, None, v, sigma


def gen_repeated(rng, family=None, kind=None, xrep=None, form=None, **kw):
    """a fit problem whose y points (and, for some, x points) are repeated measurements"""
    kw.setdefault("want_range", False)
    case = gen_case(rng, family=family, form="marrays", sy="point",
                    sx=kw.pop("sx", None) or rng.choice(["none", "none", "point"]), noise_free=False,
                    guess=False, **kw)
    kind = kind or rng.choice(REP_KINDS)
    n = len(case["x"])
    rep = {"y": {"kind": kind, "readings": [], "errors": []}}
    ys, sy = [], []
    for v, s in zip(case["y"], case["yerr"]):
        rd, er, val, sig = make_readings(rng, v, s, kind)
        rep["y"]["readings"].append(rd)
        rep["y"]["errors"].append(er)
        ys.append(val)
        sy.append(sig)
    case["y"], case["yerr"] = ys, sy
    poly = case["model"] in PRESET_POLY
    if xrep is None:
        xrep = (not poly) and case["xerr"] is not None and rng.random() < 0.5
    if xrep and isinstance(case["xerr"], list) and all(e > 0 for e in case["xerr"]):
        xk = rng.choice(["mean-error", "std"])
        rep["x"] = {"kind": xk, "readings": [], "errors": []}
        xs, sx = [], []
        for v, s in zip(case["x"], case["xerr"]):
            rd, er, val, sig = make_readings(rng, v, s, xk)
            rep["x"]["readings"].append(rd)
            rep["x"]["errors"].append(er)
            xs.append(val)
            sx.append(sig)
        if len(set(xs)) == n:
            case["x"], case["xerr"] = xs, sx
        else:
            del rep["x"]
    case["xs"] = [_dy(v) for v in case["xs"]]
    rep["how"] = form or rng.choice(["fit(x, yarr)", "fit(xarr, yarr)", "XYDataSet(x, yarr)",
                                     "XYDataSet(xarr, yarr).fit", "plot(x, yarr).fit"])
    case["rep"] = rep
    case["form"] = "repeated:" + rep["how"]
    case.pop("xerr_edit", None)
    return case


def rep_array(q, spec):
    ms = []
    for rd, er in zip(spec["readings"], spec["errors"]):
        m = q.Measurement(list(rd), list(er)) if er else q.Measurement(list(rd))
        ms.append(m)
    k = spec["kind"]
    for m in ms:
        if k in ("std", "std-and-back"):
            m.use_std_for_uncertainty()
        if k == "std-and-back":
            m.use_error_on_mean_for_uncertainty()
        if k == "weighted":
            m.use_error_weighted_mean_as_value()
            m.use_propagated_error_for_uncertainty()
    return q.MeasurementArray(ms)


def call_fit_repeated(q, case, drop_xerr=False, use_range=True, holder=None):
    rep = case["rep"]
    kw = {}
    if case.get("xrange") and use_range:
        kw["xrange"] = tuple(case["xrange"])
    if case["model"] == "polynomial":
        kw["degrees"] = case["degree"]
    if case.get("parguess") is not None:
        kw["parguess"] = list(case["parguess"])
    if case.get("parnames"):
        kw["parnames"] = list(case["parnames"])
    model = model_arg(q, case)
    ya = rep_array(q, rep["y"])
    how = rep["how"]
    xerr = None if drop_xerr else case["xerr"]
    if "x" in rep and not drop_xerr:
        xa = rep_array(q, rep["x"])
        xplain = False
    else:
        xplain = xerr is None
        xa = list(case["x"]) if xplain else q.MeasurementArray(list(case["x"]), xerr)
    if how in ("fit(x, yarr)", "fit(xarr, yarr)"):
        if how == "fit(xarr, yarr)" and xplain:
            xa = q.MeasurementArray(xa)
        return q.fit(xa, ya, model, **kw)
    if how.startswith("XYDataSet"):
        if how == "XYDataSet(xarr, yarr).fit" and xplain:
            xa = q.MeasurementArray(xa)
        ds = q.XYDataSet(xa, ya)
        return ds.fit(model, **kw) if how.endswith(".fit") else q.fit(ds, model, **kw)
    import qexpy.plotting as qplt
    fig = qplt.plot(xa, ya)
    if holder is not None:
        holder["fig"] = fig
    return fig.fit(model, **kw)


# ---------------------------------------------------------------------------------------------
# THE OTHER BRANCH: parameter sets with negative members.  The Gaussian depends on std through
# std^2 only, a*sin(b*x) is even under (a, b) -> (-a, -b): (norm, mean, -std) and (-a, -b) are
# optima in their own right, reached from a guess on that side; amplitudes may be negative.
SIGN_VARIANTS = {
    "gaussian": ("neg-std", "neg-norm", "neg-std-neg-norm"),
    "exponential": ("neg-amplitude", "neg-rate"),
    "custom:sine": ("mirror", "neg-amplitude"),
    "custom:growth": ("neg-amplitude",),
    "custom:lorentz": ("neg-amplitude",),
    "custom:decay": ("neg-amplitude",),
    "custom:lpeak": ("neg-width", "neg-amplitude"),
}


def gen_signed(rng, family=None, variant=None, **kw):
    """a non-polynomial problem whose generating parameters (and the guess next to them) lie on a
    mirrored / negative branch"""
    family = family or rng.choice(sorted(SIGN_VARIANTS))
    variant = variant or rng.choice(SIGN_VARIANTS[family])
    units = kw.pop("units", None)
    kw.setdefault("noise_free", rng.random() < 0.25)
    case = gen_case(rng, family=family, **kw)
    flip = {"neg-std": [2], "neg-norm": [0], "neg-std-neg-norm": [0, 2], "neg-amplitude": [0],
            "neg-rate": [1], "mirror": [0, 1], "neg-width": [2]}[variant]
    for key in ("ptrue", "parguess"):
        case[key] = [-v if k in flip else v for k, v in enumerate(case[key])]
    f = ref_fn(case)
    old = case["y"]
    # y changes sign with the amplitude / grows instead of decaying: regenerate on the same noise
    base = gen_noise(case, old, flip)
    case["y"] = base
    case["signs"] = variant
    if units is not None and (units[0] != 1.0 or units[1] != 1.0):
        rescale(case, float(units[0]), float(units[1]))
    return case


def gen_noise(case, old_y, flip):
    """the data of the mirrored problem: the model at the new generating parameters plus the
    noise the old data carried relative to the old curve"""
    f = ref_fn(case)
    new_p = case["ptrue"]
    old_p = [-v if k in flip else v for k, v in enumerate(new_p)]
    out = []
    for x, y in zip(case["x"], old_y):
        noise = y - f(x, *old_p)
        out.append(f(x, *new_p) + (0.0 if case["noise_free"] else noise))
    return out


def eval_points(case):
    """where fit_function is evaluated: the case's own points, then the smallest and the largest
    abscissa of the data (the end points of the grid a plot of the result evaluates)"""
    return list(case["xs"]) + [min(case["x"]), max(case["x"])]


HIST_KINDS = ("switch", "switch", "plot", "global-mc", "reread", "config", "session", "session")

# SESSION NOTES.  A fit result is used for as long as the session lasts: between the fit and the judged
# reads the user does what programs do between a fit and a report -- changes the print settings and
# puts them back (by the setters, by get_settings().reset(), by reset_default_configuration()), resets
# the configuration without having changed anything, clears / adds unit definitions, makes other
# fits (of other data, of the same data again) and other measurements with correlations of their
# own, sends a request that is rejected.  None of these requests names the fit result, so the result
# must read as before and its parameters must still carry the covariances the fit registered.
# Excluded, with the reason: q.reset_correlations() -- it is the documented request to forget every
# registered correlation, the parameters' among them; what a fit result means after it is not said
# by the property.
SESSION_STEPS = ("reset_default_configuration", "settings.reset", "clear_unit_definitions",
                 "define_unit", "other-fit", "same-fit-again", "other-measurements", "fault", "gc",
                 "reset_default_configuration")
CONFIG_CHANGES = (["print_style", "scientific"], ["print_style", "latex"], ["unit_style", "fraction"],
                  ["sig_figs_error", 3], ["sig_figs_value", 4], ["plot_dimensions", [8.0, 6.0]],
                  ["mc_sample_size", 500])
CONFIG_BACK = ("reset_default_configuration", "reset_default_configuration", "settings.reset", "setters")
CONFIG_DEFAULTS = {"print_style": "default", "unit_style": "exponents", "plot_dimensions": [6.4, 4.8],
                   "mc_sample_size": 10000}


def gen_config_step(rng, back=None):
    """["config", [[setting, value, route]...], read, back]: print settings (and other settings)
    changed through the function or the attribute of the settings object, the result read or not
    while they are in force, then the default configuration restored by `back`"""
    back = back or rng.choice(CONFIG_BACK)
    pool = [c for c in CONFIG_CHANGES if back != "setters" or c[0] in CONFIG_DEFAULTS]
    chosen, seen = [], set()
    for _ in range(rng.choice([1, 2, 2, 3])):
        c = rng.choice(pool)
        if c[0] not in seen:
            seen.add(c[0])
            chosen.append([c[0], c[1], rng.choice(["function", "attribute"])])
    return ["config", chosen, rng.choice(["str", "str", "fit", "none"]), back]


def gen_hist(rng, plot=None, session=None):
    """what happens to the result between two rounds of evaluating fit_function:
    ["switch", i, form, spelling]  a value returned for point i (asked as scalar / list / array) gets
                                   the Monte Carlo method (documented: affects this value alone) and is read
    ["plot"]                       the result is drawn (Plot.fit's own figure, or plot(result)) and saved
    ["global-mc", i]               the global error method is Monte Carlo while point i is evaluated and read
    ["reread", i]                  a returned value is read twice
    ["config", changes, read, back]  see gen_config_step
    ["session", what]              a session-level request that does not name the result (SESSION NOTES)
    `session`: a step of that kind is put in deliberately ("config:<back>" or one of SESSION_STEPS)"""
    steps = []
    for _ in range(rng.choice([1, 1, 2, 3])):
        k = rng.choice(HIST_KINDS)
        if plot is False and k == "plot":
            k = "switch"
        if k == "switch":
            steps.append([k, rng.randrange(6), rng.choice(["scalar", "scalar", "list", "array"]),
                          rng.choice(["str", "enum"])])
        elif k == "plot":
            steps.append([k])
        elif k == "config":
            steps.append(gen_config_step(rng))
        elif k == "session":
            steps.append([k, rng.choice(SESSION_STEPS)])
        else:
            steps.append([k, rng.randrange(6)])
    if plot and not any(s[0] == "plot" for s in steps):
        steps.insert(rng.randrange(len(steps) + 1), ["plot"])
    if session:
        st = gen_config_step(rng, back=session[7:]) if session.startswith("config:") else ["session", session]
        steps.insert(rng.randrange(len(steps) + 1), st)
    return steps


def session_requests(case):
    """the history of a case in the vocabulary of the Lean session model (Model/Session.lean:
    Req), as the driver command `fit.session` reads it.  Values returned by fit_function, other
    fits and other measurements are NEW OBJECTS with covariances among themselves only."""
    m = n_params(case)
    codes = {"print_style": {"default": 0, "scientific": 1, "latex": 2}, "unit_style": {"exponents": 0, "fraction": 1}}
    out = []
    for st in case.get("hist") or []:
        k = st[0]
        if k in ("switch", "reread"):
            out.append(["new", 1, []])
        elif k == "plot":
            out.append(["new", 0, []])
        elif k == "global-mc":
            out += [["set", "error_method", 1], ["set", "mc_sample_size", 50], ["new", 1, []],
                    ["set", "error_method", 0], ["set", "mc_sample_size", 10000]]
        elif k == "config":
            _, changes, _read, back = st
            for name, value, _route in changes:
                v = codes.get(name, {}).get(value) if isinstance(value, str) else (
                    int(value[0]) if isinstance(value, list) else int(value))
                out.append(["set", name, v])
            out.append(["new", 1, []])
            if back == "setters":
                out += [["set", name, 0] for name, _v, _r in changes]
            else:
                out.append(["reset-config"])
        elif k == "session":
            w = st[1]
            if w in ("reset_default_configuration", "settings.reset"):
                out.append(["reset-config"])
            elif w == "clear_unit_definitions":
                out.append(["clear-units"])
            elif w == "define_unit":
                out += [["define-unit", "N"], ["new", 1, []]]
            elif w == "other-fit":
                out.append(["new", 2, [[0, 1]]])
            elif w == "same-fit-again":
                out.append(["new", m, [[i, j] for i in range(m) for j in range(i + 1, m)]])
            elif w == "other-measurements":
                out.append(["new", 3, [[0, 1]]])
            elif w == "fault":
                out += [["rejected"]] * 5
            elif w == "gc":
                out += [["new", 1, []], ["collect"]]
            else:
                raise KeyError(w)
        else:
            raise KeyError(k)
    return {"cmd": "fit.session", "m": m, "reqs": out}


def _apply_setting(q, name, value, route):
    st = q.get_settings()
    if name == "print_style":
        if route == "function":
            q.set_print_style(value)
        else:
            st.print_style = value
    elif name == "unit_style":
        if route == "function":
            q.set_unit_style(value)
        else:
            st.unit_style = value
    elif name == "sig_figs_error":
        (q.set_sig_figs_for_error if route == "function" else st.set_sig_figs_for_error)(value)
    elif name == "sig_figs_value":
        (q.set_sig_figs_for_value if route == "function" else st.set_sig_figs_for_value)(value)
    elif name == "plot_dimensions":
        if route == "function":
            q.set_plot_dimensions(tuple(value))
        else:
            st.plot_dimensions = tuple(value)
    elif name == "mc_sample_size":
        if route == "function":
            q.set_monte_carlo_sample_size(value)
        else:
            st.monte_carlo_sample_size = value
    else:
        raise KeyError(name)


def _session_step(q, r, case, what, log):
    """a request of the session that does not name the fit result"""
    if what == "reset_default_configuration":
        q.reset_default_configuration()
    elif what == "settings.reset":
        q.get_settings().reset()
    elif what == "clear_unit_definitions":
        q.clear_unit_definitions()
    elif what == "define_unit":
        q.define_unit("N", "kg*m/s^2")
        f = q.Measurement(4.0, 0.5, unit="N")
        log.append(["define_unit", str(f.unit)])
    elif what == "other-fit":
        # other data, a pre-set model with parameters and correlations of its own
        xs = [0.0, 1.0, 2.0, 3.0, 4.0, 5.0]
        ys = [1.1, 2.9, 5.2, 6.8, 9.1, 11.2]
        o = q.fit(xs, ys, "linear", yerr=0.2)
        log.append(["other-fit", float(o[0].value), float(o[1].error),
                    float(q.get_correlation(o[0], o[1]))])
    elif what == "same-fit-again":
        # the same request once more: a second result with parameter objects of its own
        o = call_fit(q, case, holder={})
        log.append(["same-fit-again", [float(p.value) for p in o.params]])
    elif what == "other-measurements":
        a = q.Measurement(5.0, 0.5)
        b = q.Measurement(3.0, 0.2)
        q.set_covariance(a, b, 0.05)
        c = a * b
        log.append(["other-measurements", float(c.value), float(c.error),
                    float(q.get_correlation(a, b))])
    elif what == "gc":
        # the user's other objects go away and the collector runs (the result keeps what it needs)
        import gc
        tmp = q.MeasurementArray([1.0, 2.0, 3.0], 0.1)
        del tmp
        gc.collect()
    elif what == "fault":
        # rejected requests (each raises; nothing may have changed)
        for req in (lambda: q.set_print_style("nonsense"), lambda: q.set_sig_figs_for_error(-1),
                    lambda: q.set_error_method("guess"), lambda: q.set_monte_carlo_sample_size(-5),
                    lambda: q.set_correlation(r[0], r[0] if len(r.params) < 2 else r[1], 7.0)):
            try:
                req()
                log.append(["fault", "accepted"])
            except Exception as e:  # noqa: BLE001
                log.append(["fault", type(e).__name__])
    else:
        raise KeyError(what)


def run_hist(q, r, case, holder, out):
    """the history between the two rounds of evaluations (see gen_hist)"""
    import os
    import numpy as np
    pts = eval_points(case)
    log = []
    for st in case.get("hist") or []:
        k = st[0]
        if k == "switch":
            _, i, form, spell = st
            if form == "scalar":
                first = r.fit_function(pts[i])
            elif form == "list":
                first = r.fit_function(list(pts))[i]
            else:
                first = r.fit_function(np.array(pts))[i]
            first.error_method = "monte-carlo" if spell == "str" else q.ErrorMethod.MONTE_CARLO
            try:
                first.mc.sample_size = 50
                log.append(["switch", float(first.value), float(first.error)])
            except Exception as e:  # noqa: BLE001  (the Monte Carlo read itself is not C07's subject)
                log.append(["switch", type(e).__name__])
        elif k == "plot":
            import matplotlib.pyplot as plt
            import qexpy.plotting as qplt
            fig = holder.get("fig") or qplt.plot(r)
            fig.savefig(os.devnull, format="png")
            plt.close("all")
            log.append(["plot", "Plot.fit" if holder.get("fig") else "plot(result)"])
        elif k == "global-mc":
            q.set_error_method(q.ErrorMethod.MONTE_CARLO)
            q.set_monte_carlo_sample_size(50)
            try:
                v = r.fit_function(pts[st[1]])
                log.append(["global-mc", float(v.value), float(v.error)])
            except Exception as e:  # noqa: BLE001
                log.append(["global-mc", type(e).__name__])
            q.set_error_method(q.ErrorMethod.DERIVATIVE)
            q.set_monte_carlo_sample_size(10000)
        elif k == "reread":
            v = r.fit_function(pts[st[1]])
            log.append(["reread", float(v.value), float(v.error), float(v.value), float(v.error)])
        elif k == "config":
            _, changes, read, back = st
            for name, value, route in changes:
                _apply_setting(q, name, value, route)
            if read == "str":
                log.append(["config", str(r)])
            elif read == "fit":
                v = r.fit_function(pts[0])
                log.append(["config", str(v), float(v.value), float(v.error)])
            if back == "reset_default_configuration":
                q.reset_default_configuration()
            elif back == "settings.reset":
                q.get_settings().reset()
            else:
                for name, _value, route in changes:
                    _apply_setting(q, name, CONFIG_DEFAULTS[name], route)
        elif k == "session":
            _session_step(q, r, case, st[1], log)
        else:
            raise KeyError(k)
    out["hist_log"] = log


def observe(q, case, drop_xerr=False, full=True, use_range=True):
    """run the real library; everything the checks look at, as plain floats"""
    import numpy as np
    reset(q)
    out = {}
    holder = {}
    with warnings.catch_warnings():
        warnings.simplefilter("ignore")
        try:
            np.random.seed(case.get("npseed", 20240229))
            r = call_fit(q, case, drop_xerr=drop_xerr, use_range=use_range, holder=holder)
            if holder.get("fault_log"):
                out["fault_log"] = holder.pop("fault_log")
            holder.pop("fault_log", None)
            ps = r.params
            m = len(ps)
            out["popt"] = [float(p.value) for p in ps]
            out["perr"] = [float(p.error) for p in ps]
            cov = [[0.0] * m for _ in range(m)]
            corr = [[0.0] * m for _ in range(m)]
            for i in range(m):
                for j in range(m):
                    cov[i][j] = float(ps[i].error) ** 2 if i == j else float(
                        q.get_covariance(r[i], r[j]))
                    corr[i][j] = float(q.get_correlation(r[i], r[j]))
            out["cov"], out["regcorr"] = cov, corr
            if full:
                out["str"] = str(r)
                # the same text with numpy asked for 17 significant digits instead of 3 (the result
                # object offers the reported matrix through str() only)
                orig = np.array_str
                try:
                    np.array_str = lambda a, max_line_width=None, precision=None, \
                        suppress_small=None: orig(a, max_line_width=10 ** 6, precision=17,
                                                  suppress_small=False)
                    out["str_hi"] = str(r)
                except Exception:  # noqa: BLE001
                    out["str_hi"] = None
                finally:
                    np.array_str = orig
                out["chi2"] = float(r.chi_squared)
                out["ndof"] = int(r.ndof)
                out["res"] = [[float(v.value), float(v.error)] for v in r.residuals]
                xs = eval_points(case)

                def evaluate(sfx):
                    one = [r.fit_function(x) for x in xs]
                    out["fit" + sfx] = [[float(v.value), float(v.error)] for v in one]
                    lst = r.fit_function(list(xs))
                    out["fit_list" + sfx] = [[float(v.value), float(v.error)] for v in lst]
                    out["fit_list_type" + sfx] = type(lst).__name__
                    arr = r.fit_function(np.array(xs))
                    out["fit_array" + sfx] = [[float(v.value), float(v.error)] for v in arr]
                    out["fit_array_type" + sfx] = type(arr).__name__
                    # scalars of the other numeric types: numpy floats, and ints where x is one
                    other = [r.fit_function(int(x) if float(x).is_integer() and abs(x) < 2 ** 53
                                            else np.float64(x)) for x in xs]
                    out["fit_npscalar" + sfx] = [[float(v.value), float(v.error)] for v in other]
                    # every other numeric type that represents the point exactly (TYPE NOTES):
                    # Fraction always does; numpy integers / float32 where the point is one
                    tp = [typed_point(np, x, k + len(sfx)) for k, x in enumerate(xs)]
                    typed = [r.fit_function(x) for x in tp]
                    out["fit_typed" + sfx] = [[float(v.value), float(v.error)] for v in typed]
                    out["fit_typed_types" + sfx] = [type(x).__name__ for x in tp]
                    tp = [typed_point(np, x, k + 1) for k, x in enumerate(xs)]
                    tl = r.fit_function(tp)
                    out["fit_typedlist" + sfx] = [[float(v.value), float(v.error)] for v in tl]
                    out["fit_typedlist_types" + sfx] = [type(x).__name__ for x in tp]
                    # arrays of the other dtypes, where every point is representable
                    for dt_, key in ((np.float32, "fit_array_f32"), (np.int64, "fit_array_i64"),
                                     (np.int32, "fit_array_i32")):
                        try:
                            ta = conv_seq(np, "array:" + dt_.__name__, xs)
                        except (ValueError, OverflowError):
                            continue
                        res_ = r.fit_function(ta)
                        out[key + sfx] = [[float(v.value), float(v.error)] for v in res_]
                if case.get("hist") and case.get("hist_first"):
                    pass        # nothing evaluated before the history
                else:
                    evaluate("")
                if case.get("hist"):
                    run_hist(q, r, case, holder, out)
                    evaluate("@after")
                    # the rest of the result is read again as well: nothing in it may have moved
                    out["chi2@after"] = float(r.chi_squared)
                    out["res@after"] = [[float(v.value), float(v.error)] for v in r.residuals]
                    out["perr@after"] = [float(p.error) for p in r.params]
                    out["popt@after"] = [float(p.value) for p in r.params]
                    out["regcorr@after"] = [[float(q.get_correlation(r[i], r[j])) for j in range(m)]
                                            for i in range(m)]
                    out["str@after"] = str(r)
                    if case.get("hist_first"):
                        for k in ("fit", "fit_list", "fit_list_type", "fit_array", "fit_array_type",
                                  "fit_npscalar", "fit_typed", "fit_typedlist", "fit_array_f32",
                                  "fit_array_i64", "fit_array_i32"):
                            if k + "@after" in out:
                                out[k] = out[k + "@after"]
        except Exception as e:  # noqa: BLE001
            out["exception"] = "{}: {}".format(type(e).__name__, e)
    if holder:
        import matplotlib.pyplot as plt
        plt.close("all")
    reset(q)
    return out


def parse_corr_matrix(text):
    """the matrix printed by str(result) between 'Correlation Matrix:' and 'chi2/ndof'"""
    import re
    i = text.find("Correlation Matrix:")
    j = text.find("chi2/ndof")
    if i < 0 or j < 0:
        return None
    body = text[i + len("Correlation Matrix:"):j]
    nums = re.findall(r"[-+]?(?:\d+\.?\d*|\.\d+)(?:[eE][-+]?\d+)?|nan|inf", body)
    return [float(v) for v in nums]      # flat, row-major (numpy may wrap long rows)


def corpus(pid):
    """past false alarms / disagreements kept as regression inputs: corpus/<pid>/*.json (a case, or
    a replay file whose failure carries one); always run first"""
    import glob
    import json
    import os
    root = os.path.join(os.path.dirname(os.path.dirname(os.path.abspath(__file__))), "corpus", pid)
    out = []
    for fn in sorted(glob.glob(os.path.join(root, "*.json"))):
        try:
            with open(fn) as f:
                d = json.load(f)
            c = d.get("failure", {}).get("case") if "failure" in d else d
            if c and "x" in c and "model" in c:
                out.append(c)
        except (OSError, ValueError):
            continue
    return out

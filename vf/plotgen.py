"""C19: generator of plot specifications, the harness that builds each plot with the real API,
renders it through savefig on the Agg backend and reads the artists back, and the projection
of both sides (artists / model draw commands) into one canonical form.

case = {"objs": [obj...], "errorBars": b, "residuals": b, "legend": b,
        "over": {"xname","xunit","yname","yunit","title"}, "xrange": None|[lo,hi], "mcseed": n}
obj  = {"t":"dataset", "xs","ys","xerr","yerr" (None|float|list), "range", "xname","xunit",
        "yname","yunit","name","label", "how": "arrays"|"xydataset"|"marrays", "fmt"}
     | {"t":"function", "nodes","root", "params": [[v, e|None]...], "range", "xname".., "label"}
     | {"t":"fit", "via": "plot.fit"|"plot(result)", "model", "degrees", "parguess", "range",
        "data": dataset-obj (for plot(result)), "label"}
     | {"t":"hist", "samples", "bins": int|[edges], "range", "how": "marray"|"list", "label"}
"""
import ast
import hashlib
import io
import math
import os
import warnings

import exprgen
from common import bits, unbits, REPO

# ----------------------------------------------------------------------------- formulas
def _n(nodes, node):
    nodes.append(node)
    return len(nodes) - 1


def _c(nodes, v):
    return _n(nodes, ["const", bits(float(v))])


def fit_expr(model, k):
    """a function of the model's family as expr nodes (var 0 = x, var 1..k = parameters).  Used
    ONLY to synthesise plausible data for a fit (and, for "custom", as the user-defined fit
    function itself).  The model side never sees it for the pre-set models: there the formula is the
    generated `Gen.fitRule` of Generated/Fitters.lean (see model_line)."""
    nd = [["var", i] for i in range(k + 1)]
    x = 0
    if model == "linear":
        r = _n(nd, ["bin", "add", _n(nd, ["bin", "mul", 1, x]), 2])
    elif model == "quadratic":
        x2 = _n(nd, ["bin", "pow", x, _c(nd, 2)])
        r = _n(nd, ["bin", "add", _n(nd, ["bin", "add", _n(nd, ["bin", "mul", 1, x2]),
                                           _n(nd, ["bin", "mul", 2, x])]), 3])
    elif model == "polynomial":
        acc = 1
        for c in range(2, k + 1):
            acc = _n(nd, ["bin", "add", _n(nd, ["bin", "mul", acc, x]), c])
        r = acc
    elif model == "exponential":      # lambda x, c, a: c * exp(-a * x)
        r = _n(nd, ["bin", "mul", 1, _n(nd, ["un", "exp", _n(nd, ["bin", "mul", _n(nd, ["un", "neg", 2]), x])])])
    elif model == "gaussian":         # norm / sqrt(2*pi*std**2) * exp(-1/2*(x-mean)**2/std**2)
        s2 = _n(nd, ["bin", "pow", 3, _c(nd, 2)])
        den = _n(nd, ["un", "sqrt", _n(nd, ["bin", "mul", _c(nd, 2 * math.pi), s2])])
        d2 = _n(nd, ["bin", "pow", _n(nd, ["bin", "sub", x, 2]), _c(nd, 2)])
        s2b = _n(nd, ["bin", "pow", 3, _c(nd, 2)])
        arg = _n(nd, ["bin", "div", _n(nd, ["bin", "mul", _c(nd, -1 / 2), d2]), s2b])
        r = _n(nd, ["bin", "mul", _n(nd, ["bin", "div", 1, den]), _n(nd, ["un", "exp", arg])])
    elif model == "custom":           # lambda x, a, b: a * q.sin(x) + b
        r = _n(nd, ["bin", "add", _n(nd, ["bin", "mul", 1, _n(nd, ["un", "sin", x])]), 2])
    else:
        raise KeyError(model)
    return nd, r


def py_eval_nodes(q, nodes, root, x, pars):
    """evaluate expr nodes with the library's functions and Python operators"""
    memo = {}

    def ev(k):
        if k in memo:
            return memo[k]
        nd = nodes[k]
        if nd[0] == "var":
            v = x if nd[1] == 0 else pars[nd[1] - 1]
        elif nd[0] == "const":
            v = unbits(nd[1])
        elif nd[0] == "un":
            a = ev(nd[2])
            v = -a if nd[1] == "neg" else (q.log(a) if nd[1] == "ln" else getattr(q, nd[1])(a))
        else:
            a, b = ev(nd[2]), ev(nd[3])
            v = q.log(a, b) if nd[1] == "log" else exprgen.PYOPS[nd[1]](a, b)
        memo[k] = v
        return v
    return ev(root)


def float_eval_nodes(nodes, root, x, pars):
    """plain float reference evaluation (math module)"""
    def ev(k):
        nd = nodes[k]
        if nd[0] == "var":
            return x if nd[1] == 0 else pars[nd[1] - 1]
        if nd[0] == "const":
            return unbits(nd[1])
        if nd[0] == "un":
            a = ev(nd[2])
            return {"neg": lambda t: -t, "sin": math.sin, "cos": math.cos, "exp": math.exp,
                    "sqrt": math.sqrt, "ln": math.log, "tan": math.tan, "atan": math.atan}[nd[1]](a)
        a, b = ev(nd[2]), ev(nd[3])
        op = nd[1]
        if op == "add":
            return a + b
        if op == "sub":
            return a - b
        if op == "mul":
            return a * b
        if op == "div":
            return a / b if b else float("nan")
        return a ** b
    return ev(root)


FUNC_FAMILIES = ["line", "parabola", "sinus", "expo", "rational", "noparam_poly", "noparam_sin",
                 "noparam_sqrt"]


def func_expr(rng, fam):
    """(nodes, root, params) — params: list of (value, error-or-None)"""
    def par(lo, hi, with_err):
        v = rng.uniform(lo, hi)
        return [v, abs(v) * 10 ** rng.uniform(-3, -1) if with_err else None]
    we = rng.random() < 0.6       # parameters are measurements (band with non-zero width)
    nd = [["var", 0]]
    x = 0
    if fam == "line":
        ps = [par(-3, 3, we), par(-5, 5, we and rng.random() < 0.7)]
        nd += [["var", 1], ["var", 2]]
        r = _n(nd, ["bin", "add", _n(nd, ["bin", "mul", 1, x]), 2])
    elif fam == "parabola":
        ps = [par(-2, 2, we), par(-3, 3, False), par(-5, 5, we)]
        nd += [["var", 1], ["var", 2], ["var", 3]]
        x2 = _n(nd, ["bin", "pow", x, _c(nd, 2)])
        r = _n(nd, ["bin", "add", _n(nd, ["bin", "add", _n(nd, ["bin", "mul", 1, x2]),
                                           _n(nd, ["bin", "mul", 2, x])]), 3])
    elif fam == "sinus":
        ps = [par(0.5, 3, we), par(0.3, 2, we), par(-2, 2, False)]
        nd += [["var", 1], ["var", 2], ["var", 3]]
        r = _n(nd, ["bin", "add", _n(nd, ["bin", "mul", 1, _n(nd, ["un", "sin", _n(nd, ["bin", "mul", 2, x])])]), 3])
    elif fam == "expo":
        ps = [par(0.5, 5, we), par(0.05, 0.3, we)]
        nd += [["var", 1], ["var", 2]]
        r = _n(nd, ["bin", "mul", 1, _n(nd, ["un", "exp", _n(nd, ["un", "neg", _n(nd, ["bin", "mul", 2, x])])])])
    elif fam == "rational":
        ps = [par(0.5, 5, we)]
        nd += [["var", 1]]
        r = _n(nd, ["bin", "div", 1, _n(nd, ["bin", "add", _c(nd, 1), _n(nd, ["bin", "pow", x, _c(nd, 2)])])])
    elif fam == "noparam_poly":
        ps = []
        r = _n(nd, ["bin", "sub", _n(nd, ["bin", "pow", x, _c(nd, 2)]), _n(nd, ["bin", "mul", _c(nd, 3), x])])
    elif fam == "noparam_sin":
        ps = []
        r = _n(nd, ["un", "sin", x])
    else:
        ps = []
        r = _n(nd, ["un", "sqrt", _n(nd, ["bin", "add", _n(nd, ["bin", "mul", x, x]), _c(nd, 1)])])
    return nd, r, ps


# ----------------------------------------------------------------------------- generator
NAMES = ["", "time", "length", "U", "x"]
UNITS = ["", "s", "m", "V", "kg*m/s^2"]


def _grid(rng, n):
    """x values: sorted or shuffled, on a grid of quarter units so that range bounds can hit points"""
    start = rng.randint(-8, 8) / 2
    step = rng.choice([0.25, 0.5, 1.0, 1.5])
    xs = [start + i * step for i in range(n)]
    if rng.random() < 0.3:
        rng.shuffle(xs)
    if rng.random() < 0.3:
        xs = [x + rng.uniform(-0.1, 0.1) for x in xs]
    return xs


def _range_for(rng, xs):
    """an x-range relative to the data: bounds exactly on data points or between/outside them"""
    s = sorted(xs)
    r = rng.random()
    if r < 0.35 and len(s) >= 3:
        i = rng.randint(0, len(s) - 2)
        j = rng.randint(i + 1, len(s) - 1)
        return [s[i], s[j]]                       # both bounds exactly on points: lo kept, hi dropped
    if r < 0.6:
        return [s[0] - rng.uniform(0, 1), s[-1] - rng.uniform(0, (s[-1] - s[0]) * 0.7)]
    if r < 0.8:
        return [s[0] + rng.uniform(0, (s[-1] - s[0]) * 0.5), s[-1] + rng.uniform(0, 1)]
    if r < 0.9:
        return [s[0] - 1.0, s[-1] + 1.0]          # removes nothing
    return [s[-1], s[-1] + 2.0]                   # only lo == last point survives


def _errs(rng, n, scale):
    r = rng.random()
    if r < 0.3:
        return None
    if r < 0.55:
        return scale * 10 ** rng.uniform(-2, -0.5)
    return [scale * 10 ** rng.uniform(-2, -0.5) for _ in range(n)]


def gen_dataset(rng, for_fit=None):
    n = rng.randint(4, 12) if for_fit else rng.randint(1, 12)
    xs = _grid(rng, n)
    if for_fit:
        ys = for_fit(xs)
    else:
        ys = [rng.uniform(-10, 10) for _ in xs]
    scale = max(1e-3, max(abs(y) for y in ys))
    d = {"t": "dataset", "xs": xs, "ys": ys, "xerr": _errs(rng, n, 0.5), "yerr": _errs(rng, n, scale * 0.2),
         "range": _range_for(rng, xs) if rng.random() < 0.55 else None,
         "xname": rng.choice(NAMES), "xunit": rng.choice(UNITS),
         "yname": rng.choice(NAMES), "yunit": rng.choice(UNITS),
         "name": rng.choice(["", "run1", "series B"]), "label": rng.choice(["", "", "pts"]),
         "how": rng.choice(["arrays", "xydataset", "marrays"]), "fmt": rng.choice(["", "", "s", "^"])}
    return d


def gen_function(rng):
    nodes, root, ps = func_expr(rng, rng.choice(FUNC_FAMILIES))
    return {"t": "function", "nodes": nodes, "root": root, "params": ps,
            "range": sorted([rng.uniform(-6, 0), rng.uniform(0.5, 8)]) if rng.random() < 0.5 else None,
            "xname": rng.choice(NAMES + [""] * 3), "xunit": rng.choice(UNITS + [""] * 3),
            "yname": rng.choice(NAMES + [""] * 3), "yunit": rng.choice(UNITS + [""] * 3),
            "label": rng.choice(["", "", "model"])}


FIT_MODELS = ["linear", "quadratic", "polynomial", "exponential", "gaussian", "custom"]


def _true_params(rng, model, degrees):
    if model == "linear":
        return [rng.uniform(-3, 3) or 1.0, rng.uniform(-5, 5)]
    if model == "quadratic":
        return [rng.uniform(0.3, 2) * rng.choice([1, -1]), rng.uniform(-3, 3), rng.uniform(-5, 5)]
    if model == "polynomial":
        return [rng.uniform(0.2, 1.5) * rng.choice([1, -1])] + [rng.uniform(-2, 2) for _ in range(degrees)]
    if model == "exponential":
        return [rng.uniform(2, 10), rng.uniform(0.1, 0.5)]
    if model == "gaussian":
        return [rng.uniform(5, 30), rng.uniform(-1, 3), rng.uniform(0.8, 2.0)]
    return [rng.uniform(1, 4), rng.uniform(-2, 2)]


def gen_fit(rng, via, model=None):
    model = model or rng.choice(FIT_MODELS)
    degrees = rng.randint(1, 4) if model == "polynomial" else None
    k = {"linear": 2, "quadratic": 3, "exponential": 2, "gaussian": 3, "custom": 2}.get(
        model, (degrees or 0) + 1)
    truth = _true_params(rng, model, degrees)
    nodes, root = fit_expr(model, k)
    noise = 10 ** rng.uniform(-3.5, -2)

    def ygen(xs):
        ys = [float_eval_nodes(nodes, root, x, truth) for x in xs]
        sc = max(1e-3, max(abs(y) for y in ys))
        return [y + rng.gauss(0, noise * sc) for y in ys]
    data = gen_dataset(rng, for_fit=ygen)
    while len(data["xs"]) < k + 3:
        data = gen_dataset(rng, for_fit=ygen)
    if model == "gaussian":
        # make sure the peak is inside the data
        lo, hi = min(data["xs"]), max(data["xs"])
        truth[1] = rng.uniform(lo + 0.2 * (hi - lo), hi - 0.2 * (hi - lo))
        truth[2] = max(0.5, (hi - lo) * rng.uniform(0.15, 0.3))
        data["ys"] = ygen(data["xs"])
    data["xerr"] = None if rng.random() < 0.7 else data["xerr"]
    fr = None
    if rng.random() < 0.4:
        s = sorted(data["xs"])
        # keep at least k+2 points inside [lo, hi)
        if len(s) >= k + 4:
            cut = rng.randint(0, len(s) - (k + 3))
            lo_i = rng.randint(0, cut)
            hi_i = len(s) - 1 - (cut - lo_i)
            fr = [s[lo_i] if rng.random() < 0.5 else s[lo_i] - 0.1,
                  s[hi_i] + 0.1 if hi_i == len(s) - 1 or rng.random() < 0.5 else s[hi_i] + 1e-9]
    guess = None
    if model in ("exponential", "gaussian", "custom"):
        guess = [t * rng.uniform(0.93, 1.07) for t in truth]
    return {"t": "fit", "via": via, "model": model, "degrees": degrees, "parguess": guess,
            "range": fr, "data": data, "label": rng.choice(["", "", "best fit"]), "k": k}


def gen_hist(rng):
    n = rng.randint(5, 60)
    mode = rng.random()
    if mode < 0.4:
        samples = [float(rng.randint(0, 9)) for _ in range(n)]        # many samples exactly on edges
    elif mode < 0.7:
        samples = [rng.gauss(5, 2) for _ in range(n)]
    else:
        samples = [round(rng.uniform(0, 10) * 4) / 4 for _ in range(n)]
    lo, hi = min(samples), max(samples)
    if lo == hi:
        samples.append(lo + 1.0)
        hi = lo + 1.0
    r = rng.random()
    rg = None
    if r < 0.4:
        bins = rng.randint(1, 12)
        if rng.random() < 0.4:
            rg = [lo + rng.choice([0, 0.5, 1.0, -1.0]), hi - rng.choice([0, 0.5, 1.0, -1.0])]
            if rg[0] >= rg[1]:
                rg = [lo, hi]
    else:
        m = rng.randint(1, 8)
        if rng.random() < 0.5:
            start = math.floor(lo) - rng.choice([0, 1]) + rng.choice([0, 0, 2])
            width = rng.choice([0.5, 1.0, 2.0])
            bins = [start + i * width for i in range(m + 1)]            # uniform explicit edges
        else:
            pts = sorted({round(rng.uniform(lo - 1, hi + 1), 2) for _ in range(m + 1)})
            if len(pts) < 2:
                pts = [lo, hi]
            bins = pts                                                   # non-uniform explicit edges
    return {"t": "hist", "samples": samples, "bins": bins, "range": rg,
            "how": rng.choice(["marray", "list"]), "label": rng.choice(["", "", "counts"])}


def gen_case(rng, kinds=None):
    n_obj = rng.randint(2, 5) if rng.random() < 0.85 else 1
    objs = []
    have_target = False
    for _ in range(n_obj):
        r = rng.random()
        kind = rng.choice(kinds) if kinds else (
            "dataset" if r < 0.35 else "function" if r < 0.6 else "fit" if r < 0.85 else "hist")
        if kind == "dataset":
            objs.append(gen_dataset(rng))
            have_target = True
        elif kind == "function":
            objs.append(gen_function(rng))
        elif kind == "hist":
            objs.append(gen_hist(rng))
        elif rng.random() < 0.15:
            # Plot.fit applied to a histogram: the bin centres / counts are fitted
            h = gen_hist(rng)
            nb = (len(h["bins"]) - 1) if isinstance(h["bins"], list) else h["bins"]
            objs.append(h)
            if nb >= 5:
                model = rng.choice(["linear", "quadratic", "polynomial"])
                deg = 3 if model == "polynomial" else None
                if model == "polynomial" and nb < 7:
                    model, deg = "linear", None
                objs.append({"t": "fit", "via": "plot.fit", "model": model, "degrees": deg,
                             "parguess": None, "range": None, "data": None, "label": "",
                             "k": {"linear": 2, "quadratic": 3}.get(model, 4),
                             "target": len(objs) - 1, "on": "hist"})
            have_target = True
        else:
            f = gen_fit(rng, rng.choice(["plot.fit", "plot(result)"]))
            if f["via"] == "plot.fit":
                # Plot.fit fits the last data set on the plot: add the data set, then the fit
                d = dict(f["data"])
                objs.append(d)
                f = dict(f)
                f["target"] = len(objs) - 1
            objs.append(f)
            have_target = True
    # a function without its own range needs a plot domain
    if all(o["t"] == "function" and o["range"] is None for o in objs):
        objs.append(gen_dataset(rng))
    if rng.random() < 0.5:
        # order of adding is arbitrary, except that a Plot.fit follows its data set
        blocks, i = [], 0
        while i < len(objs):
            if i + 1 < len(objs) and objs[i + 1].get("target") == i:
                blocks.append([objs[i], objs[i + 1]])
                i += 2
            else:
                blocks.append([objs[i]])
                i += 1
        rng.shuffle(blocks)
        objs = []
        for b in blocks:
            if len(b) == 2:
                b[1]["target"] = len(objs)
            objs += b
    over = {k: (rng.choice(["Q", "over ride"]) if rng.random() < 0.15 else "")
            for k in ("xname", "xunit", "yname", "yunit", "title")}
    return {"objs": objs, "errorBars": rng.random() < 0.6, "residuals": rng.random() < 0.5,
            "legend": rng.random() < 0.5, "over": over,
            "xrange": sorted([rng.uniform(-10, 0), rng.uniform(1, 12)]) if rng.random() < 0.12 else None,
            "mcseed": rng.randint(0, 2 ** 31 - 1)}


# ----------------------------------------------------------------------------- real library
def _err_list(e, n):
    if e is None:
        return [0.0] * n
    if isinstance(e, (int, float)):
        return [float(e)] * n
    return [float(v) for v in e]


def _xy_kwargs(o):
    kw = {}
    for k in ("xname", "xunit", "yname", "yunit"):
        if o.get(k):
            kw[k] = o[k]
    return kw


def add_dataset(q, np, p, o):
    kw = _xy_kwargs(o)
    if o["range"] is not None:
        kw["xrange"] = tuple(o["range"])
    if o["label"]:
        kw["label"] = o["label"]
    if o["fmt"]:
        kw["fmt"] = o["fmt"]
    if o["how"] == "xydataset":
        dkw = _xy_kwargs(o)
        if o["name"]:
            dkw["name"] = o["name"]
        if o["xerr"] is not None:
            dkw["xerr"] = o["xerr"]
        if o["yerr"] is not None:
            dkw["yerr"] = o["yerr"]
        ds = q.XYDataSet(list(o["xs"]), list(o["ys"]), **dkw)
        kw2 = {k: v for k, v in kw.items() if k in ("xrange", "label", "fmt")}
        p.plot(ds, **kw2)
        return ds
    if o["name"]:
        kw["name"] = o["name"]
    if o["how"] == "marrays":
        xa = q.MeasurementArray(list(o["xs"]), o["xerr"] if o["xerr"] is not None else 0.0)
        ya = q.MeasurementArray(list(o["ys"]), o["yerr"] if o["yerr"] is not None else 0.0)
        p.plot(xa, ya, **kw)
    else:
        if o["xerr"] is not None:
            kw["xerr"] = o["xerr"]
        if o["yerr"] is not None:
            kw["yerr"] = o["yerr"]
        xs = np.array(o["xs"]) if len(o["xs"]) % 2 else list(o["xs"])
        p.plot(xs, list(o["ys"]), **kw)
    return p._objects[-1].dataset


def make_callable(q, o):
    nodes, root = o["nodes"], o["root"]
    if o["params"]:
        return lambda x, *pars: py_eval_nodes(q, nodes, root, x, pars)
    return lambda x: py_eval_nodes(q, nodes, root, x, [])


def add_function(q, p, o):
    kw = _xy_kwargs(o)
    if o["range"] is not None:
        kw["xrange"] = tuple(o["range"])
    if o["label"]:
        kw["label"] = o["label"]
    pars = [q.Measurement(v, e) if e is not None else v for v, e in o["params"]]
    if pars:
        kw["pars"] = pars
    p.plot(make_callable(q, o), **kw)
    return pars


def fit_kwargs(q, o):
    kw = {"model": o["model"]}
    if o["model"] == "custom":
        kw["model"] = lambda x, a, b: a * q.sin(x) + b
    if o["degrees"] is not None:
        kw["degrees"] = o["degrees"]
    if o["parguess"] is not None:
        kw["parguess"] = list(o["parguess"])
    if o["range"] is not None:
        kw["xrange"] = tuple(o["range"])
    return kw


class Skip(Exception):
    pass


def build_plot(q, np, case, p=None, info=None, lo=None, hi=None):
    """returns (plot, info) — info per object: API-level facts needed by the model / oracles.
    With `p` given, the objects lo <= idx < hi are added to that existing plot (a step of a
    history) and the plot's switches are left alone."""
    from qexpy.plotting.plotting import Plot
    step = p is not None
    p = p if step else (ModulePlot() if case.get("via_module") else Plot())
    info = info if step else []
    lo, hi = (lo, hi) if step else (0, case.get("n0", len(case["objs"])))
    datasets = {}
    for idx, o in enumerate(case["objs"]):
        if not lo <= idx < hi:
            continue
        t = o["t"]
        if t == "dataset":
            ds = add_dataset(q, np, p, o)
            datasets[idx] = ds
            info.append({"dataset": ds})
        elif t == "function":
            pars = add_function(q, p, o)
            info.append({"pars": pars})
        elif t == "hist":
            kw = {}
            if isinstance(o["bins"], list):
                kw["bins"] = list(o["bins"])
            else:
                kw["bins"] = o["bins"]
            if o["range"] is not None:
                kw["range"] = tuple(o["range"])
            if o["label"]:
                kw["label"] = o["label"]
            kw.update(hist_kwargs(o))
            if o.get("default_bins"):
                del kw["bins"]          # the library's default binning (10 bins)
            s = q.MeasurementArray(list(o["samples"])) if o["how"] == "marray" else list(o["samples"])
            n, edges = p.hist(s, **kw)
            info.append({"returned": ([float(v) for v in n], [float(v) for v in edges])})
        else:
            kw = fit_kwargs(q, o)
            lab = {"label": o["label"]} if o["label"] else {}
            try:
                if o["via"] == "plot.fit":
                    res = p.fit(**kw, **lab)
                else:
                    d = o["data"]
                    dkw = {}
                    if d["xerr"] is not None:
                        dkw["xerr"] = d["xerr"]
                    if d["yerr"] is not None:
                        dkw["yerr"] = d["yerr"]
                    res = q.fit(list(d["xs"]), list(d["ys"]), **kw, **dkw)
                    p.plot(res, **lab)
            except RuntimeError as e:
                raise Skip("fit did not converge: {}".format(e))
            info.append({"result": res})
    if step:
        return p, info
    if case["xrange"] is not None:
        p.xrange = tuple(case["xrange"])
    for k, v in case["over"].items():
        if v:
            setattr(p, k, v)
    p.error_bars(case["errorBars"])
    p.residuals(case["residuals"])
    p.legend(case["legend"])
    return p, info


def parse_band(np, coll):
    """(xs, lo, hi) from the vertices of a fill_between polygon: start, N lower points forward,
    end, N upper points backward, close"""
    v = coll.get_paths()[0].vertices
    n = (len(v) - 3) // 2
    if len(v) != 2 * n + 3:
        raise ValueError("unexpected fill_between polygon with {} vertices".format(len(v)))
    low = v[1:n + 1]
    up = v[n + 2:2 * n + 2][::-1]
    return [float(t) for t in low[:, 0]], [float(t) for t in low[:, 1]], [float(t) for t in up[:, 1]], \
        [float(t) for t in up[:, 0]]


def self_test_parse_band(np):
    """the polygon layout is matplotlib's, not ours: check the parser on a known band first"""
    import matplotlib.pyplot as mpl
    fig = mpl.figure()
    ax = fig.add_subplot()
    xs = np.linspace(0, 1, 7)
    lo, hi = xs * 2 - 1, xs * 2 + 1.5
    c = ax.fill_between(xs, lo, hi, interpolate=True)
    px, plo, phi, pxu = parse_band(np, c)
    mpl.close(fig)
    return px == list(xs) and plo == list(lo) and phi == list(hi) and pxu == list(xs)


def read_axes(np, ax, which):
    """canonical artists of one axes"""
    from matplotlib.container import ErrorbarContainer, BarContainer
    from matplotlib.collections import PolyCollection
    out = {"lines": [], "bands": [], "bars": []}
    eb = {}
    for c in ax.containers:
        if isinstance(c, ErrorbarContainer):
            eb[id(c.lines[0])] = c
    for ln in ax.lines:
        xs = [float(v) for v in np.asarray(ln.get_xdata(orig=True), dtype=float)]
        ys = [float(v) for v in np.asarray(ln.get_ydata(orig=True), dtype=float)]
        c = eb.get(id(ln))
        if c is not None:
            bars = list(c.lines[2])
            d = {"c": "errorbars", "ax": which, "xs": xs, "ys": ys, "label": c.get_label()}
            k = 0
            for nm, has in (("x", c.has_xerr), ("y", c.has_yerr)):
                if has:
                    segs = bars[k].get_segments()
                    k += 1
                    d[nm + "seg"] = [[[float(a) for a in pt] for pt in s] for s in segs]
                else:
                    d[nm + "seg"] = None
            out["lines"].append(d)
        else:
            mk, ls = ln.get_marker(), ln.get_linestyle()
            is_points = mk not in (None, "None", "", " ") and ls in ("None", "", " ", None)
            out["lines"].append({"c": "points" if is_points else "curve", "ax": which, "xs": xs,
                                 "ys": ys, "label": ln.get_label()})
    for c in ax.collections:
        if isinstance(c, PolyCollection):
            if not c.get_paths():
                # fill_between of uncertainties that are all not-a-number leaves no polygon at all
                out["bands"].append({"xs": [], "lo": [], "hi": [], "xs_upper": [], "empty": True})
                continue
            xs, lo, hi, xu = parse_band(np, c)
            out["bands"].append({"xs": xs, "lo": lo, "hi": hi, "xs_upper": xu})
    for c in ax.containers:
        if isinstance(c, BarContainer):
            ps = list(c.patches)
            edges = [float(r.get_x()) for r in ps] + ([float(ps[-1].get_x() + ps[-1].get_width())] if ps else [])
            out["bars"].append({"heights": [float(r.get_height()) for r in ps], "edges": edges,
                                "label": ps[0].get_label() if ps else c.get_label()})
    out["xlabel"], out["ylabel"], out["title"] = ax.get_xlabel(), ax.get_ylabel(), ax.get_title()
    leg = ax.get_legend()
    out["legend"] = sorted(t.get_text() for t in leg.get_texts()) if leg is not None else None
    return out


def observe(q, np, case):
    """build, render through savefig on Agg, read back"""
    import matplotlib.pyplot as mpl
    q.reset_default_configuration()
    q.reset_correlations()
    q.clear_unit_definitions()
    out = {}
    with warnings.catch_warnings():
        warnings.simplefilter("ignore")
        try:
            try:
                p, info = build_plot(q, np, case)
            except Skip as e:
                return {"skip": str(e)}
            except Exception as e:  # noqa: BLE001
                import traceback
                tb = traceback.extract_tb(e.__traceback__)
                where = next((f for f in reversed(tb) if "qexpy" in f.filename), tb[-1])
                out["exception"] = "{}: {}".format(type(e).__name__, e)
                out["where"] = "build:{}:{}".format(os.path.basename(where.filename), where.name)
                return out
            np.random.seed(case["mcseed"])
            # what else is open in matplotlib when the plot is rendered for the first time
            mpl_state(q, np, mpl, None, case.get("pre"))
            try:
                p.savefig(io.BytesIO(), format="png", dpi=20)
            except Exception as e:  # noqa: BLE001
                import traceback
                tb = traceback.extract_tb(e.__traceback__)
                where = next((f for f in reversed(tb) if "qexpy" in f.filename), tb[-1])
                if isinstance(e, AttributeError) and "linalg" in str(e):
                    # numpy>=2: `np.linalg.linalg` in the Monte-Carlo sampler's except clause —
                    # C02's defect (fixed by that team), not a statement about what is drawn
                    return {"skip": "C02 defect in the Monte Carlo sampler: {}".format(e)}
                ill = ill_conditioned_raise(np, e, where, case, info, len(info))
                if ill:
                    return {"skip": ill}
                out["exception"] = "{}: {}".format(type(e).__name__, e)
                out["where"] = "savefig:{}:{}".format(os.path.basename(where.filename), where.name)
                return out
            out.update(read_saved(np, mpl, p))
            if case.get("steps"):
                out["renders"] = later_renders(q, np, case, p, info)
            # API-level facts
            api = []
            for o, inf in zip(case["objs"], info):
                a = {}
                if o["t"] == "fit":
                    r = inf["result"]
                    ps = list(r.params)
                    a["params"] = [[float(x.value), float(x.error)] for x in ps]
                    a["corr"] = [[i, j, float(q.get_correlation(ps[i], ps[j]))]
                                 for i in range(len(ps)) for j in range(i + 1, len(ps))]
                    ds = r.dataset
                    a["data"] = {"xs": [float(v) for v in ds.xvalues], "ys": [float(v) for v in ds.yvalues],
                                 "xerr": [float(v) for v in ds.xerr], "yerr": [float(v) for v in ds.yerr]}
                    a["xrange"] = [float(v) for v in r.xrange] if r.xrange else None
                    a["residuals"] = {"values": [float(v) for v in r.residuals.values],
                                      "errors": [float(v) for v in r.residuals.errors]}
                    # the fit function itself at the sampled abscissae (derivative method: exact)
                    lo, hi = (r.xrange if r.xrange else (min(ds.xvalues), max(ds.xvalues)))
                    grid = np.linspace(lo, hi, 100)
                    ff = r.fit_function(grid)
                    a["ff"] = {"xs": [float(v) for v in grid], "values": [float(v.value) for v in ff],
                               "errors": [float(v.error) for v in ff]}
                elif o["t"] == "hist":
                    a["returned"] = inf["returned"]
                    a.update(hist_numpy(np, o))
                elif o["t"] == "dataset":
                    ds = inf["dataset"]
                    a["data"] = {"xs": [float(v) for v in ds.xvalues], "ys": [float(v) for v in ds.yvalues],
                                 "xerr": [float(v) for v in ds.xerr], "yerr": [float(v) for v in ds.yerr],
                                 "name": ds.name, "xunit": str(ds.xunit), "yunit": str(ds.yunit),
                                 "xname": str(ds.xname), "yname": str(ds.yname)}
                api.append(a)
            out["api"] = api
        finally:
            mpl.close("all")
            q.reset_default_configuration()
            q.reset_correlations()
    return out


# ----------------------------------------------------------------------------- model line
def _b(l):
    return [bits(v) for v in l]


def _rng(r):
    return None if r is None else _b(r)


def ds_model(o, label=None):
    n = len(o["xs"])
    lab = o.get("label") or o.get("name") or "XY Dataset"
    return {"t": "dataset", "xs": _b(o["xs"]), "ys": _b(o["ys"]), "xerr": _b(_err_list(o["xerr"], n)),
            "yerr": _b(_err_list(o["yerr"], n)), "range": _rng(o.get("range")),
            "xname": o.get("xname", ""), "xunit": o.get("xunit", ""), "yname": o.get("yname", ""),
            "yunit": o.get("yunit", ""), "label": lab if label is None else label}


def model_line(case, obs):
    objs = []
    for idx, o in enumerate(case["objs"]):
        t = o["t"]
        if t == "dataset":
            d = ds_model(o)
            # the unit is shown as the library prints it (unit printing is C13's subject)
            d["xunit"], d["yunit"] = obs["api"][idx]["data"]["xunit"], obs["api"][idx]["data"]["yunit"]
            objs.append(d)
        elif t == "function":
            vals = [0.0] + [v for v, _ in o["params"]]
            errs = [0.0] + [(e or 0.0) for _, e in o["params"]]
            objs.append({"t": "function", "nodes": o["nodes"], "root": o["root"], "vals": _b(vals),
                         "errs": _b(errs), "rho": [], "range": _rng(o["range"]),
                         "xname": o["xname"], "xunit": o["xunit"], "yname": o["yname"],
                         "yunit": o["yunit"], "label": o["label"]})
        elif t == "hist":
            h = {"t": "hist", "samples": _b(o["samples"]), "label": o["label"],
                 "density": bool(o.get("density")),
                 "weights": _b(o["weights"]) if o.get("weights") is not None else None}
            if isinstance(o["bins"], str):
                # a named rule ("auto", "sturges", ...): the edges are numpy's, as returned to the
                # caller (checked against numpy.histogram_bin_edges by the harness)
                h["edges"] = _b(obs["api"][idx]["returned"][1])
            elif isinstance(o["bins"], list):
                h["edges"] = _b(o["bins"])
            else:
                h["bins"] = o["bins"]
                h["range"] = _rng(o["range"])
            objs.append(h)
        else:
            a = obs["api"][idx]
            vals = [0.0] + [v for v, _ in a["params"]]
            errs = [0.0] + [e for _, e in a["params"]]
            rho = [[i + 1, j + 1, bits(r)] for i, j, r in a["corr"]]
            d = a["data"]
            rg = a["xrange"] if a["xrange"] else [min(d["xs"]), max(d["xs"])]
            fn = {"t": "function", "vals": _b(vals), "errs": _b(errs),
                  "rho": rho, "range": _b(rg), "label": o["label"]}
            if o["model"] == "custom":
                fn["nodes"], fn["root"] = fit_expr(o["model"], o["k"])
            else:
                # pre-set model: the driver builds the formula from the generated Gen.fitRule
                fn["model"], fn["k"] = o["model"], o["k"]
            data = {"t": "dataset", "xs": _b(d["xs"]), "ys": _b(d["ys"]), "xerr": _b(d["xerr"]),
                    "yerr": _b(d["yerr"]), "range": None, "label": ""}
            objs.append({"t": "fit", "fn": fn, "data": data})
    ov = case["over"]
    return {"cmd": "plot", "objs": objs, "errorBars": case["errorBars"], "residuals": case["residuals"],
            "legend": case["legend"], "xname": ov["xname"], "xunit": ov["xunit"], "yname": ov["yname"],
            "yunit": ov["yunit"], "title": ov["title"], "xrange": _rng(case["xrange"])}


def describe(case):
    """short human-readable description for evidence / replay files"""
    parts = []
    for o in case["objs"]:
        t = o["t"]
        if t == "dataset":
            parts.append("dataset(n={}, range={}, xerr={}, yerr={}, how={})".format(
                len(o["xs"]), o["range"], _kind(o["xerr"]), _kind(o["yerr"]), o["how"]))
        elif t == "function":
            parts.append("function({} params, {} measured, range={})".format(
                len(o["params"]), sum(1 for _, e in o["params"] if e is not None), o["range"]))
        elif t == "hist":
            parts.append("hist(n={}, bins={}, range={}{})".format(
                len(o["samples"]), o["bins"] if not isinstance(o["bins"], list) else
                "edges[{}]".format(len(o["bins"])), o["range"], hist_opts_text(o)))
        else:
            parts.append("fit({}, {}, range={}, via {})".format(
                o["model"], "deg={}".format(o["degrees"]) if o["degrees"] else (
                    "n={}".format(len(o["data"]["xs"])) if o["data"] else "of the histogram"),
                o["range"], o["via"]))
    return "{} | errorBars={} residuals={} legend={} over={} xrange={}".format(
        "; ".join(parts), case["errorBars"], case["residuals"], case["legend"],
        {k: v for k, v in case["over"].items() if v}, case["xrange"])


def _kind(e):
    return "none" if e is None else "common" if isinstance(e, (int, float)) else "per-point"


# ----------------------------------------------------------------------------- histogram options
STR_BINS = ["auto", "sturges", "sqrt", "fd", "doane", "scott", "rice", "stone"]


def hist_kwargs(o):
    """density= / weights= / a named binning rule, as given to Plot.hist"""
    kw = {}
    if isinstance(o["bins"], str):
        kw["bins"] = o["bins"]
    if o.get("density"):
        kw["density"] = True
    if o.get("weights") is not None:
        kw["weights"] = list(o["weights"])
    return kw


def hist_numpy(np, o):
    """independent oracle: numpy.histogram (and numpy.histogram_bin_edges for a named rule) on the
    same samples and the same arguments"""
    kw = {"bins": list(o["bins"]) if isinstance(o["bins"], list) else o["bins"]}
    if o.get("default_bins"):
        del kw["bins"]
    if o["range"] is not None:
        kw["range"] = tuple(o["range"])
    out = {}
    a = np.asarray(o["samples"], dtype=float)
    if isinstance(o["bins"], str):
        out["numpy_edges"] = [float(v) for v in np.histogram_bin_edges(a, **kw)]
    if o.get("density"):
        kw["density"] = True
    if o.get("weights") is not None:
        kw["weights"] = np.asarray(o["weights"], dtype=float)
    n, e = np.histogram(a, **kw)
    out["numpy"] = ([float(v) for v in n], [float(v) for v in e])
    return out


def hist_opts_text(o):
    w = o.get("weights")
    return "{}{}{}".format(" (default)" if o.get("default_bins") else "",
                           ", density" if o.get("density") else "",
                           ", weights[{}]".format(len(w)) if w is not None else "")


def hist_options(rng, h, target=False):
    """density / weights / a named binning rule on top of gen_hist's samples and binning.
    `target`: the histogram is fitted by Plot.fit (the number of bins must stay known)."""
    h = dict(h)
    n = len(h["samples"])
    r = rng.random()
    if r < 0.22 and not target:
        h["bins"] = rng.choice(STR_BINS)
        h["range"] = None
        if rng.random() < 0.4:
            s = sorted(h["samples"])
            lo, hi = s[0] + rng.choice([0, 0.5, -1.0]), s[-1] - rng.choice([0, 0.5, -1.0])
            inside = [v for v in s if lo <= v <= hi]
            if lo < hi and len(inside) >= 3 and inside[0] < inside[-1]:
                h["range"] = [lo, hi]
    elif r < 0.34 and not target:
        if isinstance(h["bins"], list):
            h["range"] = None
        h["bins"], h["default_bins"] = 10, True     # no bins= given: the default binning
    h["density"] = rng.random() < 0.4
    h["weights"] = None
    if rng.random() < 0.4 and not isinstance(h["bins"], str):
        m = rng.random()
        if m < 0.4:
            h["weights"] = [rng.randint(0, 12) / 4 for _ in range(n)]      # dyadic, some zero
        elif m < 0.8:
            h["weights"] = [rng.uniform(0.1, 2.5) for _ in range(n)]
        else:
            h["weights"] = [float(rng.randint(1, 5)) for _ in range(n)]
    if h["density"]:
        # a normalised histogram needs a non-zero total inside the bins
        if isinstance(h["bins"], list):
            lo, hi = h["bins"][0], h["bins"][-1]
        elif h["range"] is not None:
            lo, hi = h["range"]
        else:
            lo, hi = min(h["samples"]), max(h["samples"])
        w = h["weights"] if h["weights"] is not None else [1.0] * n
        if sum(wi for s, wi in zip(h["samples"], w) if lo <= s <= hi) <= 0.5:
            h["density"] = False
    return h


# ----------------------------------------------------------------------------- histories
def apply_settings(p, st):
    """a step of a history: change the plot's x-range, switches, overrides"""
    if st.get("xrange") is not None:
        p.xrange = tuple(st["xrange"])
    for k, v in st.get("over", {}).items():
        setattr(p, k, v)
    if "errorBars" in st:
        p.error_bars(st["errorBars"])
    if "residuals" in st:
        p.residuals(st["residuals"])
    if "legend" in st:
        p.legend(st["legend"])


def _exc(e, stage):
    import traceback
    tb = traceback.extract_tb(e.__traceback__)
    where = next((f for f in reversed(tb) if "qexpy" in f.filename), tb[-1])
    return {"exception": "{}: {}".format(type(e).__name__, e),
            "where": "{}:{}:{}".format(stage, os.path.basename(where.filename), where.name)}


def later_renders(q, np, case, p, info):
    """after the first render: apply each step to the same Plot (add objects, change the plot's
    x-range / switches / overrides) and render again; returns one entry per step, stopping at
    the first step that cannot be carried out"""
    import matplotlib.pyplot as mpl
    outs = []
    n = case.get("n0", len(case["objs"]))
    for k, st in enumerate(case["steps"]):
        # old replay files carry no policy: every figure was closed between renders
        mpl_state(q, np, mpl, p, st.get("mpl", "close-all"))
        try:
            build_plot(q, np, case, p=p, info=info, lo=n, hi=n + st.get("add", 0))
            n += st.get("add", 0)
            apply_settings(p, st.get("set", {}))
        except Skip as e:
            outs.append({"skip": str(e)})
            break
        except Exception as e:  # noqa: BLE001
            outs.append(_exc(e, "build"))
            break
        np.random.seed((case["mcseed"] + k + 1) % 2 ** 32)
        try:
            p.savefig(io.BytesIO(), format="png", dpi=20)
        except Exception as e:  # noqa: BLE001
            if isinstance(e, AttributeError) and "linalg" in str(e):
                outs.append({"skip": "C02 defect in the Monte Carlo sampler: {}".format(e)})
            else:
                ex = _exc(e, "savefig")
                ill = ill_conditioned_raise(np, e, None, case, info, n, where=ex["where"])
                outs.append({"skip": ill} if ill else ex)
            break
        outs.append(read_saved(np, mpl, p))
    return outs


MPL_POLICIES = ("keep", "close-all", "close-own", "foreign", "other-plot")


def mpl_state(q, np, mpl, p, policy):
    """what happens to matplotlib's global state (open figures, current figure) before a render:
    keep        nothing: the figure of the previous render stays open and current (a user who
                simply calls savefig again)
    close-all   pyplot.close("all")
    close-own   only the figure of this plot's previous render is closed
    foreign     the user draws a figure of their own with pyplot; it stays open and current
    other-plot  another qexpy Plot (with a residual panel) is rendered and stays open"""
    if not policy or policy == "keep":
        return
    if policy == "close-all":
        mpl.close("all")
    elif policy == "close-own":
        if p is not None and getattr(p, "main_ax", None) is not None:
            mpl.close(p.main_ax.figure)
    elif policy == "foreign":
        fig = mpl.figure()
        ax = fig.add_subplot()
        ax.plot([0.0, 1.0, 2.0], [5.0, 7.0, 6.0], "o-", label="not qexpy's")
        ax.set_xlabel("foreign x")
    elif policy == "other-plot":
        from qexpy.plotting.plotting import Plot
        other = Plot()
        other.plot([1.0, 2.0, 3.0, 4.0], [2.0, 4.1, 5.9, 8.2], yerr=0.2)
        other.fit("linear")
        other.residuals(True)
        state = np.random.get_state()
        other.savefig(io.BytesIO(), format="png", dpi=20)
        np.random.set_state(state)
    else:
        raise KeyError(policy)


def read_saved(np, mpl, p):
    """the artists of the figure that savefig has just written (pyplot's current figure), and
    whether that figure consists of exactly this plot's axes"""
    fig = mpl.gcf()
    axes = list(fig.axes)
    own = bool(axes) and axes[0] is p.main_ax and (
        (len(axes) == 1 and p.res_ax is None) or (len(axes) == 2 and axes[1] is p.res_ax))
    out = {"figure": {"n_axes": len(axes), "own": own}}
    if own:
        out["main"] = read_axes(np, axes[0], "main")
        out["res"] = read_axes(np, axes[1], "res") if len(axes) == 2 else None
    else:
        out["main"] = read_axes(np, p.main_ax, "main")
        out["res"] = read_axes(np, p.res_ax, "res") if p.res_ax is not None else None
    return out


# ----------------------------------------------------------------------------- conditioning
KAPPA_FIT = 1e8     # the same limit as C06 / C07 (props/_fitcheck.py: KAPPA_MAX)


def fit_condition(np, o, data, params):
    """condition number of the EXACT parameter correlation matrix of a least-squares fit, from
    the data alone: the squared ratio of the extreme singular values of the column-normalised
    weighted Jacobian J_ik = (d f(x_i; p) / d p_k) / sigma_i over the points inside the fit range
    (for the polynomial family J is the Vandermonde matrix; otherwise central differences of the
    model formula at `params`).  numpy.polyfit inverts exactly this normalised normal matrix; in
    binary64 the computed inverse of a matrix with condition kappa is positive definite only
    while m * kappa^2 * 2^-53 < 1 (kappa < 3e7 in the worst case; on this code the first
    indefinite covariance in 1200 un-centred polynomial fits appeared at kappa = 5.6e10)."""
    xs = [float(v) for v in data["xs"]]
    sig = [float(v) for v in data["yerr"]]
    if not any(v > 0 for v in sig):
        sig = [1.0] * len(xs)
    keep = [i for i, x in enumerate(xs) if o["range"] is None or o["range"][0] <= x < o["range"][1]]
    k = o["k"]
    nodes, root = fit_expr(o["model"], k)
    rows = []
    for i in keep:
        if not sig[i] > 0:
            return float("inf")
        row = []
        for j in range(k):
            h = 1e-6 * max(abs(params[j]), 1e-3)
            up, dn = list(params), list(params)
            up[j] += h
            dn[j] -= h
            row.append((float_eval_nodes(nodes, root, xs[i], up) -
                        float_eval_nodes(nodes, root, xs[i], dn)) / (2 * h) / sig[i])
        rows.append(row)
    J = np.array(rows, dtype=float)
    if J.shape[0] < k or not np.all(np.isfinite(J)):
        return float("inf")
    norms = np.linalg.norm(J, axis=0)
    if not np.all(norms > 0):
        return float("inf")
    sv = np.linalg.svd(J / norms, compute_uv=False)
    return float("inf") if not sv[-1] > 0 else float((sv[0] / sv[-1]) ** 2)


def ill_conditioned_raise(np, e, frame, case, info, n_objs, where=None):
    """The ONE raise that is not charged to the library: the derivative method found a negative
    variance for a point of a fit curve (`UndefinedActionError ... propagated ... is negative`,
    raised in operations.py:__evaluate) AND a fit on the plot is ill-conditioned by the
    harness's own estimate from the data (fit_condition > 1e8): the variance g^T Cov g is then a
    sum of terms that cancel to 1e-10 and less of their size, and the inverse that numpy.polyfit /
    scipy compute is not positive definite to that accuracy.  Any other raise, and this raise on
    a well-conditioned fit, is reported."""
    if type(e).__name__ != "UndefinedActionError" or "negative" not in str(e):
        return None
    if where is None:
        where = "savefig:{}:{}".format(os.path.basename(frame.filename), frame.name)
    if not where.endswith("operations.py:__evaluate"):
        return None
    worst = 0.0
    for o, inf in zip(case["objs"][:n_objs], info):
        if o["t"] != "fit" or "result" not in inf:
            continue
        r = inf["result"]
        try:
            if o.get("data"):
                d = o["data"]
                data = {"xs": d["xs"], "yerr": _err_list(d["yerr"], len(d["xs"]))}
            else:
                ds = r.dataset
                data = {"xs": [float(v) for v in ds.xvalues], "yerr": [float(v) for v in ds.yerr]}
            kap = fit_condition(np, o, data, [float(p_.value) for p_ in r.params])
        except Exception:  # noqa: BLE001
            continue
        worst = max(worst, kap)
    if worst > KAPPA_FIT:
        return "ill-conditioned fit (condition of the parameter correlation matrix {:.1e} > " \
               "{:.0e}): {}".format(worst, KAPPA_FIT, str(e)[:60])
    return None


def states(case):
    """the plot state at every render of a history, each in the form of a single-shot case:
    the model's expected drawing after a step is `render` of the state at that step"""
    n = case.get("n0", len(case["objs"]))
    st = {"objs": case["objs"][:n], "errorBars": case["errorBars"], "residuals": case["residuals"],
          "legend": case["legend"], "over": dict(case["over"]), "xrange": case["xrange"],
          "mcseed": case["mcseed"]}
    out = [st]
    for step in case.get("steps", []):
        n += step.get("add", 0)
        st = dict(st)
        st["objs"] = case["objs"][:n]
        s = step.get("set", {})
        for k in ("errorBars", "residuals", "legend"):
            if k in s:
                st[k] = s[k]
        if s.get("xrange") is not None:
            st["xrange"] = s["xrange"]
        if s.get("over"):
            st["over"] = dict(st["over"])
            st["over"].update(s["over"])
        out.append(st)
    return out


def _renderable(objs, xrange):
    """a plot has an x-domain: its own x-range or an object that brings a range"""
    return bool(objs) and (xrange is not None or
                           any(not (o["t"] == "function" and o["range"] is None) for o in objs))


def _shift_targets(objs, at):
    for o in objs[at:]:
        if o.get("target") is not None and o["target"] >= at:
            o["target"] += 1


def gen_history(rng, kinds=None):
    """a plot and what happens to it: objects are added, the plot is rendered, further objects
    are added / the plot's x-range, switches and overrides are changed, it is rendered again
    (up to three renders). case["objs"] lists all objects in the order of adding, the first
    case["n0"] of them are on the plot at the first render; case["steps"] = [{"add": number of
    further objects, "set": {xrange, errorBars, residuals, legend, over}}]; the top-level
    switches are those of the first render."""
    case = gen_case(rng, kinds)
    objs = [dict(o) for o in case["objs"]]
    # histogram options; sometimes a second histogram next to the first
    i = 0
    while i < len(objs):
        o = objs[i]
        if o["t"] == "hist":
            target = i + 1 < len(objs) and objs[i + 1].get("on") == "hist"
            objs[i] = hist_options(rng, o, target=target)
            if not target and rng.random() < 0.25:
                _shift_targets(objs, i + 1)
                objs.insert(i + 1, hist_options(rng, gen_hist(rng)))
                i += 1
        elif o["t"] == "fit" and o["via"] == "plot.fit" and o.get("on") != "hist" and rng.random() < 0.3:
            # a second Plot.fit on the same data set (another model): two curves, two residual sets
            model = rng.choice(["linear", "quadratic"] if o["k"] >= 3 else ["linear"])
            f2 = {"t": "fit", "via": "plot.fit", "model": model, "degrees": None, "parguess": None,
                  "range": None, "data": o["data"], "label": rng.choice(["", "second fit"]),
                  "k": {"linear": 2, "quadratic": 3}[model], "target": o.get("target")}
            _shift_targets(objs, i + 1)
            objs.insert(i + 1, f2)
            i += 1
        i += 1
    case["objs"] = objs
    # the plot is created and rendered through the module-level functions (plot / hist / savefig)
    case["via_module"] = rng.random() < 0.3 and not (objs[0]["t"] == "fit" and objs[0]["via"] == "plot.fit")
    if rng.random() < 0.15:
        return case                                   # rendered once
    n = len(objs)
    cands = [k for k in range(1, n + 1) if _renderable(objs[:k], case["xrange"])]
    if not cands:
        return case
    n0 = rng.choice(cands[:max(1, (len(cands) + 1) // 2)] if rng.random() < 0.6 else cands)
    t = rng.random()
    nsteps = 1 if t < 0.5 else 2 if t < 0.85 else 3
    rest = n - n0
    if nsteps == 1:
        adds = [rest]
    else:
        cuts = sorted(rng.randint(0, rest) for _ in range(nsteps - 1))
        adds = [b - a for a, b in zip([0] + cuts, cuts + [rest])]
    # matplotlib's own state: figures of earlier renders stay open unless the history closes them
    if rng.random() < 0.25:
        case["pre"] = rng.choice(["foreign", "other-plot"])
    cur = {"errorBars": case["errorBars"], "residuals": case["residuals"], "legend": case["legend"]}
    steps, seen = [], n0
    for add in adds:
        st = {}
        seen += add
        floating = any(o["t"] == "function" and o["range"] is None for o in objs[:seen])
        if rng.random() < (0.5 if floating else 0.15):
            st["xrange"] = sorted([rng.uniform(-10, 0), rng.uniform(1, 12)])
        for k in ("errorBars", "residuals", "legend"):
            if rng.random() < 0.35:
                cur[k] = not cur[k]
                st[k] = cur[k]
        if rng.random() < 0.25:
            k = rng.choice(["xname", "xunit", "yname", "yunit", "title"])
            st["over"] = {k: rng.choice(["", "R", "re named"])}
        t = rng.random()
        pol = ("keep" if t < 0.5 else "close-all" if t < 0.62 else "close-own" if t < 0.74 else
               "foreign" if t < 0.87 else "other-plot")
        if not st and not add and (pol == "close-all" or rng.random() < 0.5):
            # (otherwise: a plain re-render of the unchanged plot next to its earlier figure)
            cur["errorBars"] = not cur["errorBars"]
            st["errorBars"] = cur["errorBars"]
        steps.append({"add": add, "set": st, "mpl": pol})
    case["n0"] = n0
    case["steps"] = steps
    return case


def deliberate_histories(rng, reps):
    """histories generated on purpose in every run: ONE plot with a data set and its fit is
    rendered, a switch is flipped, it is rendered again, the switch is flipped back, it is
    rendered a third time -- for each of the three switches, from both starting positions, under
    every policy for the figures of the earlier renders (MPL_POLICIES); and plain re-renders."""
    out = []
    k = 0
    for _ in range(reps):
        for sw in ("residuals", "errorBars", "legend"):
            for start in (False, True):
                pol = MPL_POLICIES[k % len(MPL_POLICIES)]
                k += 1
                base = gen_case(rng, kinds=["fit"])
                while not any(o["t"] == "fit" and o["via"] == "plot.fit" for o in base["objs"]):
                    base = gen_case(rng, kinds=["fit"])
                case = dict(base, **{sw: start})
                case["n0"] = len(case["objs"])
                case["via_module"] = False
                case["steps"] = [{"add": 0, "set": {sw: not start}, "mpl": pol},
                                 {"add": 0, "set": {sw: start},
                                  "mpl": pol if rng.random() < 0.5 else "keep"}]
                if rng.random() < 0.3:
                    case["steps"].append({"add": 0, "set": {}, "mpl": "keep"})
                if rng.random() < 0.2:
                    case["pre"] = rng.choice(["foreign", "other-plot"])
                case["deliberate"] = "flip-{}-{}-between-renders".format(sw, "off-on-off" if not start
                                                                         else "on-off-on")
                out.append(case)
    return out


def describe_history(case):
    """the whole history in words: initial objects, each step, for replay files"""
    sts = states(case)
    out = ["render 1: " + ("[via qexpy.plotting.plot/hist/savefig] " if case.get("via_module") else "")
           + ("[before it: {}] ".format(case["pre"]) if case.get("pre") else "") + describe(sts[0])]
    n = case.get("n0", len(case["objs"]))
    for k, step in enumerate(case.get("steps", [])):
        added = {"objs": case["objs"][n:n + step.get("add", 0)], "errorBars": sts[k + 1]["errorBars"],
                 "residuals": sts[k + 1]["residuals"], "legend": sts[k + 1]["legend"],
                 "over": sts[k + 1]["over"], "xrange": sts[k + 1]["xrange"]}
        n += step.get("add", 0)
        out.append("step {}: figures of earlier renders: {}; add [{}]; set {} -> render {}: {}".format(
            k + 1, step.get("mpl", "close-all"), describe(added).split(" | ")[0], step.get("set", {}),
            k + 2, describe(sts[k + 1]).split(" | ", 1)[1]))
    return out


def legend_label(o):
    """the text an object contributes to the legend ("" = none): its label, a data set's name"""
    if o["t"] == "dataset":
        return o.get("label") or o.get("name") or "XY Dataset"
    return o.get("label") or ""


class ModulePlot:
    """the Plot is created by the module-level function qexpy.plotting.plot / hist with the first
    object (as in the documentation) and rendered through the module-level savefig, which draws
    the buffered (latest) plot; everything else goes to the Plot those functions returned"""

    def __init__(self):
        object.__setattr__(self, "_real", None)

    def plot(self, *args, **kwargs):
        import qexpy.plotting as qplt
        if self._real is None:
            object.__setattr__(self, "_real", qplt.plot(*args, **kwargs))
            return None
        return self._real.plot(*args, **kwargs)

    def hist(self, *args, **kwargs):
        import qexpy.plotting as qplt
        if self._real is None:
            n, edges, real = qplt.hist(*args, **kwargs)
            object.__setattr__(self, "_real", real)
            return n, edges
        return self._real.hist(*args, **kwargs)

    def savefig(self, filename, **kwargs):
        import qexpy.plotting as qplt
        return qplt.savefig(filename, **kwargs)

    def __getattr__(self, name):
        return getattr(object.__getattribute__(self, "_real"), name)

    def __setattr__(self, name, value):
        setattr(self._real, name, value)

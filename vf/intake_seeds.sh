#!/bin/sh
# vf/intake_seeds.sh Cxx... — take a reviewer's results from /tmp/mut-Cxx-out/{1,2} into seeded/Cxx-<n>,
# remove the scratch worktree and brief, confirm each change (vf/confirm_seed.sh); prints the new names
cd /verif
for id in "$@"; do
  for k in 1 2; do
    src=/tmp/mut-$id-out/$k
    [ -f $src/patch.diff ] || { echo "missing $src" >&2; continue; }
    n=$(( $(ls -d seeded/$id-* | wc -l) + 1 )); d=seeded/$id-$n
    mkdir $d; cp $src/patch.diff $src/demo.py $src/meta.json $d/
    echo "$id-$n" >> /tmp/newseeds5.txt
    vf/confirm_seed.sh $d 2>&1 | grep -v WARNING
  done
  git -C /repo worktree remove --force /tmp/mut-$id; rm -rf /tmp/mut-$id-out /tmp/mutprompt-$id.txt
done

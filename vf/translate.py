#!/usr/bin/env python3
"""Translator: Python AST of the working tree  ->  lean/QExPy/Generated/*.lean

Runs on every check.  Never imports the repository: it parses the source text
with `ast`.  Every table it understands is emitted as Lean definitions over the
`Num` interface (so the same term is run with Float and proved about with ℝ).
A construct outside the supported subset makes the section *broken*: the
generated file then carries `tieBroken := [..reasons..]` and placeholder
definitions, and the check treats the translator tie for that section as broken
(DESIGN §4) instead of guessing.

Files are rewritten only when their text changes so `lake build` stays
incremental.
"""
import ast
import json
import os
import sys

sys.path.insert(0, os.path.dirname(os.path.abspath(__file__)))

REPO = os.environ.get("QEXPY_REPO") or "/repo"
HERE = os.path.dirname(os.path.abspath(__file__))
GEN = os.path.join(os.path.dirname(HERE), "lean", "QExPy", "Generated")


class Unsupported(Exception):
    pass


def src(path):
    with open(os.path.join(REPO, path), encoding="utf-8") as f:
        return f.read()


def literals():
    """qexpy/settings/literals.py: NAME = "string" table"""
    tree = ast.parse(src("qexpy/settings/literals.py"))
    out = {}
    for node in tree.body:
        if isinstance(node, ast.Assign) and len(node.targets) == 1 and isinstance(
                node.targets[0], ast.Name) and isinstance(node.value, ast.Constant):
            out[node.targets[0].id] = node.value.value
    return out


NP_FUNCS = {
    "sqrt": "Num.sqrt", "exp": "Num.exp", "log": "Num.log", "log10": "Num.log10",
    "sin": "Num.sin", "cos": "Num.cos", "tan": "Num.tan", "arcsin": "Num.asin",
    "arccos": "Num.acos", "arctan": "Num.atan", "abs": "Num.abs", "absolute": "Num.abs",
}
BINOPS = {ast.Add: "Num.add", ast.Sub: "Num.sub", ast.Mult: "Num.mul", ast.Div: "Num.div",
          ast.Pow: "Num.pow"}


def where(node, path):
    return "{}:{}".format(path, getattr(node, "lineno", "?"))


class ExprTr:
    """Translate a Python numeric expression to a Lean term over `Num α`.

    names: python identifier -> lean term (plain variables)
    objs:  python identifier -> (value_term, deriv_term) for operands used as
           `x.value` / `x.derivative(o)` in DIFFERENTIATORS
    calls: python function identifier -> lean function (e.g. op.exp -> Num.exp)
    """

    def __init__(self, path, names=None, objs=None, calls=None, target=None, modules=("np",)):
        self.path, self.names, self.objs = path, dict(names or {}), dict(objs or {})
        self.calls, self.target, self.modules = dict(calls or {}), target, modules

    def bad(self, node, what):
        raise Unsupported("{}: {}".format(where(node, self.path), what))

    def tr(self, n):
        if isinstance(n, ast.Constant):
            if isinstance(n.value, float) and n.value >= 0 and n.value == n.value and \
                    n.value != float("inf"):
                # a float literal is an exact dyadic rational: n / 2^k
                from fractions import Fraction
                fr = Fraction(n.value)
                if fr.denominator == 1:
                    return "(Num.ofNat {})".format(fr.numerator)
                if fr.denominator <= 2 ** 20 and fr.numerator <= 2 ** 40:
                    return "(Num.div (Num.ofNat {}) (Num.ofNat {}))".format(fr.numerator, fr.denominator)
                self.bad(n, "float constant {!r} is not a short dyadic rational".format(n.value))
            if isinstance(n.value, bool) or not isinstance(n.value, int) or n.value < 0:
                self.bad(n, "constant {!r}".format(n.value))
            return "(Num.ofNat {})".format(n.value)
        if isinstance(n, ast.Name):
            if n.id in self.names:
                return self.names[n.id]
            self.bad(n, "name {}".format(n.id))
        if isinstance(n, ast.UnaryOp):
            if isinstance(n.op, ast.USub):
                return "(Num.neg {})".format(self.tr(n.operand))
            if isinstance(n.op, ast.UAdd):
                return self.tr(n.operand)
            self.bad(n, "unary operator")
        if isinstance(n, ast.BinOp):
            f = BINOPS.get(type(n.op))
            if not f:
                self.bad(n, "binary operator {}".format(type(n.op).__name__))
            return "({} {} {})".format(f, self.tr(n.left), self.tr(n.right))
        if isinstance(n, ast.Attribute):
            # x.value of an operand object; np.pi / op.pi
            if isinstance(n.value, ast.Name) and n.value.id in self.objs and n.attr == "value":
                return self.objs[n.value.id][0]
            if isinstance(n.value, ast.Name) and n.value.id in self.modules and n.attr == "pi":
                return "Num.pi"
            self.bad(n, "attribute .{}".format(n.attr))
        if isinstance(n, ast.Call):
            if n.keywords:
                self.bad(n, "keyword arguments")
            f = n.func
            # x.derivative(o)
            if (isinstance(f, ast.Attribute) and f.attr == "derivative" and isinstance(
                    f.value, ast.Name) and f.value.id in self.objs):
                if not (len(n.args) == 1 and isinstance(n.args[0], ast.Name)
                        and n.args[0].id == self.target):
                    self.bad(n, "derivative() with respect to something other than the target")
                return self.objs[f.value.id][1]
            # np.f(x) / op.f(x)
            if isinstance(f, ast.Attribute) and isinstance(f.value, ast.Name) and \
                    f.value.id in self.modules:
                table = NP_FUNCS if f.value.id == "np" else self.calls
                if f.attr in table and len(n.args) == 1:
                    return "({} {})".format(table[f.attr], self.tr(n.args[0]))
                self.bad(n, "call {}.{}".format(f.value.id, f.attr))
            if isinstance(f, ast.Name) and f.id in self.calls and len(n.args) == 1:
                return "({} {})".format(self.calls[f.id], self.tr(n.args[0]))
            self.bad(n, "call")
        if isinstance(n, ast.IfExp):
            # body if (e != 0) else orelse      |  body if (e == 0) else orelse
            t = n.test
            if (isinstance(t, ast.Compare) and len(t.ops) == 1 and len(t.comparators) == 1
                    and isinstance(t.comparators[0], ast.Constant)
                    and t.comparators[0].value == 0 and not isinstance(t.comparators[0].value, bool)):
                c = self.tr(t.left)
                body, orelse = self.tr(n.body), self.tr(n.orelse)
                if isinstance(t.ops[0], ast.NotEq):
                    return "(if Num.isZero {} then {} else {})".format(c, orelse, body)
                if isinstance(t.ops[0], ast.Eq):
                    return "(if Num.isZero {} then {} else {})".format(c, body, orelse)
            self.bad(n, "conditional expression")
        self.bad(n, type(n).__name__)


def find_assign(tree, name):
    for node in tree.body:
        if isinstance(node, ast.Assign) and len(node.targets) == 1 and isinstance(
                node.targets[0], ast.Name) and node.targets[0].id == name:
            return node.value
    return None


def find_def(tree, name):
    for node in tree.body:
        if isinstance(node, ast.FunctionDef) and node.name == name:
            return node
    return None


def lit_key(node, lits, path):
    if isinstance(node, ast.Attribute) and isinstance(node.value, ast.Name) and \
            node.value.id == "lit" and node.attr in lits:
        return lits[node.attr]
    if isinstance(node, ast.Constant) and isinstance(node.value, str):
        return node.value
    raise Unsupported("{}: table key".format(where(node, path)))


def inline_def(fn, path):
    """def f(args): [x = expr]* ; return expr   ->  (argnames, expr with locals inlined as ast)"""
    args = [a.arg for a in fn.args.args]
    if fn.args.vararg or fn.args.kwonlyargs or fn.args.kwarg or fn.args.defaults:
        raise Unsupported("{}: function signature".format(where(fn, path)))
    body = [s for s in fn.body if not (isinstance(s, ast.Expr) and isinstance(
        s.value, ast.Constant) and isinstance(s.value.value, str))]
    local = {}

    class Sub(ast.NodeTransformer):
        def visit_Name(self, node):
            if node.id in local:
                return local[node.id]
            return node

    for s in body[:-1]:
        if not (isinstance(s, ast.Assign) and len(s.targets) == 1 and isinstance(
                s.targets[0], ast.Name)):
            raise Unsupported("{}: statement in function body".format(where(s, path)))
        local[s.targets[0].id] = Sub().visit(s.value)
    if not body or not isinstance(body[-1], ast.Return) or body[-1].value is None:
        raise Unsupported("{}: function does not end in return".format(where(fn, path)))
    return args, Sub().visit(body[-1].value)


def lean_str(s):
    return '"' + s.replace("\\", "\\\\").replace('"', '\\"').replace("\n", "\\n") + '"'


def lean_strlist(xs):
    return "[" + ", ".join(lean_str(x) for x in xs) + "]"




def _discover():
    """every vf/tr/<name>.py with a gen() -> (filename, text, broken) is a section"""
    import importlib
    out = {}
    d = os.path.join(HERE, "tr")
    for f in sorted(os.listdir(d)):
        if f.endswith(".py") and not f.startswith("_"):
            out[f[:-3]] = importlib.import_module("tr." + f[:-3]).gen
    return out


class _Sections(dict):
    def __missing__(self, k):
        self.update(_discover())
        return dict.__getitem__(self, k)

    def all(self):
        self.update(_discover())
        return list(self)


SECTIONS = _Sections()


def write_if_changed(path, text):
    try:
        with open(path, encoding="utf-8") as f:
            if f.read() == text:
                return False
    except FileNotFoundError:
        pass
    os.makedirs(os.path.dirname(path), exist_ok=True)
    with open(path, "w", encoding="utf-8") as f:
        f.write(text)
    return True


def main(argv):
    wanted = argv[1:] or SECTIONS.all()
    report = {}
    for name in wanted:
        fname, text, broken = SECTIONS[name]()
        changed = write_if_changed(os.path.join(GEN, fname), text)
        report[name] = {"file": fname, "changed": changed, "broken": broken}
    json.dump(report, sys.stdout, indent=1)
    print()


if __name__ == "__main__":
    main(sys.argv)

#!/usr/bin/env python3
"""print the brief for an independent mutation-seeding agent (gets the property text only)"""
import json, sys, os
pid = sys.argv[1]
hint = sys.argv[2] if len(sys.argv) > 2 else ""
root = os.path.dirname(os.path.dirname(os.path.abspath(__file__)))
p = next(json.loads(l) for l in open(os.path.join(root, "properties.jsonl")) if json.loads(l)["id"] == pid)
print("""You are testing how well a (hidden) verification suite detects realistic regressions in the Python library QExPy (uncertainty propagation, units, fitting and plotting for undergraduate labs). You get ONE semantic property and a scratch git worktree of the library at /tmp/mut-{pid} (work ONLY there; do not read or touch /verif, /repo or /work). Python to use: /venv/bin/python. IMPORTANT: a plain `import qexpy` from outside the worktree resolves to another copy, so every script you write must start with `import os, sys; sys.path.insert(0, os.getcwd())` and be run as `cd /tmp/mut-{pid} && /venv/bin/python <script>`; print `qexpy.__file__` once to make sure it points into /tmp/mut-{pid}. Use `MPLBACKEND=Agg` for anything that plots. Test suite: `cd /tmp/mut-{pid} && /venv/bin/python -m pytest -q -p no:cacheprovider` (47 tests, all pass on the unchanged worktree).

THE PROPERTY
{pid} — {title}
Statement: {statement}
Quantifier: {quant}

YOUR TASK: produce TWO independent changes (different mechanisms, different code locations) to the library source under /tmp/mut-{pid}/qexpy (not the tests) such that, for each change on its own:
 (a) the library still imports and ALL 47 existing tests still pass, unedited;
 (b) the property above is violated for some input / history inside the property's stated domain;
 (c) the violation needs something specific to manifest — a particular multi-step sequence of operations, an unusual but legitimate input, a boundary value, a particular configuration or style setting, a fault (exception) at a particular point, or two cooperating sites that each look fine alone — NOT something ordinary use would expose at once;{hint}
 (d) it looks like a plausible refactoring slip, "optimisation" or clean-up a maintainer could make, small (1-10 lines).
For each change write a small demonstration program that exits 0 (prints OK) on the UNCHANGED worktree and exits non-zero (prints what is wrong) WITH the change, checking the property directly against an expected result computed independently in the demo (not against a recorded output of the library).
Deliver, for k = 1, 2: /tmp/mut-{pid}-out/<k>/patch.diff (output of `git -C /tmp/mut-{pid} diff` with only that change applied, so that `git apply` on a clean checkout reproduces it), /tmp/mut-{pid}-out/<k>/demo.py, /tmp/mut-{pid}-out/<k>/meta.json with keys: property ("{pid}"), summary (what was changed), needs (what it needs in order to manifest), tests ("47 passed" as you observed), demo_unchanged_exit, demo_changed_exit. Verify everything yourself: for each k, from a clean worktree (`git -C /tmp/mut-{pid} checkout -- .`): run the demo (exit 0), apply the patch, run the 47 tests (all pass), run the demo (non-zero), then restore the worktree. Leave the worktree clean at the end. Final answer: a short description of the two changes and the verification results.""".format(
    pid=pid, title=p["title"], statement=p["statement"], quant=p["quantifier"]["text"],
    hint=("\n     " + hint) if hint else ""))

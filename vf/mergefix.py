#!/usr/bin/env python3
"""resolve the expected merge conflicts after `git pull` of a contributor copy"""
import json, subprocess, os
ROOT = os.path.dirname(os.path.dirname(os.path.abspath(__file__)))
def show(stage, path):
    p = subprocess.run(["git", "show", ":{}:{}".format(stage, path)], cwd=ROOT, capture_output=True, text=True)
    return p.stdout if p.returncode == 0 else None
# known findings: union
ours, theirs = show(2, "known_findings.json"), show(3, "known_findings.json")
if theirs is not None:
    a = json.loads(ours)["findings"] if ours else []
    b = json.loads(theirs)["findings"]
    seen = {json.dumps(x, sort_keys=True) for x in a}
    a += [x for x in b if json.dumps(x, sort_keys=True) not in seen]
    json.dump({"findings": a}, open(os.path.join(ROOT, "known_findings.json"), "w"), indent=1)
st = subprocess.run(["git", "status", "--short"], cwd=ROOT, capture_output=True, text=True).stdout
for line in st.splitlines():
    code, path = line[:2], line[3:]
    if code in ("UU", "AA") and path != "known_findings.json":
        if path.startswith("evidence/") or path in ("MANIFEST.json", "lean/QExPy.lean", "lean/QExPy/Driver/All.lean"):
            subprocess.run(["git", "checkout", "--ours", path], cwd=ROOT)
        else:
            print("UNRESOLVED:", path)

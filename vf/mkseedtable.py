#!/usr/bin/env python3
"""notes/seeded-results.md from seeded/*/meta.json"""
import json, os, glob
ROOT = os.path.dirname(os.path.dirname(os.path.abspath(__file__)))
rows = []
for d in sorted(glob.glob(os.path.join(ROOT, "seeded", "*"))):
    m = json.load(open(os.path.join(d, "meta.json")))
    rows.append((os.path.basename(d), m.get("property"), m.get("summary", "").replace("\n", " ").replace("|", "/"),
                 m.get("needs", "").replace("\n", " ").replace("|", "/"), m.get("check_result", "").replace("|", "/")))
with open(os.path.join(ROOT, "notes", "seeded-results.md"), "w") as f:
    f.write("# Seeded changes and which check catches them\n\nEach change was written by an independent "
            "sub-agent that saw only the property text and a scratch worktree; each passes the 47 tests, "
            "each has a demonstration (`seeded/<id>/demo.py`) that fails with the change and passes "
            "without it; confirmed with `vf/seedtest.sh seeded/<id>`.\n\n"
            "| id | what was changed | needs | result |\n|---|---|---|---|\n")
    for r in rows:
        f.write("| {} | {} | {} | {} |\n".format(r[0], r[2][:400], r[3][:300], r[4]))
print(len(rows), "rows")

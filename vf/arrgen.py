"""C11: generator of array-level expression trees over every operand kind, and the harness that
evaluates a tree with the real library twice: on the containers (array arithmetic) and on the
i-th elements individually (scalar arithmetic).

case = {
  "n": array length,
  "vals"/"errs": bits per base measurement (var index = position), "units": unit per var,
  "nodes": Expr nodes for the Lean model (exprgen format; "var" nodes first),
  "leaves": [leaf, ...]   leaf kinds:
      {"k":"marray","vars":[...],"unit":u,"name":s}
      {"k":"quantity","node":j}             (a measurement, or a derived quantity m_a*m_b)
      {"k":"pair","var":i}                  ((value, error) tuple)
      {"k":"scalarNum","c":bits,"int":b, "np":b, "ty": None|"npint"|"npf32"|"frac"}   (number types)
      a quantity leaf whose var is listed in case["readings"] is a measurement recorded from READINGS
      (q.Measurement([..])): value/error of the var are the mean / error on the mean (harness arithmetic)
      list leaves may carry "ints": [b..] (a list mixing Python ints and floats)
      {"k":"listNum","cs":[bits],"int":b}   {"k":"ndarrayNum","cs":[bits],"int":b}
  "tree": ["leaf", idx] | ["fn","un"|"deg",name,T] | ["op",name,T,T] | ["log2",Tbase,Tx],
  "rho": [[i,j,bits]], "label": "<what>:<kinds>" }
"""
import math

import exprgen
from common import bits, unbits

OPS = ["add", "sub", "mul", "div", "pow"]
FN_UN = ["sqrt", "exp", "sin", "cos", "tan", "sec", "csc", "cot", "asin", "acos", "atan",
         "log10", "ln"]
FN_DEG = list(exprgen.DEG)
FUNCS = [("un", f) for f in FN_UN] + [("deg", f) for f in FN_DEG]
# the other operand next to a MeasurementArray
OTHER_KINDS = ["scalarInt", "scalarFloat", "scalarNpFloat", "quantity", "derivedQuantity", "pair", "listFloat",
               "listInt", "ndarrayFloat", "ndarrayInt", "marray", "marraySame", "marrayDerived",
               # a single measurement recorded from repeated readings (as many readings as the array has
               # elements, or another number); numbers of the other types the ecosystem produces
               # (values these types represent exactly: dyadic, so the model sees the same number)
               "repeatedQuantity", "scalarNpInt", "scalarNpFloat32", "scalarFraction",
               # a single quantity that is NOT independent of the array's elements: an element of the
               # array itself; a calculated quantity whose formula contains elements of the array (their
               # sum, m/(a0+a1), a_j*sqrt(m), a_j+m); a measurement correlated with elements of the
               # array; a calculated quantity whose source is.  The i-th element of the result is the
               # scalar operation on the i-th element and THAT quantity: its formula and its records
               # count, not only its value and uncertainty
               "elementOfArray", "derivedShared", "quantityCorr", "derivedCorr"]
SHARED_KINDS = ["elementOfArray", "derivedShared", "quantityCorr", "derivedCorr"]
SHARED_FORMS = ["sum", "sum", "quotsum", "prodsqrt", "plusm"]
# argument kinds of the math functions (np.float32 / Fraction arguments are excluded: a float32
# argument gives a float32 result, 1e-7 from the binary64 model; numpy has no sqrt/sin/.. of a Fraction)
FN_KINDS = ["marray", "marrayDerived", "listFloat", "listInt", "ndarrayFloat", "ndarrayInt",
            "scalarFloat", "scalarInt", "scalarNpFloat", "quantity", "repeatedQuantity", "scalarNpInt"]
# kinds that get an additional SPECIAL-VALUE case per operator / function (first element special)
OP_SPECIAL_KINDS = ["scalarInt", "scalarFloat", "listFloat", "listInt", "ndarrayFloat", "ndarrayInt",
                    "marray", "quantity"]
FN_SPECIAL_KINDS = ["marray", "listFloat", "listInt", "ndarrayFloat", "ndarrayInt", "scalarFloat",
                    "scalarInt"]
LOG2_SPECIAL_KINDS = ["listFloat", "listInt", "ndarrayFloat", "ndarrayInt", "scalarFloat", "scalarInt"]
UNITS = ["", "m", "s", "kg", "m/s", "kg*m^2/s^2"]
DEG_INNER = {"sind": "sin", "cosd": "cos", "tand": "tan", "secd": "sec", "cscd": "csc",
             "cotd": "cot"}


# ----------------------------------------------------------------------------- values
def draw(rng, prof, integer=False):
    if integer:
        if prof == "base":
            return float(rng.choice([2, 3, 4, 5]))
        if prof == "expo":
            return float(rng.choice([2, 3, -1, -2, 1]))
        if prof == "deg":
            return float(rng.randint(5, 85))
        if prof == "any":
            return float(rng.choice([1, -1]) * rng.randint(1, 6))
        return float(rng.randint(1, 6))
    if prof == "pos":
        return 10 ** rng.uniform(-0.6, 0.7)
    if prof == "small":
        v = rng.uniform(0.1, 0.9)
        return v if rng.random() < 0.5 else -v
    if prof == "deg":
        return rng.uniform(5, 85)
    if prof == "expo":
        return rng.choice([2.0, 3.0, -1.0, -2.0, 0.5, 1.5, round(rng.uniform(-3, 3), 2)]) or 1.0
    if prof == "base":
        return rng.uniform(0.2, 0.8) if rng.random() < 0.4 else rng.uniform(1.3, 5)
    if prof == "expable":
        return rng.uniform(-3, 3)
    v = 10 ** rng.uniform(-0.6, 0.7)
    return v if rng.random() < 0.5 else -v


def fn_profile(cls, name):
    if cls == "deg":
        return "deg"
    return {"sqrt": "pos", "ln": "pos", "log10": "pos", "asin": "small", "acos": "small",
            "exp": "expable"}.get(name, "any")


# special arguments: where a function / operator takes an exactly representable special value (zeros of
# the trigonometric functions in degrees, 0 and 1, exact squares and powers, ends of a domain)
FN_SPECIALS = {
    "deg": [0.0, 30.0, 45.0, 60.0, 90.0, 120.0, 135.0, 180.0, 270.0, 360.0, -90.0, -180.0, 450.0, 720.0],
    "sqrt": [0.0, 1.0, 4.0, 2.25, 0.25, 9.0], "exp": [0.0, 1.0, -1.0, 2.0],
    "ln": [1.0, 2.0, 10.0, 0.5], "log10": [1.0, 10.0, 100.0, 0.1, 1000.0],
    "asin": [0.0, 1.0, -1.0, 0.5, -0.5], "acos": [0.0, 1.0, -1.0, 0.5, -0.5], "atan": [0.0, 1.0, -1.0],
    "trig": [0.0, math.pi, math.pi / 2, -math.pi, math.pi / 4, 2 * math.pi, 1.0, -1.0],
}
OP_SPECIALS = {   # (the other operand on the right, on the left)
    "add": ([0.0, 1.0, -1.0], [0.0, 1.0]), "sub": ([0.0, 1.0], [0.0, 1.0]),
    "mul": ([0.0, 1.0, -1.0, 2.0], [0.0, 1.0, -1.0, 2.0]),
    "div": ([1.0, -1.0, 2.0, 0.5], [0.0, 1.0, -1.0]),
    "pow": ([0.0, 1.0, 2.0, -1.0, 0.5, 3.0], [1.0, 0.0, 2.0, 10.0, 0.5]),
}
ARRAY_SPECIALS = [0.0, 1.0, -1.0, 2.0, 4.0, 0.5]
LOG2_SPECIALS = ([2.0, 10.0, 0.5, 4.0], [1.0, 2.0, 4.0, 8.0, 100.0, 0.25, 1000.0])


def fn_specials(cls, name):
    if cls == "deg":
        return FN_SPECIALS["deg"]
    return FN_SPECIALS.get(name, FN_SPECIALS["trig"])


_LEN_UN = {
    "neg": lambda x: -x, "sqrt": math.sqrt, "exp": math.exp, "sin": math.sin, "cos": math.cos,
    "tan": math.tan, "sec": lambda x: 1 / math.cos(x), "csc": lambda x: 1 / math.sin(x),
    "cot": lambda x: 1 / math.tan(x), "asin": math.asin, "acos": math.acos, "atan": math.atan,
    "log10": math.log10, "ln": math.log,
}


def lenient_un(name, x):
    """the mathematical domain only (special-value cases go TO the edges the ordinary generator keeps
    away from); None = undefined there"""
    try:
        v = _LEN_UN[name](x)
    except (ValueError, ZeroDivisionError, OverflowError):
        return None
    return None if isinstance(v, complex) else v


def lenient_bin(op, a, b):
    try:
        if op == "log":
            return math.log(b) / math.log(a)
        v = {"add": lambda: a + b, "sub": lambda: a - b, "mul": lambda: a * b, "div": lambda: a / b,
             "pow": lambda: a ** b}[op]()
    except (ValueError, ZeroDivisionError, OverflowError):
        return None
    return None if isinstance(v, complex) else v


class Builder:
    def __init__(self, rng, n):
        self.rng, self.n = rng, n
        self.vals, self.errs, self.units = [], [], []
        self.nodes, self.leaves = [], []
        self.rho = []
        self._same = None
        self._arr = None          # the MeasurementArray leaf made last (never reset)
        self.readings = {}
        self.specials = None      # special values for the leaf being built (position 0 always special)

    def draw(self, prof, integer=False, pos=0):
        sp = self.specials
        # position 0 is always special, position 1 never (so that a container is never all-special:
        # what the first element does to the others is the point), the others often
        if sp and (pos == 0 or (pos != 1 and self.rng.random() < 0.4)):
            cand = [v for v in sp if not integer or float(v).is_integer()]
            if cand:
                return float(self.rng.choice(cand))
        return draw(self.rng, prof, integer=integer)

    def new_var(self, prof, unit="", zero_err=False, pos=0):
        v = self.draw(prof, integer=self.rng.random() < 0.15 and prof != "small", pos=pos)
        r = self.rng.random()
        e = 0.0 if (zero_err or r < 0.1) else (abs(v) or 1.0) * 10 ** self.rng.uniform(-4, -0.8)
        self.vals.append(float(v))
        self.errs.append(float(e))
        self.units.append(unit)
        return len(self.vals) - 1

    def leaf(self, kind, prof):
        """returns a tree ( ["leaf", idx] or a small subtree for the derived kinds )"""
        rng, n = self.rng, self.n
        if kind in ("marray", "marraySame"):
            if kind == "marraySame" and self._same is not None:
                return ["leaf", self._same]
            unit = rng.choice(UNITS)
            vs = [self.new_var(prof, unit, pos=k) for k in range(n)]
            self.leaves.append({"k": "marray", "vars": vs, "unit": unit,
                                "name": rng.choice(["", "len", "t"])})
            self._same = len(self.leaves) - 1
            self._arr = self._same
            return ["leaf", self._same]
        if kind in SHARED_KINDS:
            if self._arr is None:
                return self.leaf("derivedQuantity", prof)
            avars = self.leaves[self._arr]["vars"]
            aunit = self.leaves[self._arr]["unit"]
            j = rng.randrange(len(avars))
            aj = self._node(["var", avars[j]])
            if kind == "elementOfArray":
                return ["leaf", self._push({"k": "quantity", "node": aj, "shared": "element"})]
            if kind == "derivedShared":
                form = rng.choice(SHARED_FORMS)
                a0 = self._node(["var", avars[0]])
                a1 = self._node(["var", avars[min(1, len(avars) - 1)]])
                if form in ("sum", "quotsum"):
                    tot = self._node(["bin", "add", a0, a1])
                    if form == "quotsum" or len(avars) == 1:
                        m = self._node(["var", self.new_var(prof, rng.choice(UNITS))])
                        tot = self._node(["bin", "div", m, tot])
                        form = "quotsum"
                    nd = tot
                elif form == "prodsqrt":
                    m = self._node(["var", self.new_var("pos", rng.choice(UNITS))])
                    nd = self._node(["bin", "mul", aj, self._node(["un", "sqrt", m])])
                else:
                    m = self._node(["var", self.new_var(prof, aunit)])
                    nd = self._node(["bin", "add", aj, m])
                return ["leaf", self._push({"k": "quantity", "node": nd, "shared": form})]
            # a measurement correlated with one or two elements of the array (|r| <= 0.7 each and the
            # elements are independent of each other: the joint correlation matrix stays positive definite)
            i = self.new_var(prof, rng.choice(UNITS))
            if self.errs[i] == 0.0:
                self.errs[i] = (abs(self.vals[i]) or 1.0) * 0.01
            cand = [v for v in avars if self.errs[v] > 0]
            rng.shuffle(cand)
            for v in cand[:rng.choice([1, 2, 2])]:
                self.rho.append([i, v, bits(rng.choice([0.5, -0.5, 0.7, -0.7, 0.25, round(rng.uniform(-0.7, 0.7), 3)]))])
            m = self._node(["var", i])
            if kind == "quantityCorr":
                return ["leaf", self._push({"k": "quantity", "node": m, "shared": "correlated"})]
            w = self._node(["var", self.new_var("pos", rng.choice(UNITS))])
            nd = self._node(["bin", "mul", m, self._node(["un", "sqrt", w])])
            return ["leaf", self._push({"k": "quantity", "node": nd, "shared": "derived-from-correlated"})]
        if kind == "marrayDerived":
            # (a + c) for profiles closed under +, (a * c) otherwise: elements with two sources
            a = self.leaf("marray", prof)
            self._same = None
            if prof in ("pos", "base"):
                c = self.leaf("marray", "pos")
                sc = ["leaf", self._push({"k": "scalarNum", "c": bits(0.5), "int": False})]
                # 0.5*(a*c)**0.5 keeps positive values positive and of similar size
                return ["op", "mul", sc, ["fn", "un", "sqrt", ["op", "mul", a, c]]]
            c = self.leaf("marray", "any")
            return ["op", "mul", a, ["fn", "un", "cos", c]] if prof in ("small",) else \
                ["op", "add", a, ["op", "mul", ["leaf", self._push(
                    {"k": "scalarNum", "c": bits(0.01), "int": False})], c]]
        if kind in ("scalarInt", "scalarFloat", "scalarNpFloat", "scalarNpInt", "scalarNpFloat32",
                    "scalarFraction"):
            integer = kind in ("scalarInt", "scalarNpInt")
            v = self.draw(prof, integer=integer)
            ty = {"scalarNpInt": "npint", "scalarNpFloat32": "npf32", "scalarFraction": "frac"}.get(kind)
            if ty in ("npf32", "frac"):
                # a value np.float32 / Fraction(p, 8) and binary64 all represent exactly
                v = (round(v * 8) or (1 if v > 0 else -1)) / 8.0
            return ["leaf", self._push({"k": "scalarNum", "c": bits(v), "int": integer,
                                        "np": kind == "scalarNpFloat", "ty": ty})]
        if kind in ("listFloat", "listInt", "ndarrayFloat", "ndarrayInt"):
            integer = kind.endswith("Int")
            vs = [self.draw(prof, integer=integer, pos=k) for k in range(n)]
            lf = {"k": "listNum" if kind.startswith("list") else "ndarrayNum",
                  "cs": [bits(v) for v in vs], "int": integer}
            if self.specials and kind == "listFloat":
                # a list MIXING Python ints and floats (what a user types: [0, 30, 45.5])
                lf["ints"] = [bool(float(v).is_integer() and rng.random() < (0.8 if k == 0 else 0.5))
                              for k, v in enumerate(vs)]
            return ["leaf", self._push(lf)]
        if kind == "repeatedQuantity":
            # ONE measurement recorded from readings; deliberately as many readings as the array has
            # elements (then it could be mistaken for a sequence operand), sometimes another number
            cnt = n if (n >= 2 and rng.random() < 0.65) else rng.choice([k for k in (2, 3, 4, n + 1) if k != n and k >= 2])
            centre = draw(rng, prof, integer=False)
            while True:
                # dyadic readings close to the centre: sums are exact, the mean is one rounding
                step = max(abs(centre), 0.25) / 64.0
                rd = [math.floor(centre / step + rng.randint(-3, 3)) * step for _ in range(cnt)]
                if len(set(rd)) >= 2:
                    break
            mean = sum(rd) / cnt
            sem = math.sqrt(sum((x - mean) ** 2 for x in rd) / (cnt - 1)) / math.sqrt(cnt)
            self.vals.append(float(mean))
            self.errs.append(float(sem))
            self.units.append(rng.choice(UNITS))
            i = len(self.vals) - 1
            self.readings[str(i)] = [bits(x) for x in rd]
            return ["leaf", self._push({"k": "quantity", "node": self._node(["var", i]), "rep": True})]
        if kind == "quantity":
            i = self.new_var(prof, rng.choice(UNITS))
            self._node(["var", i])
            return ["leaf", self._push({"k": "quantity", "node": self._node(["var", i])})]
        if kind == "derivedQuantity":
            i = self.new_var(prof, rng.choice(UNITS))
            j = self.new_var("pos", rng.choice(UNITS))
            a, b = self._node(["var", i]), self._node(["var", j])
            # m_i * sqrt(m_j): same sign as m_i, keeps "small" small enough via rejection
            s = self._node(["un", "sqrt", b])
            return ["leaf", self._push({"k": "quantity", "node": self._node(["bin", "mul", a, s])})]
        if kind == "pair":
            i = self.new_var(prof, "")
            if self.errs[i] == 0.0:
                self.errs[i] = abs(self.vals[i]) * 0.01
            return ["leaf", self._push({"k": "pair", "var": i, "node": self._node(["var", i])})]
        raise KeyError(kind)

    def _push(self, leaf):
        self.leaves.append(leaf)
        return len(self.leaves) - 1

    def _node(self, node):
        for k, nd in enumerate(self.nodes):
            if nd == node:
                return k
        self.nodes.append(node)
        return len(self.nodes) - 1

    def finish(self, tree, label):
        # correlations between the elements of two different arrays (same position), sometimes
        arrs = [l for l in self.leaves if l["k"] == "marray"]
        if len(arrs) >= 2 and not self.rho and self.rng.random() < 0.4:
            a, b = arrs[0], arrs[1]
            for i, j in zip(a["vars"], b["vars"]):
                if self.errs[i] > 0 and self.errs[j] > 0 and self.rng.random() < 0.7:
                    self.rho.append([i, j, bits(self.rng.choice([0.5, -0.3, 0.9, -1.0, 1.0,
                                                                  round(self.rng.uniform(-1, 1), 3)]))])
        for l in self.leaves:      # var nodes for array elements
            if l["k"] == "marray":
                l["nodes"] = [self._node(["var", v]) for v in l["vars"]]
        return {"n": self.n, "vals": [bits(v) for v in self.vals],
                "errs": [bits(e) for e in self.errs], "units": self.units, "nodes": self.nodes,
                "leaves": self.leaves, "tree": tree, "rho": self.rho, "label": label,
                "readings": self.readings}


# ----------------------------------------------------------------------------- reference / domain
def _node_ref(case, k, cache):
    if k in cache:
        return cache[k]
    nd = case["nodes"][k]
    if nd[0] == "var":
        v = unbits(case["vals"][nd[1]])
    elif nd[0] == "un":
        a = _node_ref(case, nd[2], cache)
        v = None if a is None else exprgen.ref_un(nd[1], a)
    else:
        a, b = _node_ref(case, nd[2], cache), _node_ref(case, nd[3], cache)
        v = None if a is None or b is None else exprgen.ref_bin(nd[1], a, b)
    cache[k] = v
    return v


def ref_at(case, tree, i, cache=None):
    """(reference central value, is plain number) of the tree at element i; None = out of domain"""
    cache = {} if cache is None else cache
    t = tree[0]
    if t == "leaf":
        l = case["leaves"][tree[1]]
        k = l["k"]
        if k == "marray":
            return unbits(case["vals"][l["vars"][i]]), False
        if k == "quantity":
            v = _node_ref(case, l["node"], cache)
            return None if v is None else (v, False)
        if k == "pair":
            return unbits(case["vals"][l["var"]]), False
        if k == "scalarNum":
            return unbits(l["c"]), True
        return unbits(l["cs"][i]), True
    special = bool(case.get("special"))
    un = lenient_un if special else exprgen.ref_un
    if t == "fn":
        r = ref_at(case, tree[3], i, cache)
        if r is None:
            return None
        x, plain = r
        if tree[1] == "deg":
            v = un(DEG_INNER[tree[2]], x / 180 * math.pi)
        else:
            v = un(tree[2], x)
        return None if v is None or not _ok(v, special) else (v, plain)
    if t == "op":
        ra, rb = ref_at(case, tree[2], i, cache), ref_at(case, tree[3], i, cache)
        if ra is None or rb is None:
            return None
        (a, pa), (b, pb) = ra, rb
        v = lenient_bin(tree[1], a, b) if special else exprgen.ref_bin(tree[1], a, b, b_is_const=pb)
        return None if v is None or not _ok(v, special) else (v, pa and pb)
    if t == "log2":
        ra, rb = ref_at(case, tree[1], i, cache), ref_at(case, tree[2], i, cache)
        if ra is None or rb is None:
            return None
        (a, pa), (b, pb) = ra, rb
        v = lenient_bin("log", a, b) if special else exprgen.ref_bin("log", a, b)
        return None if v is None or not _ok(v, special) else (v, pa and pb)
    raise KeyError(t)


def _ok(v, special=False):
    """special-value cases: any finite result below 1e8 (sin(pi) = 1.2e-16 is a result like any other)"""
    if isinstance(v, complex) or not math.isfinite(v) or abs(v) >= 1e8:
        return False
    return special or v == 0 or abs(v) > 1e-8


def in_domain(case):
    return all(ref_at(case, case["tree"], i) is not None for i in range(case["n"]))


# ----------------------------------------------------------------------------- generators
def _retry(rng, make, tries=60):
    for _ in range(tries):
        c = make()
        if c is not None and in_domain(c):
            return c
    return None


def gen_binop(rng, op, other, array_left, n=None):
    """MeasurementArray `op` other-kind operand, in the given order"""
    def make():
        b = Builder(rng, n or rng.randint(1, 6))
        if op == "pow":
            pa, po = ("base", "expo") if array_left else ("expo", "base")
        elif op == "div":
            pa = po = "any"
        else:
            pa = po = "any"
        if other in ("marray", "marraySame", "marrayDerived", "derivedQuantity") and op == "pow":
            po = "pos" if not array_left else "expo"
        if other in SHARED_KINDS and op == "pow":
            po = "expo" if array_left else "base"
        a = b.leaf("marray", pa)
        o = b.leaf(other, po if other != "marraySame" else pa)
        tree = ["op", op, a, o] if array_left else ["op", op, o, a]
        return b.finish(tree, "op:{}:{}".format(op, "marray," + other if array_left
                                                else other + ",marray"))
    return _retry(rng, make)


def gen_fn(rng, cls, name, kind, n=None):
    def make():
        b = Builder(rng, n or rng.randint(1, 6))
        a = b.leaf(kind, fn_profile(cls, name))
        return b.finish(["fn", cls, name, a], "fn:{}:{}".format(name, kind))
    return _retry(rng, make)


def gen_neg(rng, kind, n=None):
    def make():
        b = Builder(rng, n or rng.randint(1, 6))
        a = b.leaf(kind, "any")
        return b.finish(["fn", "un", "neg", a], "neg:{}".format(kind))
    return _retry(rng, make)


def gen_log2(rng, kbase, kx, n=None):
    def make():
        b = Builder(rng, n or rng.randint(1, 6))
        if kbase in SHARED_KINDS:       # the array first: the base is built from / correlated with it
            x = b.leaf(kx, "pos")
            base = b.leaf(kbase, "base")
        else:
            base = b.leaf(kbase, "base")
            b._same = None
            x = b.leaf(kx, "pos")
        return b.finish(["log2", base, x], "log2:{},{}".format(kbase, kx))
    return _retry(rng, make)


def gen_binop_special(rng, op, other, array_left, n=None):
    """as gen_binop, the other operand (and sometimes the array) taking special values: 0, 1, -1,
    exponents 0 / 1 / 2 / -1 / 0.5, bases 1 / 0 / 10 -- the first element always, the others often"""
    def make():
        b = Builder(rng, n or rng.randint(2, 6))
        if op == "pow":
            pa, po = ("base", "expo") if array_left else ("expo", "base")
        else:
            pa = po = "any"
        if rng.random() < 0.3:
            b.specials = ARRAY_SPECIALS
        a = b.leaf("marray", pa)
        b.specials = OP_SPECIALS[op][0 if array_left else 1]
        b._same = None
        o = b.leaf(other, po)
        b.specials = None
        tree = ["op", op, a, o] if array_left else ["op", op, o, a]
        c = b.finish(tree, "op:{}:{}:special".format(op, "marray," + other if array_left
                                                     else other + ",marray"))
        c["special"] = True
        return c
    return _retry(rng, make, tries=200)


def gen_fn_special(rng, cls, name, kind, n=None):
    """as gen_fn, the argument taking the function's special values (zeros of sind / cosd, 0, 1, exact
    squares and powers, the ends of the domain): the FIRST element always, the others often"""
    def make():
        b = Builder(rng, n or rng.randint(2, 6))
        b.specials = fn_specials(cls, name)
        a = b.leaf(kind, fn_profile(cls, name))
        b.specials = None
        c = b.finish(["fn", cls, name, a], "fn:{}:{}:special".format(name, kind))
        c["special"] = True
        return c
    return _retry(rng, make, tries=200)


def gen_log2_special(rng, kbase, kx, n=None):
    def make():
        b = Builder(rng, n or rng.randint(2, 6))
        b.specials = LOG2_SPECIALS[0]
        base = b.leaf(kbase, "base")
        b._same = None
        b.specials = LOG2_SPECIALS[1]
        x = b.leaf(kx, "pos")
        b.specials = None
        c = b.finish(["log2", base, x], "log2:{},{}:special".format(kbase, kx))
        c["special"] = True
        return c
    return _retry(rng, make, tries=200)


def gen_tree(rng, depth=None, n=None):
    """a random composition (depth 2-4) with at least one MeasurementArray"""
    def make():
        b = Builder(rng, n or rng.randint(1, 8))
        d = depth or rng.randint(2, 4)

        def sub(d, need_array, fn_arg=False):
            # fn_arg: the subtree is an argument of a math function; a (value, error) tuple is
            # an operand form of the *operators* only
            r = rng.random()
            if d == 0:
                if need_array:
                    return b.leaf(rng.choice(["marray", "marray", "marraySame"]), "pos"), True
                k = rng.choice(FN_KINDS if fn_arg else OTHER_KINDS)
                return b.leaf(k, "pos"), k.startswith("marray")
            if r < 0.35:
                cls, name = rng.choice(FUNCS)
                t, arr = sub(d - 1, need_array, True)
                return ["fn", cls, name, t], arr
            if r < 0.45:
                x, a1 = sub(d - 1, need_array, True)
                y, a2 = sub(rng.randint(0, d - 1), False, True)
                return (["log2", x, y] if rng.random() < 0.5 else ["log2", y, x]), a1 or a2
            op = rng.choice(OPS)
            x, a1 = sub(d - 1, True)
            y, a2 = sub(rng.randint(0, d - 1), False)
            return (["op", op, x, y] if rng.random() < 0.5 else ["op", op, y, x]), True
        t, _ = sub(d, True)
        return b.finish(t, "tree:depth{}".format(d))
    return _retry(rng, make, tries=300)


def enumerate_all(rng, reps=2):
    """every operator x order x kind, every function x kind, log2 kind x kind — completely"""
    out = []
    for rep in range(reps):
        n = [1, None, None][rep % 3]
        for op in OPS:
            for other in OTHER_KINDS:
                for left in (True, False):
                    out.append(gen_binop(rng, op, other, left, n=n))
        for cls, name in FUNCS:
            for kind in FN_KINDS:
                out.append(gen_fn(rng, cls, name, kind, n=n))
        for kind in ("marray", "marrayDerived", "quantity"):
            out.append(gen_neg(rng, kind, n=n))
        for kb in FN_KINDS:
            for kx in FN_KINDS:
                out.append(gen_log2(rng, kb, kx, n=n))
    return out


def combos():
    c = [("op", op, other, left) for op in OPS for other in OTHER_KINDS for left in (True, False)]
    c += [("fn", cls, name, kind) for cls, name in FUNCS for kind in FN_KINDS]
    c += [("neg", kind) for kind in ("marray", "marrayDerived", "quantity")]
    c += [("log2", kb, kx) for kb in FN_KINDS for kx in FN_KINDS]
    c += [("log2", kb, kx) for sk in SHARED_KINDS for kb, kx in ((sk, "marray"), ("marray", sk))]
    # special values
    c += [("opS", op, other, left) for op in OPS for other in OP_SPECIAL_KINDS for left in (True, False)]
    c += [("fnS", cls, name, kind) for cls, name in FUNCS for kind in FN_SPECIAL_KINDS]
    c += [("log2S", kb, kx) for kb in LOG2_SPECIAL_KINDS for kx in LOG2_SPECIAL_KINDS
          if not (kb.startswith("scalar") and kx.startswith("scalar"))]
    return c


def gen_combo(rng, c, n=None):
    if c[0] == "op":
        return gen_binop(rng, c[1], c[2], c[3], n=n)
    if c[0] == "fn":
        return gen_fn(rng, c[1], c[2], c[3], n=n)
    if c[0] == "neg":
        return gen_neg(rng, c[1], n=n)
    if c[0] == "opS":
        return gen_binop_special(rng, c[1], c[2], c[3], n=n)
    if c[0] == "fnS":
        return gen_fn_special(rng, c[1], c[2], c[3], n=n)
    if c[0] == "log2S":
        return gen_log2_special(rng, c[1], c[2], n=n)
    return gen_log2(rng, c[1], c[2], n=n)


# ----------------------------------------------------------------------------- model line
def model_line(case):
    def leaf(l):
        k = l["k"]
        if k == "marray":
            return {"k": "marray", "ns": l["nodes"]}
        if k == "quantity":
            return {"k": "quantity", "n": l["node"]}
        if k == "pair":
            return {"k": "pair", "n": l["node"]}
        if k == "scalarNum":
            return {"k": "scalarNum", "c": l["c"]}
        return {"k": k, "cs": l["cs"]}

    def tr(t):
        if t[0] == "leaf":
            return ["leaf", leaf(case["leaves"][t[1]])]
        if t[0] == "fn":
            return ["fn", t[1], t[2], tr(t[3])]
        if t[0] == "op":
            return ["op", t[1], tr(t[2]), tr(t[3])]
        return ["log2", tr(t[1]), tr(t[2])]
    return {"cmd": "arr", "nodes": case["nodes"], "vals": case["vals"], "errs": case["errs"],
            "rho": case["rho"], "tree": tr(case["tree"])}


# ----------------------------------------------------------------------------- the real library
def build_objects(q, np, case):
    """python objects per leaf; measurement objects per var"""
    vals = [unbits(b) for b in case["vals"]]
    errs = [unbits(b) for b in case["errs"]]
    meas = {}
    objs = []
    for l in case["leaves"]:
        if l["k"] == "marray":
            kw = {}
            if l["unit"]:
                kw["unit"] = l["unit"]
            if l["name"]:
                kw["name"] = l["name"]
            arr = q.MeasurementArray([vals[v] for v in l["vars"]], [errs[v] for v in l["vars"]], **kw)
            for pos, v in enumerate(l["vars"]):
                meas[v] = arr[pos]
            objs.append(arr)
        else:
            objs.append(None)
    nodeobj = {}

    def node(k):
        if k in nodeobj:
            return nodeobj[k]
        nd = case["nodes"][k]
        if nd[0] == "var":
            i = nd[1]
            if i not in meas:
                kw = {"unit": case["units"][i]} if case["units"][i] else {}
                rd = (case.get("readings") or {}).get(str(i))
                if rd is not None:
                    # ONE measurement recorded from readings (mean +/- error on the mean)
                    meas[i] = q.Measurement([unbits(x) for x in rd], **kw)
                else:
                    meas[i] = q.Measurement(vals[i], errs[i], **kw)
            o = meas[i]
        elif nd[0] == "un":
            o = getattr(q, nd[1])(node(nd[2]))
        else:
            o = exprgen.PYOPS[nd[1]](node(nd[2]), node(nd[3]))
        nodeobj[k] = o
        return o
    for idx, l in enumerate(case["leaves"]):
        k = l["k"]
        if k == "quantity":
            objs[idx] = node(l["node"])
        elif k == "pair":
            objs[idx] = (vals[l["var"]], errs[l["var"]])
        elif k == "scalarNum":
            objs[idx] = scalar_obj(np, l)
        elif k == "listNum":
            ints = l.get("ints") or [False] * len(l["cs"])
            objs[idx] = [int(unbits(c)) if (l["int"] or f) else unbits(c) for c, f in zip(l["cs"], ints)]
        elif k == "ndarrayNum":
            objs[idx] = np.array([int(unbits(c)) if l["int"] else unbits(c) for c in l["cs"]])
    for i, j, r in case["rho"]:
        q.set_correlation(meas[i], meas[j], unbits(r))
    return objs


def scalar_obj(np, l):
    """the Python object of a number leaf, in the type the leaf asks for"""
    from fractions import Fraction
    c = unbits(l["c"])
    ty = l.get("ty")
    if ty == "npint":
        return np.int64(int(c))
    if ty == "npf32":
        return np.float32(c)
    if ty == "frac":
        return Fraction(c)
    return int(c) if l["int"] else (np.float64(c) if l.get("np") else c)


def _apply_fn(q, cls, name, x):
    if name == "neg":
        return -x
    if name == "ln":
        return q.log(x)
    return getattr(q, name)(x)


def eval_array(q, case, objs, tree):
    """the tree on the containers: array arithmetic"""
    t = tree[0]
    if t == "leaf":
        return objs[tree[1]]
    if t == "fn":
        return _apply_fn(q, tree[1], tree[2], eval_array(q, case, objs, tree[3]))
    if t == "op":
        return exprgen.PYOPS[tree[1]](eval_array(q, case, objs, tree[2]),
                                      eval_array(q, case, objs, tree[3]))
    return q.log(eval_array(q, case, objs, tree[1]), eval_array(q, case, objs, tree[2]))


def eval_scalar(q, case, objs, tree, i):
    """the tree on the i-th elements individually: scalar arithmetic on the same objects"""
    t = tree[0]
    if t == "leaf":
        l = case["leaves"][tree[1]]
        o = objs[tree[1]]
        return o[i] if l["k"] in ("marray", "listNum", "ndarrayNum") else o
    if t == "fn":
        return _apply_fn(q, tree[1], tree[2], eval_scalar(q, case, objs, tree[3], i))
    if t == "op":
        return exprgen.PYOPS[tree[1]](eval_scalar(q, case, objs, tree[2], i),
                                      eval_scalar(q, case, objs, tree[3], i))
    return q.log(eval_scalar(q, case, objs, tree[1], i), eval_scalar(q, case, objs, tree[2], i))


def pretty(case):
    def lf(l):
        k = l["k"]
        if k == "marray":
            return "MA([{}]{}{})".format(
                ", ".join("{!r}+/-{!r}".format(unbits(case["vals"][v]), unbits(case["errs"][v]))
                          for v in l["vars"]),
                ", unit=" + repr(l["unit"]) if l["unit"] else "",
                ", name=" + repr(l["name"]) if l["name"] else "")
        if k == "quantity":
            nd = case["nodes"][l["node"]]
            rd = (case.get("readings") or {}).get(str(nd[1])) if nd[0] == "var" else None
            if rd is not None:
                return "Measurement({!r})".format([unbits(x) for x in rd])
            return "Q" + _pn(case, l["node"])
        if k == "pair":
            return "({!r}, {!r})".format(unbits(case["vals"][l["var"]]), unbits(case["errs"][l["var"]]))
        if k == "scalarNum":
            c = unbits(l["c"])
            if l.get("ty"):
                return {"npint": "np.int64({!r})", "npf32": "np.float32({!r})",
                        "frac": "Fraction({!r})"}[l["ty"]].format(int(c) if l["int"] else c)
            return repr(int(c) if l["int"] else c) if not l.get("np") else "np.float64({!r})".format(c)
        ints = l.get("ints") or [False] * len(l["cs"])
        cs = [int(unbits(c)) if (l["int"] or f) else unbits(c) for c, f in zip(l["cs"], ints)]
        return repr(cs) if k == "listNum" else "np.array({!r})".format(cs)

    def tr(t):
        if t[0] == "leaf":
            return "L{}".format(t[1])
        if t[0] == "fn":
            return "{}({})".format(t[2], tr(t[3]))
        if t[0] == "op":
            sym = {"add": "+", "sub": "-", "mul": "*", "div": "/", "pow": "**"}[t[1]]
            return "({} {} {})".format(tr(t[2]), sym, tr(t[3]))
        return "log({}, {})".format(tr(t[1]), tr(t[2]))
    leaves = "; ".join("L{}={}".format(i, lf(l)) for i, l in enumerate(case["leaves"]))
    rho = "; rho: " + ", ".join("(m{},m{})={!r}".format(i, j, unbits(r)) for i, j, r in case["rho"]) \
        if case["rho"] else ""
    return "{}  where {}{}".format(tr(case["tree"]), leaves, rho)


def _pn(case, k):
    nd = case["nodes"][k]
    if nd[0] == "var":
        i = nd[1]
        for li, l in enumerate(case["leaves"]):
            if l["k"] == "marray" and i in l["vars"]:
                return "L{}[{}]".format(li, l["vars"].index(i))      # an element of that array
        return "({!r}+/-{!r}{})".format(unbits(case["vals"][i]), unbits(case["errs"][i]),
                                       " " + case["units"][i] if case["units"][i] else "")
    if nd[0] == "un":
        return "{}{}".format(nd[1], _pn(case, nd[2]))
    return "({} {} {})".format(_pn(case, nd[2]), nd[1], _pn(case, nd[3]))

"""C11: generator of array-level expression trees over every operand kind, and the harness that
evaluates a tree with the real library twice: on the containers (array arithmetic) and on the
i-th elements individually (scalar arithmetic).

case = {
  "n": array length,
  "vals"/"errs": bits per base measurement (var index = position), "units": unit per var,
  "nodes": Expr nodes for the Lean model (exprgen format; "var" nodes first),
  "leaves": [leaf, ...]   leaf kinds:
      {"k":"marray","vars":[...],"unit":u,"name":s}
      {"k":"quantity","node":j}             (a measurement, or a derived quantity m_a*m_b)
      {"k":"pair","var":i}                  ((value, error) tuple)
      {"k":"scalarNum","c":bits,"int":b}
      {"k":"listNum","cs":[bits],"int":b}   {"k":"ndarrayNum","cs":[bits],"int":b}
  "tree": ["leaf", idx] | ["fn","un"|"deg",name,T] | ["op",name,T,T] | ["log2",Tbase,Tx],
  "rho": [[i,j,bits]], "label": "<what>:<kinds>" }
"""
import math

import exprgen
from common import bits, unbits

OPS = ["add", "sub", "mul", "div", "pow"]
FN_UN = ["sqrt", "exp", "sin", "cos", "tan", "sec", "csc", "cot", "asin", "acos", "atan",
         "log10", "ln"]
FN_DEG = list(exprgen.DEG)
FUNCS = [("un", f) for f in FN_UN] + [("deg", f) for f in FN_DEG]
# the other operand next to a MeasurementArray
OTHER_KINDS = ["scalarInt", "scalarFloat", "scalarNpFloat", "quantity", "derivedQuantity", "pair", "listFloat",
               "listInt", "ndarrayFloat", "ndarrayInt", "marray", "marraySame", "marrayDerived"]
# argument kinds of the math functions
FN_KINDS = ["marray", "marrayDerived", "listFloat", "listInt", "ndarrayFloat", "ndarrayInt",
            "scalarFloat", "scalarInt", "scalarNpFloat", "quantity"]
UNITS = ["", "m", "s", "kg", "m/s", "kg*m^2/s^2"]
DEG_INNER = {"sind": "sin", "cosd": "cos", "tand": "tan", "secd": "sec", "cscd": "csc",
             "cotd": "cot"}


# ----------------------------------------------------------------------------- values
def draw(rng, prof, integer=False):
    if integer:
        if prof == "base":
            return float(rng.choice([2, 3, 4, 5]))
        if prof == "expo":
            return float(rng.choice([2, 3, -1, -2, 1]))
        if prof == "deg":
            return float(rng.randint(5, 85))
        if prof == "any":
            return float(rng.choice([1, -1]) * rng.randint(1, 6))
        return float(rng.randint(1, 6))
    if prof == "pos":
        return 10 ** rng.uniform(-0.6, 0.7)
    if prof == "small":
        v = rng.uniform(0.1, 0.9)
        return v if rng.random() < 0.5 else -v
    if prof == "deg":
        return rng.uniform(5, 85)
    if prof == "expo":
        return rng.choice([2.0, 3.0, -1.0, -2.0, 0.5, 1.5, round(rng.uniform(-3, 3), 2)]) or 1.0
    if prof == "base":
        return rng.uniform(0.2, 0.8) if rng.random() < 0.4 else rng.uniform(1.3, 5)
    if prof == "expable":
        return rng.uniform(-3, 3)
    v = 10 ** rng.uniform(-0.6, 0.7)
    return v if rng.random() < 0.5 else -v


def fn_profile(cls, name):
    if cls == "deg":
        return "deg"
    return {"sqrt": "pos", "ln": "pos", "log10": "pos", "asin": "small", "acos": "small",
            "exp": "expable"}.get(name, "any")


class Builder:
    def __init__(self, rng, n):
        self.rng, self.n = rng, n
        self.vals, self.errs, self.units = [], [], []
        self.nodes, self.leaves = [], []
        self.rho = []
        self._same = None

    def new_var(self, prof, unit="", zero_err=False):
        v = draw(self.rng, prof, integer=self.rng.random() < 0.15 and prof != "small")
        r = self.rng.random()
        e = 0.0 if (zero_err or r < 0.1) else abs(v) * 10 ** self.rng.uniform(-4, -0.8)
        self.vals.append(float(v))
        self.errs.append(float(e))
        self.units.append(unit)
        return len(self.vals) - 1

    def leaf(self, kind, prof):
        """returns a tree ( ["leaf", idx] or a small subtree for the derived kinds )"""
        rng, n = self.rng, self.n
        if kind in ("marray", "marraySame"):
            if kind == "marraySame" and self._same is not None:
                return ["leaf", self._same]
            unit = rng.choice(UNITS)
            vs = [self.new_var(prof, unit) for _ in range(n)]
            self.leaves.append({"k": "marray", "vars": vs, "unit": unit,
                                "name": rng.choice(["", "len", "t"])})
            self._same = len(self.leaves) - 1
            return ["leaf", self._same]
        if kind == "marrayDerived":
            # (a + c) for profiles closed under +, (a * c) otherwise: elements with two sources
            a = self.leaf("marray", prof)
            self._same = None
            if prof in ("pos", "base"):
                c = self.leaf("marray", "pos")
                sc = ["leaf", self._push({"k": "scalarNum", "c": bits(0.5), "int": False})]
                # 0.5*(a*c)**0.5 keeps positive values positive and of similar size
                return ["op", "mul", sc, ["fn", "un", "sqrt", ["op", "mul", a, c]]]
            c = self.leaf("marray", "any")
            return ["op", "mul", a, ["fn", "un", "cos", c]] if prof in ("small",) else \
                ["op", "add", a, ["op", "mul", ["leaf", self._push(
                    {"k": "scalarNum", "c": bits(0.01), "int": False})], c]]
        if kind in ("scalarInt", "scalarFloat", "scalarNpFloat"):
            v = draw(rng, prof, integer=(kind == "scalarInt"))
            return ["leaf", self._push({"k": "scalarNum", "c": bits(v), "int": kind == "scalarInt",
                                        "np": kind == "scalarNpFloat"})]
        if kind in ("listFloat", "listInt", "ndarrayFloat", "ndarrayInt"):
            integer = kind.endswith("Int")
            cs = [bits(draw(rng, prof, integer=integer)) for _ in range(n)]
            return ["leaf", self._push({"k": "listNum" if kind.startswith("list") else "ndarrayNum",
                                        "cs": cs, "int": integer})]
        if kind == "quantity":
            i = self.new_var(prof, rng.choice(UNITS))
            self._node(["var", i])
            return ["leaf", self._push({"k": "quantity", "node": self._node(["var", i])})]
        if kind == "derivedQuantity":
            i = self.new_var(prof, rng.choice(UNITS))
            j = self.new_var("pos", rng.choice(UNITS))
            a, b = self._node(["var", i]), self._node(["var", j])
            # m_i * sqrt(m_j): same sign as m_i, keeps "small" small enough via rejection
            s = self._node(["un", "sqrt", b])
            return ["leaf", self._push({"k": "quantity", "node": self._node(["bin", "mul", a, s])})]
        if kind == "pair":
            i = self.new_var(prof, "")
            if self.errs[i] == 0.0:
                self.errs[i] = abs(self.vals[i]) * 0.01
            return ["leaf", self._push({"k": "pair", "var": i, "node": self._node(["var", i])})]
        raise KeyError(kind)

    def _push(self, leaf):
        self.leaves.append(leaf)
        return len(self.leaves) - 1

    def _node(self, node):
        for k, nd in enumerate(self.nodes):
            if nd == node:
                return k
        self.nodes.append(node)
        return len(self.nodes) - 1

    def finish(self, tree, label):
        # correlations between the elements of two different arrays (same position), sometimes
        arrs = [l for l in self.leaves if l["k"] == "marray"]
        if len(arrs) >= 2 and self.rng.random() < 0.4:
            a, b = arrs[0], arrs[1]
            for i, j in zip(a["vars"], b["vars"]):
                if self.errs[i] > 0 and self.errs[j] > 0 and self.rng.random() < 0.7:
                    self.rho.append([i, j, bits(self.rng.choice([0.5, -0.3, 0.9, -1.0, 1.0,
                                                                  round(self.rng.uniform(-1, 1), 3)]))])
        for l in self.leaves:      # var nodes for array elements
            if l["k"] == "marray":
                l["nodes"] = [self._node(["var", v]) for v in l["vars"]]
        return {"n": self.n, "vals": [bits(v) for v in self.vals],
                "errs": [bits(e) for e in self.errs], "units": self.units, "nodes": self.nodes,
                "leaves": self.leaves, "tree": tree, "rho": self.rho, "label": label}


# ----------------------------------------------------------------------------- reference / domain
def _node_ref(case, k, cache):
    if k in cache:
        return cache[k]
    nd = case["nodes"][k]
    if nd[0] == "var":
        v = unbits(case["vals"][nd[1]])
    elif nd[0] == "un":
        a = _node_ref(case, nd[2], cache)
        v = None if a is None else exprgen.ref_un(nd[1], a)
    else:
        a, b = _node_ref(case, nd[2], cache), _node_ref(case, nd[3], cache)
        v = None if a is None or b is None else exprgen.ref_bin(nd[1], a, b)
    cache[k] = v
    return v


def ref_at(case, tree, i, cache=None):
    """(reference central value, is plain number) of the tree at element i; None = out of domain"""
    cache = {} if cache is None else cache
    t = tree[0]
    if t == "leaf":
        l = case["leaves"][tree[1]]
        k = l["k"]
        if k == "marray":
            return unbits(case["vals"][l["vars"][i]]), False
        if k == "quantity":
            v = _node_ref(case, l["node"], cache)
            return None if v is None else (v, False)
        if k == "pair":
            return unbits(case["vals"][l["var"]]), False
        if k == "scalarNum":
            return unbits(l["c"]), True
        return unbits(l["cs"][i]), True
    if t == "fn":
        r = ref_at(case, tree[3], i, cache)
        if r is None:
            return None
        x, plain = r
        if tree[1] == "deg":
            v = exprgen.ref_un(DEG_INNER[tree[2]], x / 180 * math.pi)
        else:
            v = exprgen.ref_un(tree[2], x)
        return None if v is None or not _ok(v) else (v, plain)
    if t == "op":
        ra, rb = ref_at(case, tree[2], i, cache), ref_at(case, tree[3], i, cache)
        if ra is None or rb is None:
            return None
        (a, pa), (b, pb) = ra, rb
        v = exprgen.ref_bin(tree[1], a, b, b_is_const=pb)
        return None if v is None or not _ok(v) else (v, pa and pb)
    if t == "log2":
        ra, rb = ref_at(case, tree[1], i, cache), ref_at(case, tree[2], i, cache)
        if ra is None or rb is None:
            return None
        (a, pa), (b, pb) = ra, rb
        v = exprgen.ref_bin("log", a, b)
        return None if v is None or not _ok(v) else (v, pa and pb)
    raise KeyError(t)


def _ok(v):
    return not isinstance(v, complex) and math.isfinite(v) and abs(v) < 1e8 and \
        (v == 0 or abs(v) > 1e-8)


def in_domain(case):
    return all(ref_at(case, case["tree"], i) is not None for i in range(case["n"]))


# ----------------------------------------------------------------------------- generators
def _retry(rng, make, tries=60):
    for _ in range(tries):
        c = make()
        if c is not None and in_domain(c):
            return c
    return None


def gen_binop(rng, op, other, array_left, n=None):
    """MeasurementArray `op` other-kind operand, in the given order"""
    def make():
        b = Builder(rng, n or rng.randint(1, 6))
        if op == "pow":
            pa, po = ("base", "expo") if array_left else ("expo", "base")
        elif op == "div":
            pa = po = "any"
        else:
            pa = po = "any"
        if other in ("marray", "marraySame", "marrayDerived", "derivedQuantity") and op == "pow":
            po = "pos" if not array_left else "expo"
        a = b.leaf("marray", pa)
        o = b.leaf(other, po if other != "marraySame" else pa)
        tree = ["op", op, a, o] if array_left else ["op", op, o, a]
        return b.finish(tree, "op:{}:{}".format(op, "marray," + other if array_left
                                                else other + ",marray"))
    return _retry(rng, make)


def gen_fn(rng, cls, name, kind, n=None):
    def make():
        b = Builder(rng, n or rng.randint(1, 6))
        a = b.leaf(kind, fn_profile(cls, name))
        return b.finish(["fn", cls, name, a], "fn:{}:{}".format(name, kind))
    return _retry(rng, make)


def gen_neg(rng, kind, n=None):
    def make():
        b = Builder(rng, n or rng.randint(1, 6))
        a = b.leaf(kind, "any")
        return b.finish(["fn", "un", "neg", a], "neg:{}".format(kind))
    return _retry(rng, make)


def gen_log2(rng, kbase, kx, n=None):
    def make():
        b = Builder(rng, n or rng.randint(1, 6))
        base = b.leaf(kbase, "base")
        b._same = None
        x = b.leaf(kx, "pos")
        return b.finish(["log2", base, x], "log2:{},{}".format(kbase, kx))
    return _retry(rng, make)


def gen_tree(rng, depth=None, n=None):
    """a random composition (depth 2-4) with at least one MeasurementArray"""
    def make():
        b = Builder(rng, n or rng.randint(1, 8))
        d = depth or rng.randint(2, 4)

        def sub(d, need_array, fn_arg=False):
            # fn_arg: the subtree is an argument of a math function; a (value, error) tuple is
            # an operand form of the *operators* only
            r = rng.random()
            if d == 0:
                if need_array:
                    return b.leaf(rng.choice(["marray", "marray", "marraySame"]), "pos"), True
                k = rng.choice(FN_KINDS if fn_arg else OTHER_KINDS)
                return b.leaf(k, "pos"), k.startswith("marray")
            if r < 0.35:
                cls, name = rng.choice(FUNCS)
                t, arr = sub(d - 1, need_array, True)
                return ["fn", cls, name, t], arr
            if r < 0.45:
                x, a1 = sub(d - 1, need_array, True)
                y, a2 = sub(rng.randint(0, d - 1), False, True)
                return (["log2", x, y] if rng.random() < 0.5 else ["log2", y, x]), a1 or a2
            op = rng.choice(OPS)
            x, a1 = sub(d - 1, True)
            y, a2 = sub(rng.randint(0, d - 1), False)
            return (["op", op, x, y] if rng.random() < 0.5 else ["op", op, y, x]), True
        t, _ = sub(d, True)
        return b.finish(t, "tree:depth{}".format(d))
    return _retry(rng, make, tries=300)


def enumerate_all(rng, reps=2):
    """every operator x order x kind, every function x kind, log2 kind x kind — completely"""
    out = []
    for rep in range(reps):
        n = [1, None, None][rep % 3]
        for op in OPS:
            for other in OTHER_KINDS:
                for left in (True, False):
                    out.append(gen_binop(rng, op, other, left, n=n))
        for cls, name in FUNCS:
            for kind in FN_KINDS:
                out.append(gen_fn(rng, cls, name, kind, n=n))
        for kind in ("marray", "marrayDerived", "quantity"):
            out.append(gen_neg(rng, kind, n=n))
        for kb in FN_KINDS:
            for kx in FN_KINDS:
                out.append(gen_log2(rng, kb, kx, n=n))
    return out


def combos():
    c = [("op", op, other, left) for op in OPS for other in OTHER_KINDS for left in (True, False)]
    c += [("fn", cls, name, kind) for cls, name in FUNCS for kind in FN_KINDS]
    c += [("neg", kind) for kind in ("marray", "marrayDerived", "quantity")]
    c += [("log2", kb, kx) for kb in FN_KINDS for kx in FN_KINDS]
    return c


def gen_combo(rng, c, n=None):
    if c[0] == "op":
        return gen_binop(rng, c[1], c[2], c[3], n=n)
    if c[0] == "fn":
        return gen_fn(rng, c[1], c[2], c[3], n=n)
    if c[0] == "neg":
        return gen_neg(rng, c[1], n=n)
    return gen_log2(rng, c[1], c[2], n=n)


# ----------------------------------------------------------------------------- model line
def model_line(case):
    def leaf(l):
        k = l["k"]
        if k == "marray":
            return {"k": "marray", "ns": l["nodes"]}
        if k == "quantity":
            return {"k": "quantity", "n": l["node"]}
        if k == "pair":
            return {"k": "pair", "n": l["node"]}
        if k == "scalarNum":
            return {"k": "scalarNum", "c": l["c"]}
        return {"k": k, "cs": l["cs"]}

    def tr(t):
        if t[0] == "leaf":
            return ["leaf", leaf(case["leaves"][t[1]])]
        if t[0] == "fn":
            return ["fn", t[1], t[2], tr(t[3])]
        if t[0] == "op":
            return ["op", t[1], tr(t[2]), tr(t[3])]
        return ["log2", tr(t[1]), tr(t[2])]
    return {"cmd": "arr", "nodes": case["nodes"], "vals": case["vals"], "errs": case["errs"],
            "rho": case["rho"], "tree": tr(case["tree"])}


# ----------------------------------------------------------------------------- the real library
def build_objects(q, np, case):
    """python objects per leaf; measurement objects per var"""
    vals = [unbits(b) for b in case["vals"]]
    errs = [unbits(b) for b in case["errs"]]
    meas = {}
    objs = []
    for l in case["leaves"]:
        if l["k"] == "marray":
            kw = {}
            if l["unit"]:
                kw["unit"] = l["unit"]
            if l["name"]:
                kw["name"] = l["name"]
            arr = q.MeasurementArray([vals[v] for v in l["vars"]], [errs[v] for v in l["vars"]], **kw)
            for pos, v in enumerate(l["vars"]):
                meas[v] = arr[pos]
            objs.append(arr)
        else:
            objs.append(None)
    nodeobj = {}

    def node(k):
        if k in nodeobj:
            return nodeobj[k]
        nd = case["nodes"][k]
        if nd[0] == "var":
            i = nd[1]
            if i not in meas:
                kw = {"unit": case["units"][i]} if case["units"][i] else {}
                meas[i] = q.Measurement(vals[i], errs[i], **kw)
            o = meas[i]
        elif nd[0] == "un":
            o = getattr(q, nd[1])(node(nd[2]))
        else:
            o = exprgen.PYOPS[nd[1]](node(nd[2]), node(nd[3]))
        nodeobj[k] = o
        return o
    for idx, l in enumerate(case["leaves"]):
        k = l["k"]
        if k == "quantity":
            objs[idx] = node(l["node"])
        elif k == "pair":
            objs[idx] = (vals[l["var"]], errs[l["var"]])
        elif k == "scalarNum":
            c = unbits(l["c"])
            objs[idx] = int(c) if l["int"] else (np.float64(c) if l.get("np") else c)
        elif k == "listNum":
            objs[idx] = [int(unbits(c)) if l["int"] else unbits(c) for c in l["cs"]]
        elif k == "ndarrayNum":
            objs[idx] = np.array([int(unbits(c)) if l["int"] else unbits(c) for c in l["cs"]])
    for i, j, r in case["rho"]:
        q.set_correlation(meas[i], meas[j], unbits(r))
    return objs


def _apply_fn(q, cls, name, x):
    if name == "neg":
        return -x
    if name == "ln":
        return q.log(x)
    return getattr(q, name)(x)


def eval_array(q, case, objs, tree):
    """the tree on the containers: array arithmetic"""
    t = tree[0]
    if t == "leaf":
        return objs[tree[1]]
    if t == "fn":
        return _apply_fn(q, tree[1], tree[2], eval_array(q, case, objs, tree[3]))
    if t == "op":
        return exprgen.PYOPS[tree[1]](eval_array(q, case, objs, tree[2]),
                                      eval_array(q, case, objs, tree[3]))
    return q.log(eval_array(q, case, objs, tree[1]), eval_array(q, case, objs, tree[2]))


def eval_scalar(q, case, objs, tree, i):
    """the tree on the i-th elements individually: scalar arithmetic on the same objects"""
    t = tree[0]
    if t == "leaf":
        l = case["leaves"][tree[1]]
        o = objs[tree[1]]
        return o[i] if l["k"] in ("marray", "listNum", "ndarrayNum") else o
    if t == "fn":
        return _apply_fn(q, tree[1], tree[2], eval_scalar(q, case, objs, tree[3], i))
    if t == "op":
        return exprgen.PYOPS[tree[1]](eval_scalar(q, case, objs, tree[2], i),
                                      eval_scalar(q, case, objs, tree[3], i))
    return q.log(eval_scalar(q, case, objs, tree[1], i), eval_scalar(q, case, objs, tree[2], i))


def pretty(case):
    def lf(l):
        k = l["k"]
        if k == "marray":
            return "MA([{}]{}{})".format(
                ", ".join("{!r}+/-{!r}".format(unbits(case["vals"][v]), unbits(case["errs"][v]))
                          for v in l["vars"]),
                ", unit=" + repr(l["unit"]) if l["unit"] else "",
                ", name=" + repr(l["name"]) if l["name"] else "")
        if k == "quantity":
            return "Q" + _pn(case, l["node"])
        if k == "pair":
            return "({!r}, {!r})".format(unbits(case["vals"][l["var"]]), unbits(case["errs"][l["var"]]))
        if k == "scalarNum":
            c = unbits(l["c"])
            return repr(int(c) if l["int"] else c) if not l.get("np") else "np.float64({!r})".format(c)
        cs = [int(unbits(c)) if l["int"] else unbits(c) for c in l["cs"]]
        return repr(cs) if k == "listNum" else "np.array({!r})".format(cs)

    def tr(t):
        if t[0] == "leaf":
            return "L{}".format(t[1])
        if t[0] == "fn":
            return "{}({})".format(t[2], tr(t[3]))
        if t[0] == "op":
            sym = {"add": "+", "sub": "-", "mul": "*", "div": "/", "pow": "**"}[t[1]]
            return "({} {} {})".format(tr(t[2]), sym, tr(t[3]))
        return "log({}, {})".format(tr(t[1]), tr(t[2]))
    leaves = "; ".join("L{}={}".format(i, lf(l)) for i, l in enumerate(case["leaves"]))
    rho = "; rho: " + ", ".join("(m{},m{})={!r}".format(i, j, unbits(r)) for i, j, r in case["rho"]) \
        if case["rho"] else ""
    return "{}  where {}{}".format(tr(case["tree"]), leaves, rho)


def _pn(case, k):
    nd = case["nodes"][k]
    if nd[0] == "var":
        i = nd[1]
        return "({!r}+/-{!r}{})".format(unbits(case["vals"][i]), unbits(case["errs"][i]),
                                       " " + case["units"][i] if case["units"][i] else "")
    if nd[0] == "un":
        return "{}{}".format(nd[1], _pn(case, nd[2]))
    return "({} {} {})".format(_pn(case, nd[2]), nd[1], _pn(case, nd[3]))

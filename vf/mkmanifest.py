#!/venv/bin/python
"""Regenerate MANIFEST.json from the property modules (keeps it schema-valid at all times)."""
import importlib
import json
import os
import sys

HERE = os.path.dirname(os.path.abspath(__file__))
sys.path.insert(0, HERE)
ROOT = os.path.dirname(HERE)

ALL = ["C%02d" % i for i in range(1, 21)]
NOT_YET = {}


def main():
    checks, na = [], []
    for pid in ALL:
        try:
            m = importlib.import_module("props." + pid.lower())
        except ImportError:
            na.append({"property_id": pid,
                       "reason": NOT_YET.get(pid, "check not built yet (see DESIGN.md §7 for the plan)")})
            continue
        checks.append({
            "property_id": pid,
            "quick_cmd": "./check {} --tier quick".format(pid),
            "thorough_cmd": "./check {} --tier thorough".format(pid),
            "evidence_file": "evidence/{}.json".format(pid),
            "replay_cmd_template": "./check {} --replay {{path}}".format(pid),
            "engine": "lean4-proof+correspondence",
            "level_claimed": {
                "category": "proof",
                "text": getattr(m, "LEVEL_TEXT", "Lean 4 theorems about a model regenerated from / "
                                "run against the working tree; see DESIGN.md"),
                "design_ref": getattr(m, "DESIGN_REF", "DESIGN.md §7 " + pid),
            },
            "level_note": getattr(m, "LEVEL_NOTE", "; ".join(getattr(m, "ASSUMPTIONS", []) +
                                                              getattr(m, "TRUSTED", []))),
            "technique": getattr(m, "TECHNIQUE", "Lean 4 machine-checked proof over a model tied to "
                                 "the source by translator + differential correspondence run"),
        })
    man = {
        "version": 1,
        "setup_cmd": "./setup.sh",
        "hooks": {
            "guard": "QEXPY_VERIF",
            "enable": "no source hooks are needed: the harness runs the real qexpy in-process "
                      "(/venv/bin/python), captures numpy.random.normal by monkeypatching inside "
                      "its own process and reads matplotlib Agg artists",
            "baseline_off_cmd": "cd /repo && /venv/bin/python -m pytest -q -p no:cacheprovider",
            "source_commits": [],
            "add_only": True,
        },
        "engines": [{
            "name": "lean4-proof+correspondence", "path": "lean/",
            "serves_properties": [c["property_id"] for c in checks],
            "kind_free_text": "Lean 4.33 + Mathlib theorems over models in lean/QExPy; tables "
                              "regenerated from /repo by vf/translate.py; executable model "
                              "(lean/Driver.lean, compiled) diffed against the real library by "
                              "vf/check.py",
        }],
        "checks": checks,
        "notes": "See DESIGN.md. ./check <ID> --tier quick|thorough; VERIF_SEED honoured.",
        "not_applicable": na,
    }
    with open(os.path.join(ROOT, "MANIFEST.json"), "w") as f:
        json.dump(man, f, indent=1)
    print("checks:", [c["property_id"] for c in checks], "not claimed:", [n["property_id"] for n in na])


if __name__ == "__main__":
    main()

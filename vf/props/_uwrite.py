"""WRITTEN FORMS of a unit (C08 / C18): the same integer exponent map spelled as different
sentences of the unit grammar of C12.

`_units.unit_string` writes every symbol once, separated by `*` or the dot, with signed powers —
one point of the space "all unit assignments".  A user also writes `kg*m/s^2`, `kg/s^2*m^2`,
`m/s/s`, `kg*m*m/s^2`, `N/m/m`, `kg*m^2/(s^2*m)`, `kg*m^2/s^2A^2`, `1/s`, `(kg*m)/s^2`: chains of
`/` and `*` at one level (read left to right), the same symbol more than once (exponents add up),
brackets, implicit multiplication (binds tighter than `/`), powers written under a `/` with the
opposite sign.  `write_unit` produces such a sentence for a given meaning; the meaning is the
GIVEN map — the sentence is checked against it here by two readings that do not use the library:
the denotation of the generated syntax tree (`c12.den`) and the harness's recursive-descent
reference parser (`c12.ref_parse`).
"""
from fractions import Fraction as F

from props import _units as X

FORMS = ["plain", "slash-chain", "slash-first", "repeated-symbol", "partly-cancelled", "brackets",
         "juxtaposed", "negative-under-slash", "one-over", "mixed"]


def _split(rng, e, how):
    """the integer e != 0 as a list of non-zero integers that add up to e"""
    sg = 1 if e > 0 else -1
    if how == "ones" and abs(e) >= 2:
        return [sg] * abs(e)                                  # m*m, /s/s
    if how == "two" and abs(e) >= 2:
        a = rng.randint(1, abs(e) - 1)
        return [sg * a, sg * (abs(e) - a)]                   # m^2*m
    if how == "cancel":
        k = rng.choice([1, 1, 2])
        return [e + sg * k, -sg * k]                          # m^3/m  for m^2
    return [e]


def _parts(rng, u, form):
    parts = []
    for sym, e in u:
        e = int(e)
        how = None
        if form == "repeated-symbol":
            how = rng.choice(["ones", "two", "ones"]) if abs(e) >= 2 else rng.choice([None, "cancel"])
        elif form == "partly-cancelled":
            how = "cancel"
        elif form == "mixed":
            how = rng.choice([None, None, "ones", "two", "cancel"])
        parts += [(sym, c) for c in _split(rng, e, how)]
    return parts


def _factor(sym, p):
    """a factor of the syntax tree of c12: ('sym', s) | ('pw', s, text, value)"""
    return ("sym", sym) if p == 1 else ("pw", sym, str(p), F(p))


def _terms(rng, parts, form):
    """the parts (sym, contribution) as a list of (op, [factors]) — c12's syntax tree"""
    terms = []
    i = 0
    first = True
    while i < len(parts):
        # how many parts go into this term (juxtaposition / one bracket)
        k = 1
        if form in ("juxtaposed", "brackets", "mixed") and rng.random() < 0.6:
            k = min(len(parts) - i, rng.choice([2, 2, 3]))
        chunk = parts[i:i + k]
        i += k
        neg = sum(1 for _, c in chunk if c < 0)
        if form == "plain":
            op = "*"
        elif form == "negative-under-slash":
            op = "/" if rng.random() < 0.6 else "*"
        else:
            op = "/" if (neg * 2 > len(chunk) or (neg * 2 == len(chunk) and rng.random() < 0.5)) else "*"
            if form == "mixed" and rng.random() < 0.15:
                op = "/" if op == "*" else "*"
        if first and op == "/" and form not in ("one-over", "slash-first", "mixed"):
            op = "*"
        sg = -1 if op == "/" else 1
        bracket = len(chunk) > 1 and (form == "brackets" or (form == "mixed" and rng.random() < 0.5))
        if bracket:
            # a bracket holds an expression of its own (no nested brackets): * and / inside
            inner = []
            for j, (sym, c) in enumerate(chunk):
                c2 = c * sg
                iop = None if j == 0 else ("/" if c2 < 0 and rng.random() < 0.7 else rng.choice(["*", X.DOT]))
                inner.append((iop, [_factor(sym, -c2 if iop == "/" else c2)]))
            fs = [("par", inner)]
        else:
            fs = []
            for sym, c in chunk:
                f = _factor(sym, c * sg)
                if fs and fs[-1][0] == "sym":
                    # a bare symbol followed by a letter would be read as one longer symbol
                    fs[-1] = ("pw", fs[-1][1], "1", F(1))
                fs.append(f)
        if len(chunk) == 1 and form in ("brackets", "mixed") and rng.random() < 0.2:
            fs = [("par", [(None, fs)])]
        terms.append((None if first else (op if op == "/" else rng.choice(["*", "*", X.DOT])), fs, op))
        first = False
    return terms


def write_unit(rng, u, form=None):
    """-> (sentence, form) : a unit string whose conventional reading is the integer exponent map
    u = [(sym, Fraction)], every exponent a non-zero integer.  Falls back to the plain spelling
    when the drawn form does not apply; never returns a string the two harness readings do not
    both read as u."""
    from props.c12 import den, ref_parse, render
    want = X.sem(dict(u))
    assert all(e.denominator == 1 and e != 0 for _, e in u)
    form = form or rng.choice(FORMS)
    for _ in range(8):
        parts = _parts(rng, u, form)
        if form not in ("plain",):
            rng.shuffle(parts)
        if form in ("slash-chain", "one-over"):
            # numerator factors first, then one `/` per denominator factor (kg*m/s/s) ...
            parts.sort(key=lambda p: p[1] < 0)
            if form == "slash-chain" and rng.random() < 0.6:
                # ... or a `/` in the MIDDLE of the chain, followed by a further `*` (kg/s^2*m^2)
                pos = [p for p in parts if p[1] > 0]
                ngs = [p for p in parts if p[1] < 0]
                if pos and ngs:
                    cut = rng.randint(0, len(pos) - 1) if len(pos) > 1 else 0
                    parts = pos[:max(1, cut)] + ngs + pos[max(1, cut):]
        if form == "slash-first":
            parts.sort(key=lambda p: p[1] > 0)
        terms = _terms(rng, parts, form)
        lead = terms[0][2] == "/"
        e = [(op, fs) for op, fs, _ in terms]
        s = render(e)
        if lead:
            # the first term is a divisor: written with the bare numerator `1/`
            s = "1/" + s
            e = [(None, [])] + [("/", e[0][1])] + e[1:]
        if X.sem(den(e)) == want and ref_parse(s) == want and len(s) <= 60:
            return s, form
    return X.unit_string(u, rng.choice(["*", X.DOT])), "plain"


def ordered_json(u, s):
    """units_json of the map u in the order in which the symbols first appear in the sentence s:
    the order of the keys of the dict the library builds from s.  (The harness's simulation of
    binary64 exponent arithmetic, `_units._simulate`, adds in key order, as the library does: with
    thirds the order decides whether a sum cancels to exactly 0.)"""
    import re
    first = {}
    for i, k in enumerate(re.findall(r"[A-Za-z]+", s)):
        first.setdefault(k, i)
    return X.units_json(sorted(u, key=lambda p: first.get(p[0], len(first))))


def rewrite_leaves(rng, tree, p=0.6, names=(), tags=None):
    """the same formula with (a share p of) its integer leaf units written in another form; the
    valid re-assignments of a recalculation wrapper are rewritten as well"""
    t = tree
    if t[0] == "leaf":
        u = X.units_from_json(t[1])
        if rng.random() < p and u and all(e.denominator == 1 and e != 0 for _, e in u):
            s, form = write_unit(rng, u)
            if tags is not None:
                tags["leaf-written:" + form] += 1
            return ["leaf", ordered_json(u, s), s] + t[3:]
        return t
    if t[0] == "const":
        return t
    if t[0] == "powc":
        return ["powc", rewrite_leaves(rng, t[1], p, names, tags)] + t[2:]
    if t[0] == "fault":
        return ["fault", rewrite_leaves(rng, t[1], p, names, tags)] + t[2:]
    if t[0] == "recalc":
        late = []
        for x in t[2]:
            if x[1] == "assign" and rng.random() < p:
                u = X.units_from_json(x[2])
                s, form = write_unit(rng, u)
                if tags is not None:
                    tags["leaf-written:" + form] += 1
                x = [x[0], "assign", ordered_json(u, s), s]
            late.append(x)
        return ["recalc", rewrite_leaves(rng, t[1], p, names, tags), late]
    return ["node", t[1], [rewrite_leaves(rng, x, p, names, tags) for x in t[2]]]


def written_form(s):
    """classes of a leaf string for the evidence distribution (what a reader wants to see
    exercised): a `/` followed by a further explicit operator at the same level, a symbol that
    occurs more than once, brackets, implicit multiplication, the bare numerator"""
    import re
    out = []
    flat = re.sub(r"\([^()]*\)", "G", s.replace(X.DOT, "*").replace("^(", "^["))
    if re.search(r"/[^*/]*[*/]", flat):
        out.append("slash-then-operator")
    syms = re.findall(r"[A-Za-z]+", s)
    if len(syms) != len(set(syms)):
        out.append("symbol-twice")
    if "(" in s.replace("^(", ""):
        out.append("brackets")
    if re.search(r"[0-9)][A-Za-z(]", s):
        out.append("implicit-multiplication")
    if s.startswith("1/"):
        out.append("one-over")
    if "/" in s:
        out.append("slash")
    return out

"""C18 — named compound units never change the physical dimension of a result."""
import collections
from fractions import Fraction as F

from props import _units as X
from props import _ufault as UF
from props import _uwrite as UW

ID = "C18"
SECTIONS = ["units"]
LEAN_MODULES = ["QExPy.Props.C18"]
LEMMA_MODULES = ["QExPy.Lemmas.Units", "QExPy.Lemmas.UnitsDefs", "QExPy.Lemmas.ParseSpec"]
THEOREMS = ["QExPy.C18_pack_sound", "QExPy.C18_unpack_sound", "QExPy.C18_mul_div_dim",
            "QExPy.C18_named_only_if_power", "QExPy.C18_clear", "QExPy.C18_dim_preserved",
            "QExPy.C18_define_reject_unchanged", "QExPy.C18_define_reject_iff",
            "QExPy.C18_define_accept", "QExPy.C18_rejected_requests_invisible",
            "QExPy.C18_clear_last", "QExPy.C18_definitions_wellformed", "QExPy.C18_written"]
RULE = ("define/clear/evaluate histories: definition chains (N = kg*m/s^2, J = N*m, W = J/s, "
        "Pa = N/m^2 and random compounds, each mentioning base symbols and earlier names, "
        "occasional redefinition in base symbols; the expression of a definition and the unit of an "
        "operand are also WRITTEN in every form of the unit grammar: a symbol more than once as in "
        "N/m/m, kg*m*m/s^2, J*J/N, chains of / and *, brackets, implicit multiplication), trees as "
        "in C08 whose leaves are written in "
        "named, expanded or mixed form with named units to powers +-1..3, +/- operands "
        "dimension-equal after expansion but reached by different routes, constant powers and "
        "sqrt of named units; every tree is evaluated with the definitions active and again after "
        "clear_unit_definitions().  The result's unit string is read back with the library's "
        "parser, expanded by the harness's own expansion and compared with exact dimensional "
        "analysis of the expanded operands (independent oracle) and with the Lean model.  "
        "Non-trivial = a named unit with |exponent| >= 2 or a +/- with named and expanded operands.  "
        "After the final clear also base-symbol operands whose result has the dimension of a power "
        "of a former name; histories that start a new process (no reset before the first request: "
        "definition, clear, style or evaluation first), executed in forks of a fresh interpreter")
ASSUMPTIONS = ["definitions mention only base symbols and earlier names (no cycles: the code has no "
               "cycle check and would recurse without bound)",
               "the dimensionless-intermediate limitation of C08 applies (expanded dimension of "
               "every non-constant operand is non-empty)",
               "exponent arithmetic in Q vs int/binary64 as in C08"]
TRUSTED = ["the library's own parser is used to read the result's unit string back (tied by C12/C13)"]
LEVEL_TEXT = ("Lean 4 theorems over an exact list/Rat model of unit definitions, unpacking and packing: "
              "C18_dim_preserved (for EVERY ordered definition table and EVERY unit-expression tree in the "
              "domain, the result's unit - after packing into named units - expands to exactly the "
              "dimension of exact analysis on the expanded operands), C18_pack_sound / C18_unpack_sound / "
              "C18_named_only_if_power (a named unit appears only as an exact rational power of its "
              "definition), C18_clear / C18_clear_last (after clear_unit_definitions the result is the "
              "base-unit one), C18_define_reject_* / C18_rejected_requests_invisible (a rejected "
              "define_unit request leaves the table unchanged for all request histories), "
              "C18_definitions_wellformed (whatever is written in a definition - a symbol several times, "
              "chains of /, brackets - every history leaves key-unique maps: the hypothesis of "
              "C18_dim_preserved holds in every session), C18_written (operands given as unit strings).  Tied to the "
              "code by a differential run over define/clear/evaluate histories and an independent "
              "expansion oracle; a proof is the right level because the claim is about every table and tree")
LEVEL_NOTE = ("proved of the Lean model for all ordered (acyclic) definition tables; cyclic definitions are "
              "rejected by neither code nor model and are outside the domain; binary64 exponents as in C08")
TECHNIQUE = "Lean 4 theorems over an exact list/Rat model of unpacking, packing and the operators"

CLASSIC = [("N", "kg*m/s^2", [("kg", 1), ("m", 1), ("s", -2)]),
           ("J", "N*m", [("N", 1), ("m", 1)]),
           ("W", "J/s", [("J", 1), ("s", -1)]),
           ("Pa", "N/m^2", [("N", 1), ("m", -2)])]
NAMES = ["V", "T", "C", "H", "Wb", "lx"]
BASE = ["kg", "m", "s", "A", "K", "mol"]


def gen_defs(rng, written=0.5):
    """-> list of ["define", name, string, units_json]; with probability `written` the expression
    of a definition is spelled in another written form of the same map (N = kg*m/s/s,
    Pa = N/m/m, J = kg*m*m/s^2 or N*m, a symbol more than once, brackets, chains of /)"""
    out = []
    r = rng.random()
    if r < 0.55:
        k = rng.randint(1, 4)
        for name, ustr, u in CLASSIC[:k]:
            u = [(a, F(b)) for a, b in u]
            if rng.random() < written:
                ustr = UW.write_unit(rng, u)[0]
            out.append(["define", name, ustr, UW.ordered_json(u, ustr)])
    names = [d[1] for d in out]
    for name in rng.sample(NAMES, rng.choice([0, 1, 1, 2, 3]) if out else rng.randint(1, 3)):
        pool = BASE + names
        u = X.rand_units(rng, pool, 1, 3, emax=3)
        ustr = (UW.write_unit(rng, u)[0] if rng.random() < written
                else X.unit_string(u, rng.choice(["*", X.DOT])))
        out.append(["define", name, ustr, UW.ordered_json(u, ustr)])
        names.append(name)
    return out


def defs_dict(defs):
    d = collections.OrderedDict()
    for _, name, _, uj in defs:
        d[name] = X.units_from_json(uj)
    return d


def named_power(tree, names):
    for t in X.subtrees(tree):
        if t[0] == "leaf" and any(k in names and abs(F(n, d)) >= 2 for k, n, d in t[1]):
            return True
    return False


def mixed_sum(tree, names):
    def has_name(t):
        return any(x[0] == "leaf" and any(k in names for k, _, _ in x[1]) for x in X.subtrees(t))
    for t in X.subtrees(tree):
        if t[0] == "node" and t[1] in ("add", "sub") and len(t[2]) == 2:
            a, b = has_name(t[2][0]), has_name(t[2][1])
            if a != b:
                return True
    return False


def gen_history(rng):
    defs = gen_defs(rng)
    dh = defs_dict(defs)
    names = list(dh)
    hist = list(defs)
    trees = []
    tries = 0
    while len(trees) < 3 and tries < 60:
        tries += 1
        depth = rng.choice([1, 2, 2, 3, 3, 4])
        syms = rng.sample(BASE, rng.randint(1, 3)) + rng.sample(names, min(len(names), rng.randint(1, 2)))
        r = rng.random()
        if r < 0.10:
            a = X.gen_tree(rng, depth - 1, syms, dh)
            b = X.gen_tree(rng, depth - 1, syms, dh)
            da, db = X.dim_tree(a, dh), X.dim_tree(b, dh)
            if da[0] != "ok" or db[0] != "ok" or da[1] == db[1]:
                continue
            t = ["node", rng.choice(["add", "sub"]), [a, b]]
        else:
            t = X.gen_tree(rng, depth, syms, dh)
            d = X.dim_tree(t, dh)
            if r < 0.55 and d[0] == "ok" and X.ok_exps(d[1]):
                t = ["node", rng.choice(["add", "sub"]), [t, X.route(rng, d[1], depth - 1, dh)]]
        d = X.dim_tree(t, dh)
        if d[0] not in ("ok", "mismatch") or X.tree_size(t) > 50:
            continue
        bad = False
        for x in X.subtrees(t):
            # the tree is evaluated with the definitions active AND after clear (names are then
            # plain symbols): exponents must be printable (denominator <= 6) in both readings
            for defs_ in (dh, {}):
                dx = X.dim_tree(x, defs_)
                if dx[0] == "ok" and not X.ok_exps(dx[1]):
                    bad = True
        if bad:
            continue
        # other argument types / requests that are rejected (incl. failing re-definitions of an
        # active name in the middle of the formula) / recalculation after such requests
        t, _ = UF.decorate(rng, t, names, mix=(0.25, 0.25, 0.08))
        if rng.random() < 0.5 and X.unwrap(t)[0] != "leaf":   # (C18 judges calculated quantities)
            t = UW.rewrite_leaves(rng, t, 0.6)       # operands in other written forms
        if not X.float_ok(t, dh) or not X.float_ok(t, {}):
            continue
        trees.append(t)
    for t in trees:
        hist.append(["eval", t])
    if trees and rng.random() < 0.45:
        hist += fault_block(rng, dh, trees)
    if trees and rng.random() < 0.35 and defs:
        # redefine one name in base symbols, evaluate again
        name = rng.choice(names)
        u = X.rand_units(rng, BASE, 1, 3, emax=2)
        hist.append(["define", name, X.unit_string(u), X.units_json(u)])
        dh2 = collections.OrderedDict(dh)
        dh2[name] = u
        for t in trees:
            d = X.dim_tree(t, dh2)
            if d[0] in ("ok", "mismatch") and X.float_ok(t, dh2) and all(
                    X.dim_tree(x, dh2)[0] != "ok" or X.ok_exps(X.dim_tree(x, dh2)[1])
                    for x in X.subtrees(t)):
                hist.append(["eval", t])
    hist.append(["clear"])
    if rng.random() < 0.2:
        # a definition that fails when nothing is defined (any more)
        hist.append(["define-bad"] + UF.bad_define(rng, (), BASE))
    for t in trees:
        hist.append(["eval", t])
    # "clearing the definitions restores the undecorated behaviour": operands written in BASE
    # symbols whose result has exactly the dimension of a power of a FORMER name (the one place
    # where a name that is remembered somewhere would show): by a random route, several powers
    for name in rng.sample(names, min(len(names), 2)):
        ex = X.expand([(name, F(1))], dh)
        k = rng.choice([F(1), F(1), F(2), F(-1), F(3), F(1, 2)])
        d = {s_: e * k for s_, e in ex.items() if e != 0}
        if not d or not X.ok_exps(d):
            continue
        t = X.route(rng, d, rng.choice([1, 2, 2, 3]), None)
        if X.tree_size(t) <= 50 and X.dim_tree(t, {})[0] == "ok" and X.float_ok(t, {}) and all(
                X.dim_tree(x, {})[0] != "ok" or X.ok_exps(X.dim_tree(x, {})[1])
                for x in X.subtrees(t)):
            hist.append(["eval", t, {"former": True}])
    return hist


def name_probes(rng, name, dh):
    """formulas that show whether `name` still means what the accepted definitions say:
    named + expanded, named / base, (named * base) - (base * expanded)"""
    def lf(u):
        u = [(k, F(e)) for k, e in u]
        rng.shuffle(u)
        return ["leaf", X.units_json(u), X.unit_string(u, rng.choice(["*", X.DOT]))]
    if name not in dh:
        # never (successfully) defined: a plain symbol
        b = "m" if name != "m" else "s"
        return [["node", "div", [lf([(name, 1), (b, 1)]), lf([(b, 1)])]],
                ["node", "add", [lf([(name, 2)]), ["node", "mul", [lf([(name, 1)]), lf([(name, 1)])]]]]]
    ex = [(k, v) for k, v in X.expand([(name, F(1))], dh).items() if v != 0]
    if not ex or any(v.denominator != 1 or abs(v) > 9 for _, v in ex):
        return []
    b = rng.choice(ex)[0]
    out = [["node", rng.choice(["add", "sub"]), [lf([(name, 1)]), lf(ex)]],
           ["node", "div", [lf([(name, 1)]), lf([(b, 1)])]]]
    rest = [(k, v) for k, v in ex if k != b] + [(b, dict(ex)[b] + 1)]
    rest = [(k, v) for k, v in rest if v != 0]
    if rest:
        out.append(["node", "sub", [["node", "mul", [lf([(name, 1)]), lf([(b, 1)])]], lf(rest)]])
    if rng.random() < 0.5:
        out.reverse()
    return out


def fault_block(rng, dh, trees):
    """1-2 definitions that are REJECTED (malformed expression for an active name, for a new
    name, malformed name), then formulas that mention the names concerned and the earlier
    formulas again: the definitions must be exactly what they were"""
    out = []
    names = list(dh)
    probes = []
    for _ in range(rng.choice([1, 1, 2])):
        name, expr, cls = UF.bad_define(rng, names, BASE)
        out.append(["define-bad", name, expr, cls])
        if name.isalpha() and name.isascii():
            probes += name_probes(rng, name, dh)
        elif cls == "bad-name":
            # had the malformed name been registered, a result that is exactly its expression
            # would be shown under it
            ex = UF.ref_parse(expr)
            if ex:
                ex = [(k, v) for k, v in ex]
                lf = lambda u: ["leaf", X.units_json(u), X.unit_string(u)]  # noqa: E731
                probes.append(["node", "mul", [lf(ex[:1]), lf(ex[1:])]] if len(ex) > 1
                              else ["node", "neg", [lf(ex)]])
        # names defined through the name concerned must keep their meaning too
        for other in names:
            if other != name and any(k == name for k, _ in dh[other]) and rng.random() < 0.7:
                probes += name_probes(rng, other, dh)[:1]
    for t in probes[:5] + list(trees):
        d = X.dim_tree(t, dh)
        if d[0] in ("ok", "mismatch") and X.float_ok(t, dh) and all(
                X.dim_tree(x, dh)[0] != "ok" or X.ok_exps(X.dim_tree(x, dh)[1])
                for x in X.subtrees(t)):
            out.append(["eval", t])
    return out


def corpus():
    def lf(u):
        u = [(k, F(e)) for k, e in u]
        return ["leaf", X.units_json(u), X.unit_string(u)]
    N = CLASSIC[0]
    dN = ["define", N[0], N[1], X.units_json([(a, F(b)) for a, b in N[2]])]
    J = CLASSIC[1]
    dJ = ["define", J[0], J[1], X.units_json([(a, F(b)) for a, b in J[2]])]
    t1 = ["node", "mul", [lf([("N", 2)]), lf([("m", 1)])]]
    t2 = ["node", "mul", [["node", "div", [lf([("N", 1)]), lf([("N", 2)])]], lf([("m", 1)])]]
    t3 = ["node", "add", [lf([("J", 1)]), lf([("m", 2), ("kg", 1), ("s", -2)])]]
    t4 = ["node", "mul", [lf([("kg", 1), ("m", 1)]), lf([("s", -2)])]]
    t5 = ["node", "sqrt", [["node", "mul", [lf([("N", 1)]), lf([("N", 1)])]]]]
    t6 = ["powc", lf([("J", 2)]), 1, 2]
    t7 = ["node", "div", [lf([("J", -2)]), lf([("m", 1)])]]
    base = [[dN, dJ] + [["eval", t] for t in (t1, t2, t3, t4, t5, t6, t7)] + [["clear"]] +
            [["eval", t] for t in (t1, t4)]]
    # rejected definitions: a failing re-definition of N (bracket typo), of J, a malformed name,
    # a failing first definition; after each the names mean what they meant
    expN = lf([("kg", 1), ("m", 1), ("s", -2)])
    p1 = ["node", "add", [lf([("N", 1)]), expN]]
    p2 = ["node", "div", [lf([("N", 1)]), lf([("kg", 1)])]]
    p3 = ["node", "sub", [["node", "div", [lf([("J", 1)]), lf([("m", 1)])]], expN]]
    p4 = ["node", "div", [lf([("Wb", 1), ("m", 1)]), lf([("m", 1)])]]
    for bad in (["N", "kg*m/s^2)", "redefinition-bad-expression"], ["J", "N m2", "redefinition-bad-expression"],
                ["N 1", "kg*m", "bad-name"], ["Wb", "kg*m^", "new-name-bad-expression"]):
        base.append([dN, dJ, ["eval", p1], ["define-bad"] + bad] + [["eval", t] for t in (p1, p2, p3, p4, t1, t3)]
                    + [["clear"], ["define-bad"] + bad, ["eval", p4]])
    # ... and in the middle of a formula
    base.append([dN, dJ, ["eval", ["node", "add", [["fault", lf([("N", 1)]), "define", ["N", "kg*m/s^2)"]], expN]]],
                 ["eval", p2], ["eval", p3]])
    return base


def written_history(rng, form):
    """a history ABOUT one written form: a definition whose expression is spelled in `form` (over
    base symbols and earlier names), formulas that show what the name means (named +- expanded,
    named / base, (named * base) - expanded) with operands spelled in `form` as well, then clear
    and the formulas again; None when the form does not apply to the drawn maps"""
    defs = gen_defs(rng, written=0.0)[:rng.randint(0, 2)]
    names = [d[1] for d in defs]
    name = rng.choice([x for x in NAMES + ["Pa", "J", "W"] if x not in names])
    for _ in range(20):
        u = X.rand_units(rng, BASE + names, 1, 3, emax=3)
        ustr, got = UW.write_unit(rng, u, form)
        if got == form:
            break
    else:
        return None
    defs.append(["define", name, ustr, UW.ordered_json(u, ustr)])
    dh = defs_dict(defs)
    trees = []
    for t in name_probes(rng, name, dh) + [X.gen_tree(rng, 2, rng.sample(BASE, 2) + [name], dh)]:
        # the operands written in the same form where it applies
        def respell(x):
            if x[0] == "leaf":
                v = X.units_from_json(x[1])
                s_, g = UW.write_unit(rng, v, form)
                return ["leaf", UW.ordered_json(v, s_), s_] + x[3:]
            if x[0] == "powc":
                return ["powc", respell(x[1])] + x[2:]
            if x[0] == "node":
                return ["node", x[1], [respell(y) for y in x[2]]]
            return x
        if t[0] == "leaf":
            continue
        if rng.random() < 0.7:
            t = respell(t)
        d = X.dim_tree(t, dh)
        if d[0] in ("ok", "mismatch") and X.tree_size(t) <= 40 and X.float_ok(t, dh) \
                and X.float_ok(t, {}) and all(
                    X.dim_tree(x, dh)[0] != "ok" or X.ok_exps(X.dim_tree(x, dh)[1])
                    for x in X.subtrees(t)) and X.dim_tree(t, {})[0] in ("ok", "mismatch") and all(
                    X.dim_tree(x, {})[0] != "ok" or X.ok_exps(X.dim_tree(x, {})[1])
                    for x in X.subtrees(t)):
            trees.append(t)
    if not trees:
        return None
    return defs + [["eval", t] for t in trees] + [["clear"]] + [["eval", t] for t in trees]


def gen_cases(rng, n, tags=None):
    cases = corpus()
    # WRITTEN FORMS of definitions and operands (deliberate, every form several times per run)
    for form in UW.FORMS:
        made = tries = 0
        while made < max(4, n // 40) and tries < 120:
            tries += 1
            h = written_history(rng, form)
            if h is None:
                continue
            cases.append(h)
            made += 1
            if tags is not None:
                tags["history:definition-written:" + form] += 1
    n += len(cases) - len(corpus())
    while len(cases) < n:
        h = gen_history(rng)
        if any(st[0] == "eval" for st in h):
            cases.append(h)
    return cases


# ------------------------------------------------------------------ histories that start a process
# Every history above runs after the harness's reset (which CLEARS the definitions): the first
# define_unit of the process always comes after a clear.  A user's script defines its names first
# thing.  A history marked ["fresh"] is executed in a new interpreter in which nothing has been
# requested before its first step (forks of a clean room; `./check --replay` is such a process
# too), and judged by the independent oracle there.  What the first request of the process is, is
# a generated choice: a definition (most often), a clear, a style request, an evaluation.
def gen_fresh(rng):
    h = None
    while h is None or not any(st[0] == "eval" for st in h):
        h = gen_history(rng)
    r = rng.random()
    first = "define_unit"
    if r < 0.12:
        h, first = [["clear"]] + h, "clear_unit_definitions"
    elif r < 0.24:
        h, first = [["style", rng.random() < 0.5]] + h, "set_unit_style"
    elif r < 0.36:
        ev = [st for st in h if st[0] == "eval"][-1]        # evaluated after the final clear too
        h, first = [list(ev)] + h, "an evaluation"
    if h[0][0] != "define" and first == "define_unit":
        first = "an evaluation" if h[0][0] == "eval" else h[0][0]
    return [["fresh"]] + h, first


def run_fresh(ctx, hists):
    """each history in a fork of a fresh interpreter -> failures (independent oracle), counts"""
    import common as C
    failures, dist, evals = [], collections.Counter(), 0
    with C.CleanRoom("props.c18") as room:
        for h, first in hists:
            dist["history in a new process (no reset before it)"] += 1
            dist["new process: first request is " + first] += 1
            if h[1][0] == "define" and any(st[0] == "clear" for st in h[2:]):
                dist["new process: names defined before the first clear of the process, "
                     "evaluations after it"] += 1
            evals += sum(1 for st in h if st[0] == "eval")
            dist["new process: result with the dimension of a power of a former name, after clear"] += \
                sum(1 for st in h if st[0] == "eval" and len(st) > 2 and st[2].get("former"))
            ans = room.replay({"history": h})
            if ans.get("error"):
                failures.append({"signature": "c18:clean-room:" + str(ans["error"])[:40],
                                 "kind": "disagreement", "input": X.describe_prefix(h),
                                 "what": "the clean room gave no answer: {}".format(ans["error"])})
            for f in ans.get("failures") or []:
                f = dict(f, history=h, carries_history=True, reproduces_alone=True,
                         standalone="confirmed")
                failures.append(f)
    return failures, dict(dist), evals


def correspond(ctx):
    tags = collections.Counter()
    cases = gen_cases(ctx.rng, ctx.n(120, 6000), tags)
    fresh = [([["fresh"]] + h, h[0][0] if h[0][0] != "define" else "define_unit")
             for h in corpus()[:ctx.n(6, 50)]]
    fresh += [gen_fresh(ctx.rng) for _ in range(ctx.n(40, 400))]
    cases += [h[1:] for h, _ in fresh[::2]]      # the same histories in this process, with the model
    r = X.run_cases(ctx, ID, cases)
    ff, fd, fe = run_fresh(ctx, fresh)
    r["failures"] += ff
    r["evaluations"] += fe
    r["distribution"].update(fd)
    r["distribution"].update(tags)
    for h in cases:
        for st in h:
            if st[0] == "define":
                for c in UW.written_form(st[2]):
                    r["distribution"]["definition-string:" + c] = \
                        r["distribution"].get("definition-string:" + c, 0) + 1
    nontrivial = set()
    for (ci, t, dh, dm, o, si) in r.pop("evals"):
        if dh and (named_power(t, dh) or mixed_sum(t, dh)):
            nontrivial.add(X.case_hash([dm, t]))
    r["nontrivial"] = nontrivial
    r["distribution"]["histories"] = len(cases)
    r["distribution"]["evaluation after clear: dimension of a power of a former name, operands "
                      "in base symbols"] = sum(1 for h in cases for st in h if st[0] == "eval"
                                               and len(st) > 2 and st[2].get("former"))
    return r


def search(ctx, broken):
    out = {"failures": [], "strategy": []}
    cases = gen_cases(ctx.rng, ctx.n(400, 6000))
    r = X.run_cases(ctx, ID, cases, use_model=False)
    out["failures"] += [f for f in r["failures"] if f.get("oracle") == "independent"]
    out["strategy"].append("harness expansion + exact dimensional analysis as oracle: {} "
                           "evaluations in {} histories".format(r["evaluations"], len(cases)))
    ff, _, fe = run_fresh(ctx, [gen_fresh(ctx.rng) for _ in range(ctx.n(80, 400))])
    out["failures"] += [f for f in ff if f.get("oracle") == "independent"]
    out["strategy"].append("histories in a new process each (no reset before the first request): "
                           "{} evaluations".format(fe))
    try:
        r = X.run_cases(ctx, ID, cases[:150], ref=True)
        for f in r["failures"]:
            if f["signature"].startswith("c18:model-differs"):
                f["oracle"], f["kind"] = "independent", "violation"
                out["failures"].append(f)
        out["strategy"].append("reference-model run: {} evaluations".format(r["evaluations"]))
    except Exception as e:  # noqa: BLE001
        out["strategy"].append("reference driver unavailable: {}".format(str(e)[:200]))
    return out


def replay(ctx, rp):
    import qexpy as q
    f = rp.get("failure", {})
    h = f.get("history")
    if not h:
        return {"fails": False, "note": "replay file carries no concrete input", "payload": rp}
    fs = []
    obs = []
    for (t, dh, dm, o, _) in X.run_history(q, h):
        obs.append({"formula": X.pretty_tree(t), "impl": o})
        for f1 in X.judge_eval(ID, t, dh, o):
            f1["history"] = h          # a failure re-found from a corpus file stays replayable
            prefix = [st for st in h if st[0] != "eval"]
            if prefix:
                f1["input"] += "  with " + X.describe_prefix(prefix)
            fs.append(f1)
    return {"fails": bool(fs), "history": h, "impl": obs, "failures": fs}

"""C08 — units of results follow dimensional analysis, independent of factor order."""
import collections
from fractions import Fraction as F

from props import _units as X
from props import _ufault as UF
from props import _uwrite as UW

ID = "C08"
SECTIONS = ["units"]
LEAN_MODULES = ["QExPy.Props.C08"]
LEMMA_MODULES = ["QExPy.Lemmas.Units", "QExPy.Lemmas.ParseSpec", "QExPy.Lemmas.DefReqs"]
THEOREMS = ["QExPy.C08_dispatch", "QExPy.C08_order_insensitive", "QExPy.C08_mismatch",
            "QExPy.C08_addsub_empty", "QExPy.C08_perm", "QExPy.C08_exponents",
            "QExPy.C08_no_zero_entries", "QExPy.C08_dim", "QExPy.C08_leaf_written",
            "QExPy.C08_written_forms_agree", "QExPy.C08_written", "QExPy.C08_after_history"]
RULE = ("seeded unit-expression trees of depth <= 5 over {+,-,*,/,**k (k in +-1..3, 1/2, 1/3, 2/3, "
        "3/2), sqrt, neg, number operands}, 1-4 symbols, integer leaf exponents +-1..4, leaf units "
        "written in random factor order with '*' or the dot; the operands of every +/- are "
        "dimension-equal but built by a different random route (leaf in another order, products, "
        "quotients, roots, powers); plus a stream of genuine mismatches at the root.  Leaf units are "
        "also WRITTEN in every form of the unit grammar (chains of / and * at one level such as "
        "kg/s^2*m^2 and m/s/s, a symbol more than once, brackets, implicit multiplication, powers "
        "under a /, the bare numerator 1/): the meaning of the string is the map it was written for, "
        "checked by two readings of the harness; and formulas are evaluated at the end of HISTORIES "
        "in which compound units were defined (for the dimension of the result, of an operand, a "
        "power of it, a symbol the formula uses), used, and cleared again.  The result's "
        "unit string is read back with the library's parser and compared as an exponent map with "
        "(a) exact dimensional analysis on Fractions (independent oracle) and (b) the Lean model "
        "`unitOf`; the warning flag is compared as a boolean.  Non-trivial = the tree contains a "
        "+/- whose operands' units differ in the written order of the factors; distinct by hash")
ASSUMPTIONS = ["exponents are modelled in Q; the code uses int/binary64: cases in which a zero test "
               "or equality test on binary64 exponents would come out differently from exact "
               "arithmetic (possible with thirds) are counted as skipped, not judged",
               "trees with a dimensionless / unit-less non-constant operand are outside the domain "
               "of the property (documented limitation) and are not generated",
               "leaf exponents are non-zero (a unit written 'm^0' keeps a zero entry; see notes)"]
TRUSTED = ["the library's own parser is used to read the result's unit string back (tied by C12/C13)"]
LEVEL_TEXT = ("Lean 4 theorems over an exact list/Rat model of units.py whose operator dispatch table is "
              "regenerated from the source on every run: C08_dim (for EVERY unit-expression tree in the "
              "documented domain - any depth, any symbols, any rational exponents - the unit the model "
              "attaches to the result has, symbol by symbol, the exponents of exact dimensional analysis, "
              "and a warning is raised at a +/- exactly when the operands' dimensions differ), "
              "C08_order_insensitive / C08_perm (the outcome does not depend on the written order of the "
              "factors), C08_mismatch, C08_exponents, C08_no_zero_entries; C08_leaf_written / C08_written / "
              "C08_written_forms_agree (a leaf created with ANY unit string the reference grammar reads as u "
              "carries u, so formulas typed with unit strings are covered by C08_dim); C08_after_history "
              "(after any define / clear history that ends with no definition active the formula gets the "
              "unit of a fresh session).  The model is tied to the code by "
              "a differential run on seeded trees and by an independent Fraction oracle; a proof is the "
              "right level because the claim quantifies over all trees and orders, which tests sample")
LEVEL_NOTE = ("proved of the Lean model for all trees; binary64 exponent arithmetic (thirds) is outside the "
              "exact model and such cases are skipped, not judged")
TECHNIQUE = "Lean 4 theorems over an exact list/Rat model + translator-generated dispatch table"
CLEANROOM = True    # the reported input is confirmed stand-alone in a new process (vf/check.py)


def related(rng, t, kind):
    """a formula related to t: the same, one binary node with its operands exchanged, or every
    leaf unit written in the reverse factor order"""
    if kind == "same":
        return t
    if kind == "leaves-respelled":
        r = UW.rewrite_leaves(rng, t, 1.0)
        return r if r != t else None
    if kind == "leaves-rewritten":
        def rew(x):
            if x[0] == "leaf":
                u = list(reversed(X.units_from_json(x[1])))
                if len(u) < 2 or any(e.denominator != 1 for _, e in u):
                    return x
                return ["leaf", X.units_json(u), X.unit_string(u, rng.choice(["*", X.DOT]))] + x[3:]
            if x[0] == "powc":
                return ["powc", rew(x[1])] + x[2:]
            if x[0] == "node":
                return ["node", x[1], [rew(y) for y in x[2]]]
            if x[0] in X.WRAPPERS:
                return [x[0], rew(x[1])] + x[2:]
            return x
        r = rew(t)
        return r if r != t else None
    paths = [p for p in UF._paths(t) if UF._get(t, p)[0] == "node" and len(UF._get(t, p)[2]) == 2]
    if not paths:
        return None
    p = min(paths, key=len) if rng.random() < 0.6 else rng.choice(paths)
    nd = UF._get(t, p)
    return UF._set(t, p, ["node", nd[1], [nd[2][1], nd[2][0]]])


PAST_KINDS = ["result-named", "operand-named", "power-named", "plain-symbol", "evaluated-under-name",
              "redefined", "chain", "rejected-after-clear", "cleared-twice"]
PAST_NAMES = ["N", "J", "Pa", "Wb", "Oh", "Vv"]          # none is a symbol of X.SYMS
CHAIN = [("N", "kg*m/s^2", [("kg", 1), ("m", 1), ("s", -2)]), ("J", "N*m", [("N", 1), ("m", 1)]),
         ("W", "J/s", [("J", 1), ("s", -1)])]


def _define(rng, name, u):
    """a definition step for the integer map u, its expression in a random written form"""
    s = UW.write_unit(rng, u)[0]
    return ["define", name, s, UW.ordered_json(u, s)]


def past_history(rng, kind):
    """[define .., (evaluations under the names), clear, (rejected definitions), eval t]: a
    history that ENDS in C08's domain; None when the drawn formula does not fit the kind"""
    name, name2 = rng.sample(PAST_NAMES, 2)
    syms = rng.sample(X.SYMS[:8], rng.randint(2, 3))
    if kind == "plain-symbol":
        syms = syms[:2] + [name]          # the formula uses the former name as a plain symbol
    t = X.gen_tree(rng, rng.choice([1, 2, 2, 3]), syms, constdiv=True)
    if t[0] == "leaf" or X.tree_size(t) > 30:
        return None
    d = X.dim_tree(t, {})
    if d[0] != "ok" or not X.ok_exps(d[1]) or not X.float_ok(t, {}):
        return None
    if any(X.dim_tree(x, {})[0] == "ok" and not X.ok_exps(X.dim_tree(x, {})[1])
           for x in X.subtrees(t) if x[0] != "const"):
        return None
    if kind == "plain-symbol" and name not in X.tree_syms(t):
        return None
    if rng.random() < 0.4:
        t = UW.rewrite_leaves(rng, t, 0.6)

    def ints(dd, c=F(1)):
        v = [(k, e * c) for k, e in sorted(dd.items())]
        rng.shuffle(v)
        return v if v and all(e.denominator == 1 and 0 < abs(e) <= 9 for _, e in v) else None
    sub = [X.dim_tree(x, {}) for x in X.subtrees(t)[1:] if X.unwrap(x)[0] != "const"]
    sub = [x[1] for x in sub if x[0] == "ok"]
    end = [["clear"]]
    if kind == "result-named":
        u = ints(d[1])
        pre = u and [_define(rng, name, u)]
    elif kind == "operand-named":
        u = sub and ints(rng.choice(sub))
        pre = u and [_define(rng, name, u)]
    elif kind == "power-named":
        c = rng.choice([F(1, 2), F(2), F(-1), F(1, 3), F(-2), F(3)])
        u = ints(d[1], c)
        pre = u and [_define(rng, name, u)]
    elif kind == "plain-symbol":
        u = X.rand_units(rng, [s_ for s_ in X.SYMS[:8] if s_ != name], 1, 3, emax=2)
        pre = [_define(rng, name, u)]
    elif kind == "evaluated-under-name":
        u = ints(d[1])
        pre = u and [_define(rng, name, u), ["eval", t, {"nojudge": True, "keep": True}]]
    elif kind == "redefined":
        u = ints(d[1])
        pre = u and [_define(rng, name, X.rand_units(rng, X.SYMS[:8], 1, 3, emax=2)),
                     _define(rng, name, u), _define(rng, name2, u)]
    elif kind == "chain":
        pre = [["define", a, b, X.units_json([(k, F(e)) for k, e in c])]
               for a, b, c in CHAIN[:rng.randint(1, 3)]]
        if rng.random() < 0.5:
            pre.append(["eval", t, {"nojudge": True, "keep": True}])
    elif kind == "rejected-after-clear":
        u = ints(d[1])
        bad = UF.bad_define(rng, (), syms)
        pre = u and [_define(rng, name, u)]
        end = [["clear"], ["define-bad"] + bad, ["define-bad", name, X.unit_string(u or [("m", F(1))]) + ")",
                                                "redefinition-bad-expression"]]
    elif kind == "cleared-twice":
        u = ints(d[1])
        pre = u and [_define(rng, name, u), ["clear"], _define(rng, name2, u)]
        end = [["clear"], ["clear"]]
    else:
        raise ValueError(kind)
    if not pre:
        return None
    # under the definitions of the past the formula must at least be evaluable by the oracle
    return pre + end + ([["style", True]] if rng.random() < 0.15 else []) + [["eval", t]]


def gen_cases(rng, n):
    cases, skipped = [], 0
    tags = collections.Counter()
    # fixed corpus: the probe that showed the defect and its relatives
    def lf(u, sep="*"):
        return ["leaf", X.units_json(u), X.unit_string(u, sep)]
    kg, m, s = [("kg", F(1))], [("m", F(1))], [("s", F(1))]
    ab = ["node", "mul", [lf(kg), lf(m)]]
    ba = ["node", "mul", [lf(m), lf(kg)]]
    corpus = [
        ["node", "add", [ab, ba]],
        ["node", "sub", [ab, ba]],
        ["node", "add", [lf([("kg", F(1)), ("m", F(2))]), lf([("m", F(2)), ("kg", F(1))], X.DOT)]],
        ["node", "add", [["node", "div", [lf(m), lf(s)]],
                         ["node", "div", [["node", "mul", [lf(m), lf(kg)]], ["node", "mul", [lf(s), lf(kg)]]]]]],
        ["node", "sqrt", [["node", "mul", [lf(m), lf(m)]]]],
        ["powc", ["node", "div", [lf(m), lf(s)]], 1, 2],
        ["node", "add", [["leaf", [["kg", 1, 1], ["m", 0, 1]], "kg*m^0"], lf(kg)]],
        ["node", "sub", [lf(kg), ["node", "mul", [["leaf", [["kg", 1, 1], ["m", 0, 1]], "kg*m^0"], ["const"]]]]],
        ["node", "add", [lf(m), lf(s)]],                       # genuine mismatch
        ["node", "sub", [["node", "mul", [lf(m), lf(s)]], lf(m)]],  # genuine mismatch
    ]
    for t in corpus + UF.probes():
        cases.append([["eval", t]])
    # NEAR MISSES (deliberate, every kind several times per run): a +/- whose operands differ
    # genuinely but by little — an exponent off by 1/2, 1/3, 1/6 or 1, two exponents exchanged,
    # a sign, one more / one fewer symbol, proportional exponents, another letter case — with
    # integer and with half-integer base exponents; must warn and give no unit
    per_kind = max(3, n // 80)
    for kind in X.NEAR_KINDS:
        made = tries = 0
        while made < per_kind and tries < 40 * per_kind:
            tries += 1
            syms = rng.sample(X.SYMS, rng.randint(1, 3))
            r = X.near_mismatch_tree(rng, kind, rng.choice([0, 1, 1, 2]), syms)
            if r is None or X.dim_tree(r[0], {})[0] != "mismatch" or X.tree_size(r[0]) > 60:
                continue
            t = r[0]
            if rng.random() < 0.3:
                t = UF.vary_types(rng, t)
            if rng.random() < 0.4:
                t = UW.rewrite_leaves(rng, t, 0.7, tags=tags)
            if not X.float_ok(t, {}):
                skipped += 1
                tags["not-judged:binary64-decision:" + r[1]] += 1
                continue
            made += 1
            tags[r[1]] += 1
            cases.append([["eval", t]])
    # HISTORIES of evaluations in one session (deliberate): a formula, then a RELATED formula — the
    # same again, the operands of one node exchanged (t/d after d/t), the leaf units written in
    # another factor order, the same genuine mismatch twice (it must warn twice).  Each evaluation
    # is judged on its own formula; the earlier ones stay in the replay (they are the history)
    made = tries = 0
    while made < max(24, n // 12) and tries < 2000:
        tries += 1
        syms = rng.sample(X.SYMS, rng.randint(1, 3))
        if rng.random() < 0.3:
            r = X.near_mismatch_tree(rng, rng.choice(X.NEAR_KINDS), 1, syms)
            t1 = r[0] if r else None
        else:
            t1 = X.gen_tree(rng, rng.choice([1, 2, 2, 3]), syms, constdiv=True)
        if t1 is None or t1[0] == "leaf" or X.tree_size(t1) > 30:
            continue
        kind = rng.choice(["same", "operands-exchanged", "operands-exchanged", "leaves-rewritten",
                           "leaves-respelled"])
        t2 = related(rng, t1, kind)
        if t2 is None:
            continue
        ds = [X.dim_tree(t, {}) for t in (t1, t2)]
        if any(d[0] not in ("ok", "mismatch") or (d[0] == "ok" and not X.ok_exps(d[1]))
                             for d in ds) or not (X.float_ok(t1, {}) and X.float_ok(t2, {})):
            continue
        h = [["eval", t1, {"keep": True}], ["eval", t2, {"keep": True}]]
        if rng.random() < 0.4:
            h.append(["eval", t1])
        cases.append(h)
        tags["history:then-related-formula:" + kind + (":mismatch" if ds[0][0] == "mismatch" else "")] += 1
        made += 1
    # WRITTEN FORMS (deliberate, every form several times per run): "all unit assignments" — the
    # unit of a leaf is what the user typed: chains of / and * at one level (kg/s^2*m^2, m/s/s),
    # a symbol written more than once (m*m, kg*m^3/(s^2*m)), brackets, implicit multiplication,
    # powers under a /, the bare numerator 1/.  The meaning of every string is the map it was
    # written FOR (checked by the harness's two own readings, `_uwrite.write_unit`); each form is
    # used as an operand of +/- against another spelling (no mismatch), of * and / and under a
    # power and a root
    per_form = max(4, n // 60)
    for form in UW.FORMS:
        made = tries = 0
        while made < per_form and tries < 40 * per_form:
            tries += 1
            syms = rng.sample(X.SYMS, rng.randint(1, 4))
            u = X.rand_units(rng, syms, 1, 4, emax=4)
            sw, got = UW.write_unit(rng, u, form)
            if got != form:
                continue
            lw = ["leaf", UW.ordered_json(u, sw), sw]
            d = {k: e for k, e in u}
            c = made % 5
            if c in (0, 1):       # against another spelling / another route: not a mismatch
                other = (UW.rewrite_leaves(rng, ["leaf", X.units_json(u), X.unit_string(u)], 1.0)
                         if c == 0 else X.route(rng, d, 1))
                args = [lw, other] if rng.random() < 0.5 else [other, lw]
                t = ["node", rng.choice(["add", "sub"]), args]
            elif c == 2:
                o2 = X.gen_tree(rng, 1, syms, constdiv=True)
                t = ["node", rng.choice(["mul", "div"]), [lw, o2] if rng.random() < 0.5 else [o2, lw]]
            elif c == 3:
                k = rng.choice(X.POWERS)
                t = ["powc", lw, k.numerator, k.denominator]
            else:                 # a near miss of the written unit must still be a mismatch
                d2 = X.near_miss(rng, d, rng.choice(X.NEAR_KINDS))
                if d2 is None:
                    continue
                t = ["node", rng.choice(["add", "sub"]), [lw, X.route(rng, d2, 1)]]
            dd = X.dim_tree(t, {})
            if dd[0] not in ("ok", "mismatch") or (dd[0] == "ok" and not X.ok_exps(dd[1])) \
                    or not X.float_ok(t, {}) or X.tree_size(t) > 40:
                continue
            if rng.random() < 0.25:
                t = UF.vary_types(rng, t)
                if not X.float_ok(t, {}):
                    continue
            cases.append([["eval", t]])
            tags["written-form:" + form + (":mismatch" if dd[0] == "mismatch" else "")] += 1
            made += 1
    # A PAST THAT HAS ENDED (deliberate): C08's domain is "no compound-unit definitions active" at
    # the time of the evaluation.  Names were defined earlier in the session — for exactly the
    # dimension of the judged result or of one of its operands, for a power of it, for a symbol
    # the formula uses as a plain symbol; formulas were evaluated under them — and then
    # clear_unit_definitions() was called (possibly followed by rejected definitions).  The
    # history is part of the input
    for kind in PAST_KINDS:
        made = tries = 0
        while made < max(4, n // 80) and tries < 400:
            tries += 1
            h = past_history(rng, kind)
            if h is None:
                continue
            cases.append(h)
            tags["history:defined-then-cleared:" + kind] += 1
            made += 1
    n += len(cases)
    while len(cases) < n:
        depth = rng.choice([2, 3, 3, 4, 4, 5])
        syms = rng.sample(X.SYMS, rng.randint(1, 4))
        r = rng.random()
        if r < 0.12:
            # genuine mismatch at the root
            a = X.gen_tree(rng, depth - 1, syms, constdiv=True)
            b = X.gen_tree(rng, depth - 1, syms, constdiv=True)
            da, db = X.dim_tree(a, {}), X.dim_tree(b, {})
            if da[0] != "ok" or db[0] != "ok" or da[1] == db[1]:
                continue
            t = ["node", rng.choice(["add", "sub"]), [a, b]]
        else:
            t = X.gen_tree(rng, depth, syms, constdiv=True)
            if r < 0.5 and t[0] != "leaf":
                # force a sum at the root so that routes are exercised often
                d = X.dim_tree(t, {})
                if d[0] == "ok" and X.ok_exps(d[1]):
                    t = ["node", rng.choice(["add", "sub"]), [t, X.route(rng, d[1], depth - 1)]]
        d = X.dim_tree(t, {})
        if d[0] not in ("ok", "mismatch") or (d[0] == "ok" and not X.ok_exps(d[1])):
            continue
        if any(X.dim_tree(x, {})[0] == "ok" and not X.ok_exps(X.dim_tree(x, {})[1])
               for x in X.subtrees(t) if x[0] != "const") or X.tree_size(t) > 60:
            continue
        # the same formula with other argument types, after requests that are rejected, or
        # recalculated after such requests (deliberate: about two thirds of the trees)
        t, _ = UF.decorate(rng, t)
        if rng.random() < 0.5 and X.unwrap(t)[0] != "leaf":    # (C08 judges calculated quantities)
            t = UW.rewrite_leaves(rng, t, 0.6, tags=tags)     # leaf units in other written forms
        if not X.float_ok(t, {}):
            skipped += 1
            tags["not-judged:" + ("Fraction-with-longdouble-exponents (Python refuses the product)"
                                  if X.refused_by_python(t, {}) else "binary64-decision")] += 1
            continue
        if rng.random() < 0.15:
            # the same under the other display style (the unit is read back through the parser)
            cases.append([["style", True], ["eval", t]])
            tags["history:fraction-style"] += 1
        else:
            cases.append([["eval", t]])
    return cases, skipped, tags


def correspond(ctx):
    cases, skipped, tags = gen_cases(ctx.rng, ctx.n(400, 20000))
    r = X.run_cases(ctx, ID, cases)
    r["distribution"].update(tags)
    nontrivial = set()
    for (ci, t, dh, dm, o, si) in r.pop("evals"):
        if X.differently_ordered_sum(t):
            nontrivial.add(X.case_hash(t))
    r["nontrivial"] = nontrivial
    r["skipped"] = skipped
    return r


def search(ctx, broken):
    out = {"failures": [], "strategy": []}
    cases, _, _ = gen_cases(ctx.rng, ctx.n(1500, 20000))
    r = X.run_cases(ctx, ID, cases, use_model=False)
    out["failures"] += [f for f in r["failures"] if f.get("oracle") == "independent"]
    out["strategy"].append("exact dimensional analysis on Fractions as oracle: {} trees".format(
        r["evaluations"]))
    try:
        cases, _, _ = gen_cases(ctx.rng, ctx.n(600, 5000))
        r = X.run_cases(ctx, ID, cases, ref=True)
        for f in r["failures"]:
            if f["signature"].startswith("c08:model-differs"):
                f["oracle"], f["kind"] = "independent", "violation"
                out["failures"].append(f)
        out["strategy"].append("reference-model run: {} trees".format(r["evaluations"]))
    except Exception as e:  # noqa: BLE001
        out["strategy"].append("reference driver unavailable: {}".format(str(e)[:200]))
    return out


def replay(ctx, rp):
    import qexpy as q
    f = rp.get("failure", {})
    t = (f.get("shrunk") or {}).get("tree") or f.get("tree")
    if not t:
        return {"fails": False, "note": "replay file carries no concrete input", "payload": rp}
    # the history the failing evaluation was found after (earlier evaluations in the same
    # session) is part of the input when the record carries one
    hist = f.get("history") or []
    if not (f.get("carries_history") and hist and hist[-1][0] == "eval" and hist[-1][1] == t):
        hist = [["eval", t]]
    (_, dh, dm, o, _) = X.run_history(q, hist)[-1]
    fs = X.judge_eval(ID, t, dh, o)
    return {"fails": bool(fs), "input": X.pretty_tree(t) + (
        "  with " + X.describe_prefix(hist[:-1]) if len(hist) > 1 else ""), "impl": o, "failures": fs}

"""C07 — a fit result is self-consistent: function, residuals, chi-squared, correlations."""
import fitgen as G
from props import _fitcheck as X

ID = "C07"
SECTIONS = ["ops", "fitters"]
LEAN_MODULES = ["QExPy.Props.C07"]
THEOREMS = ["QExPy.C07_poly_model", "QExPy.C07_lin", "QExPy.C07_quad", "QExPy.C07_expo",
            "QExPy.C07_gauss", "QExPy.C07_gauss_even", "QExPy.C07_fit_value", "QExPy.C07_fit_value_poly", "QExPy.C07_poly_design", "QExPy.C07_objective_poly",
            "QExPy.C07_residual_def", "QExPy.C07_chi2_def", "QExPy.C07_chi2_points",
            "QExPy.C07_chi2_nonneg", "QExPy.C07_perr_sq", "QExPy.C07_corr_registered",
            "QExPy.C07_corr_diag", "QExPy.C07_corr_symm", "QExPy.C07_corr_bounded", "QExPy.C07_cov_roundtrip",
            "QExPy.C07_band", "QExPy.C07_band_all", "QExPy.C07_band_poly", "QExPy.C07_band_preset", "QExPy.C07_reversed_fold_witness", "QExPy.C07_grad_exact",
            "QExPy.C07_session_step_invisible", "QExPy.C07_session_invisible",
            "QExPy.C07_session_reset_correlations_forgets",
            "QExPy.C01_quadratic_form", "QExPy.C03_diff_correct"]
RULE = ("the C06 fits on the whole data set (every pre-set model, polynomial degrees 1-5, three user "
        "models, every sigma pattern incl. sigma_y with exact zeros, every data-passing form, 60 % "
        "rescaled to other units by 1e-12..1e12, nearly uncorrelated parameters, offset abscissae, "
        "closed-form fits with parguess, fits made through Plot.fit; every number of the request in "
        "every numeric type that represents it exactly and the uncertainties through every route "
        "that writes them; y (and x) points recorded as repeated measurements, whose uncertainty is "
        "the error on the mean / the standard deviation / the propagated error as chosen on the "
        "point; generating parameters and guess on a mirrored or negative branch; FITTED PARAMETERS "
        "THAT ARE EXACTLY EQUAL AS FLOATS (all, two of three, equal up to the sign: polynomial user "
        "models, noise-free data on an exact grid, the exact guess); rejected requests sent with the "
        "caller's data objects before the fit), 4 evaluation points each plus "
        "the smallest and largest abscissa of the data, evaluated as scalars (float, numpy float, "
        "int, Fraction, numpy integers / float32 where exact), as a list (of floats, of typed "
        "numbers) and as an array, BEFORE AND AFTER a history (a returned value switched to "
        "Monte Carlo and read, the result drawn on a plot and saved, the global method switched, "
        "re-reads; SESSION-LEVEL REQUESTS that do not name the result: print / unit / "
        "significant-figure / plot / sample-size settings changed by function or attribute, the "
        "result read or not, and the defaults restored by the setters, get_settings().reset() or "
        "reset_default_configuration(); either reset on its own; clear_unit_definitions / "
        "define_unit; another fit, the same fit again, other measurements with a covariance of "
        "their own; rejected requests) after which chi-squared, residuals, parameters, correlations and the printed "
        "result must also read as before; fit_function value/uncertainty, residuals (value "
        "and uncertainty), chi-squared, registered correlations and the matrix parsed from "
        "str(result) (3 decimals and 17 digits) vs the Lean FitResult model run on the implementation's own parameters and "
        "covariance (tolerance: FB running error bound); non-trivial = >= 2 parameters and a "
        "non-zero off-diagonal covariance; distinct by hash of the data set")
ASSUMPTIONS = ["theorems are over the reals; binary64 rounding compared under the FB running error "
               "bound; comparisons the model itself marks ill-conditioned are counted as skipped",
               "the covariance matrix is read back from the parameter objects (error^2 on the "
               "diagonal, registered covariances off it); that it is the optimiser's covariance is "
               "C06's certificate",
               "ndof is not part of the property"]
TRUSTED = ["modelled not verified: numpy element-wise functions, numpy.array_str (3 decimals), CPython "
           "float arithmetic, numpy.vectorize"]
LEVEL_TEXT = ("Lean 4 theorems over the fit functions regenerated from the Python AST of FITTERS: "
              "the polynomial model is Horner's rule in the order polyfit returns the coefficients "
              "(every degree), linear/quadratic/exponential/Gaussian equal their closed forms, "
              "uncertainty^2 of fit_function = g^T Cov g, chi-squared/residual definitions, "
              "correlation matrix has unit diagonal, is symmetric and equals the registered "
              "correlations")
LEVEL_NOTE = "rounding is validated, not proved"
TECHNIQUE = ("Lean 4 machine-checked proof over generated fit functions + differential run of the "
             "compiled Lean model against the real library")


SESSION_TURN = tuple("config:" + b for b in ("reset_default_configuration", "settings.reset", "setters")) \
    + tuple(dict.fromkeys(G.SESSION_STEPS))


def gen_cases(ctx, n):
    cases = G.corpus(ID)
    for d in range(1, 6):
        cases.append(G.gen_case(ctx.rng, family="polynomial", degree=d, want_range=False))
    for fam in ("linear", "quadratic", "exponential", "gaussian", "custom:sine", "custom:growth",
                "custom:lorentz"):
        cases.append(G.gen_case(ctx.rng, family=fam, want_range=False, noise_free=False))
    for form in G.FORMS:
        cases.append(G.gen_case(ctx.rng, form=form, want_range=False, noise_free=False, sy="none"))
    # the same problems in other units: x and y scaled independently by 1e-12 ... 1e12 (small-unit
    # data have covariances of 1e-13 and less; every comparison below is relative)
    ext = [(1e-6, 1e-6), (1e-12, 1e12), (1e6, 1e-6), (1e12, 1e12), (1.0, 1e-6), (1e-3, 1e-12),
           (1.0, 1e6)]
    fams = ("linear", "quadratic", "polynomial", "exponential", "gaussian", "custom:sine",
            "custom:lorentz")
    for k, u in enumerate(ext):
        cases.append(G.gen_case(ctx.rng, family="linear", want_range=False, units=u))
        cases.append(G.gen_case(ctx.rng, family=fams[k % len(fams)], want_range=False,
                                noise_free=False, units=u))
    # some ordinates exactly known (sigma_y = 0 there, sigma_x > 0 everywhere): chi-squared is over
    # the points with sigma_y > 0 only
    for k, fam in enumerate(("exponential", "gaussian", "custom:sine", "custom:growth")):
        cases.append(G.gen_case(ctx.rng, family=fam, want_range=False, noise_free=False, sy="yzeros",
                                units=None if k % 2 else (ext[k][0], ext[k + 1][1])))
    # (almost) uncorrelated parameters: small correlations are registered like any other
    for k in range(4):
        cases.append(G.gen_centred(ctx.rng, units=None if k < 2 else ext[k]))
    # fits as in C06's newer classes: offset abscissae, closed-form fits called with parguess
    from props import c06 as C6
    for k, fam in enumerate(G.OFFSET_FAMILIES):
        cases.append(C6.offset_case(ctx.rng, family=fam, want_range=False))
    for k, (fam, d) in enumerate((("linear", None), ("quadratic", None), ("polynomial", 3),
                                  ("polynomial", 5))):
        cases.append(G.gen_case(ctx.rng, family=fam, degree=d, guess=True, want_range=False,
                                sx=("none", "common")[k % 2]))
    # argument types, repeated measurements as points, mirrored / negative parameter branches
    # (C06's classes (3)-(5); here: chi-squared divides by the uncertainty each point REPORTS,
    # fit_function is the model at the returned parameters on whichever branch they lie)
    cases += C6.typed_cases(ctx.rng, want_range=False)[::2]
    cases += C6.repeated_cases(ctx.rng)
    cases += C6.signed_cases(ctx.rng, want_range=False)
    # user models as every kind of callable under every kind of name (C06's class (6), a third)
    cases += C6.callable_cases(ctx.rng, want_range=False, every=3)
    # fitted parameters that are EXACTLY equal as floats (fitgen EQUAL NOTES): all of them, two of
    # three, equal up to the sign; they are different quantities with the fit's covariance
    k = 0
    for fam in G.POLY_LIKE:
        for variant in ("all", "pair", "negated", "all"):
            cases.append(G.gen_equal_params(ctx.rng, family=fam, variant=variant,
                                            form=G.FORMS[k % len(G.FORMS)],
                                            sy=("common", "point")[k % 2]))
            k += 1
    # rejected requests sent with the caller's data objects before the fit (C06's class (7), a part)
    cases += C6.fault_cases(ctx.rng, want_range=False, every=5)
    n0 = len(G.corpus(ID))
    # HISTORIES between two rounds of evaluating fit_function (every model family and every form
    # gets one with the result drawn on a plot; the others get one without a plot half of the time)
    k = 0
    for c in cases[n0:]:
        if c.get("scale") and max(c["scale"]) / min(c["scale"]) > 1e12:
            continue
        # ... and every case gets, in turn, one of the session-level requests that do not name the
        # result (fitgen SESSION NOTES): settings changed and put back by each route, configuration
        # resets, unit definitions, other fits and measurements, rejected requests
        c["hist"] = G.gen_hist(ctx.rng, plot=(k % 2 == 0), session=SESSION_TURN[k % len(SESSION_TURN)])
        c["hist_first"] = k % 3 == 0
        k += 1
    for form in ("plot.fit", "plot.fit", "plot.fit", "xyds", "lists", "marrays"):
        for fam in ("linear", "gaussian", "custom:sine"):
            c = G.gen_case(ctx.rng, family=fam, form=form, want_range=False, noise_free=False)
            c["hist"] = G.gen_hist(ctx.rng, plot=True)
            c["hist_first"] = ctx.rng.random() < 0.4
            cases.append(c)
    nforced = len(cases)
    while len(cases) < n:
        if ctx.rng.random() < 0.03:
            cases.append(G.gen_centred(ctx.rng))
            continue
        if ctx.rng.random() < 0.05:
            cases.append(C6.offset_case(ctx.rng, want_range=False))
            continue
        if ctx.rng.random() < 0.06:
            cases.append(G.gen_case(ctx.rng, family=ctx.rng.choice(fams[3:] + ("custom:growth",)),
                                    want_range=False, noise_free=False, sy="yzeros"))
            continue
        t = ctx.rng.random()
        if t < 0.04:
            cases.append(G.gen_equal_params(ctx.rng))
            continue
        if t < 0.10:
            cases.append(G.gen_typed(ctx.rng, want_range=False))
            continue
        if t < 0.16:
            cases.append(G.gen_repeated(ctx.rng))
            continue
        if t < 0.22:
            cases.append(G.gen_signed(ctx.rng, want_range=False, noise_free=False))
            continue
        u = None
        if ctx.rng.random() < 0.6:
            u = (ctx.rng.choice(G.SCALES), ctx.rng.choice(G.SCALES))
        cases.append(G.gen_case(ctx.rng, want_range=(ctx.rng.random() < 0.1), noise_free=False,
                                units=u))
    for c in cases[nforced:]:
        if ctx.rng.random() < 0.5:
            c["hist"] = G.gen_hist(ctx.rng, plot=(ctx.rng.random() < 0.15))
            c["hist_first"] = ctx.rng.random() < 0.3
    return cases


def correspond(ctx):
    return X.run_c07(ctx, gen_cases(ctx, ctx.n(170, 20000)))


def search(ctx, broken):
    out = {"failures": [], "strategy": []}
    try:
        r = X.run_c07(ctx, gen_cases(ctx, ctx.n(60, 1000)), ref=True)
        for f in r["failures"]:
            f["oracle"] = "independent"
            f["kind"] = "violation"
        out["failures"] += r["failures"]
        out["strategy"].append("reference-model run: {} cases".format(r["evaluations"]))
    except Exception as e:  # noqa: BLE001
        out["strategy"].append("reference driver unavailable: {}".format(e))
    fs, tried = X.closed_form_search(ctx, gen_cases(ctx, ctx.n(60, 1000)))
    out["failures"] += fs
    out["strategy"].append("closed-form oracle (Python math, documented model formulas): {} "
                           "cases".format(tried))
    return out


def replay(ctx, rp):
    c = rp.get("failure", {}).get("case")
    if not c:
        return {"fails": False, "note": "replay file carries no concrete input", "payload": rp}
    r = X.run_c07(ctx, [c])
    # a change to a regenerated table moves the model along with the library: the replay is judged
    # by the reference driver (tables the theorems were last proved for) as well, as search() does
    try:
        r["failures"] += X.run_c07(ctx, [c], ref=True)["failures"]
    except Exception:  # noqa: BLE001  (reference driver unavailable)
        pass
    fs, _ = X.closed_form_search(ctx, [c])
    return {"fails": bool(r["failures"] or fs), "failures": r["failures"] + fs}

"""C15 — error-method selection is respected and derivative results are deterministic."""
from props import _worldcheck as W

ID = "C15"
SECTIONS = ["ops", "session"]
LEAN_MODULES = ["QExPy.Props.C15"]
THEOREMS = ["QExPy.World.C15_effMethod_tie", "QExPy.World.C15_set_method", "QExPy.World.C15_reset_method",
            "QExPy.World.C15_set_global", "QExPy.World.C15_set_method_other",
            "QExPy.World.C15_dispatch", "QExPy.World.C15_core_unchanged",
            "QExPy.World.C15_noninterference", "QExPy.World.C15_history_independent"]
RULE = ("seeded toggle-heavy histories (10-60 ops, no source changes): q.set_error_method and "
        "per-quantity error_method in enum and string form, reset_error_method, reads, "
        "derivative(), recalculate, sample-size changes, on formulas incl. nested intermediates; "
        "each history executed twice with different numpy seeds and global sample sizes; "
        "derivative reads vs the model (FB bound) and across the two executions; error_method "
        "reads exactly. Non-trivial = a derivative read on a formula with an intermediate node; "
        "distinct by hash")
ASSUMPTIONS = ["Monte Carlo reads are compared by identity pattern and with mean/std of the kept simulation (mc.samples()), not with population moments (that is C02)"]
TRUSTED = ["translator check of operand-value semantics (operations.py _CentralValue); numpy RNG"]
LEVEL_TEXT = ("Theorems for ALL histories of method switches / reads / Monte Carlo settings: the "
              "effective method is own selection else global; every derivative answer is a "
              "function of formulas, values, uncertainties and correlations only "
              "(C15_noninterference). Tied to the code by translator + differential histories "
              "run under two random seeds.")


def correspond(ctx):
    return W.run(ctx, "c15", ctx.n(100, 4000), ctx.n(40, 60))


def search(ctx, broken):
    r = W.run(ctx, "c15", ctx.n(300, 4000), 60)
    fs = [f for f in r["failures"] if f.get("oracle") == "independent"]
    # with the reference tables: model answers are then proved-correct derivative results
    try:
        r2 = W.run(ctx, "c15", ctx.n(300, 3000), 40, ref=True)
        for f in r2["failures"]:
            f["oracle"], f["kind"] = "independent", "violation"
        fs += r2["failures"]
    except Exception as e:  # noqa: BLE001
        pass
    return {"failures": fs, "strategy": ["two-seed execution oracle + reference-model run"]}


def replay(ctx, rp):
    c = rp.get("failure", {}).get("case")
    if not c:
        return {"fails": False, "note": "replay file carries no concrete input", "payload": rp}
    r = W.run(ctx, "c15", 1, 1, cases=[c])
    return {"fails": bool(r["failures"]), "failures": r["failures"]}

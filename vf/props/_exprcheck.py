"""Correspondence run shared by C01 (value, uncertainty) and C03 (derivatives):
formula DAGs built with the real library vs the Lean model `Expr.propagate` / `Expr.diff`."""
import collections
import math
import warnings

import exprgen
from common import bits, unbits, fb, close, canon_hash


def reset(q):
    q.reset_default_configuration()
    q.reset_correlations()
    q.clear_unit_definitions()


def observe(q, case):
    """run the real library on one case"""
    reset(q)
    out = {}
    with warnings.catch_warnings():
        warnings.simplefilter("ignore")
        try:
            casts = []
            objs, meas = exprgen.build_impl(q, case, casts)
            r = objs[case["root"]]
            # a result overridden by hand is a measurement with the numbers the library now holds
            out["casts"] = [[i, bits(float(o_.value)), bits(float(o_.error))] for i, o_ in casts]
            if case.get("fault"):
                # a failing computation earlier in the session (division by a quantity whose central
                # value is exactly 0) must not influence later answers
                try:
                    z = q.Measurement(0.0, 0.1)
                    ((meas[0] + 1) / z).derivative(meas[0])
                except Exception:  # noqa: BLE001
                    pass
            # what the library holds for each measurement (repeated measurements: mean and the
            # selected statistic) is what the formula law is about
            out["vals"] = [bits(float(m.value)) for m in meas]
            out["errs"] = [bits(float(m.error)) for m in meas]
            out["value"] = float(r.value)
            out["error"] = float(r.error)
            # an unrelated measurement that happens to have the same reading as a source
            other = q.Measurement(float(meas[0].value), 0.1)
            out["derivs"] = [float(r.derivative(m)) for m in meas] + [float(r.derivative(other))]
            out["self"] = float(r.derivative(r))
            if case.get("revalue"):
                k, nb = case["revalue"]
                meas[k].value = unbits(nb)
                out["derivs2"] = [float(r.derivative(m)) for m in meas]
        except Exception as e:  # noqa: BLE001
            out["exception"] = "{}: {}".format(type(e).__name__, e)
    return out


def model_line(case, obs=None, revalued=False):
    n = case["n_meas"]
    vals, errs = list(case["vals"]), list(case["errs"])
    if obs and "vals" in obs:
        vals[:n], errs[:n] = obs["vals"], obs["errs"]
        for i, vb, eb in obs.get("casts", []):
            vals[i], errs[i] = vb, eb
    if revalued:
        vals[case["revalue"][0]] = case["revalue"][1]
    return {"cmd": "expr", "nodes": exprgen.model_nodes(case["nodes"]), "root": case["root"],
            "vals": vals, "errs": errs, "rho": case["rho"],
            "wrt": list(range(n)) + [len(case["vals"]) + 7]}


def pretty(case):
    """human-readable formula for evidence / replay files"""
    nodes = case["nodes"]

    def s(i):
        n = nodes[i]
        if n[0] == "var":
            return "m{}".format(n[1])
        if n[0] == "pair":
            return "({!r}, {!r})".format(unbits(case["vals"][n[1]]), unbits(case["errs"][n[1]]))
        if n[0] == "const":
            return repr(unbits(n[1]))
        if n[0] == "cast":
            return "[{} overridden: {} = {!r}]".format(s(n[1]), n[2], unbits(n[3]))
        if n[0] in ("un", "deg"):
            return "{}({})".format(n[1], s(n[2]))
        sym = {"add": "+", "sub": "-", "mul": "*", "div": "/", "pow": "**"}.get(n[1])
        if sym:
            return "({} {} {})".format(s(n[2]), sym, s(n[3]))
        return "log({}, {})".format(s(n[2]), s(n[3]))
    meas = ["m{}={!r}+/-{!r}".format(i, unbits(case["vals"][i]), unbits(case["errs"][i]))
            for i in range(case["n_meas"])]
    rho = ["rho(m{},m{})={!r}".format(i, j, unbits(r)) for i, j, r in case["rho"]]
    forms = ["node {} ({}) applied as {} [element {} of {}]".format(
        ni, nodes[int(ni)][1], " , ".join(rt["forms"]), rt["k"], rt["L"])
        for ni, rt in sorted((case.get("routes") or {}).items(), key=lambda kv: int(kv[0]))]
    return "{}  with {} {}{}".format(s(case["root"]), ", ".join(meas), ", ".join(rho),
                                     ("  call forms: " + "; ".join(forms)) if forms else "")


def failures_for(failures, c):
    return any(f.get("case") is c for f in failures)


def run(ctx, what, n_cases, ref=False, gen_kwargs=None, cases=None):
    """what: 'c01' | 'c03'.  Returns the result dict check.py expects."""
    import qexpy as q
    gen_kwargs = gen_kwargs or {}
    if cases is None:
        cases = []
        if not ctx.quick and not ref:
            cases = exprgen.enum_cases(ctx.rng)   # operator x operand-form table, complete
            n_cases += len(cases)
        while len(cases) < n_cases:
            c = exprgen.gen_case(ctx.rng, **gen_kwargs)
            if c is not None:
                cases.append(c)
    obs = [observe(q, c) for c in cases]
    reset(q)
    mod = ctx.model([model_line(c, o) for c, o in zip(cases, obs)], ref=ref)
    rv = [i for i, (c, o) in enumerate(zip(cases, obs)) if c.get("revalue") and "derivs2" in o]
    mod2 = dict(zip(rv, ctx.model([model_line(cases[i], obs[i], True) for i in rv], ref=ref))) \
        if rv else {}
    failures, nontrivial, skipped = [], set(), 0
    dist = collections.Counter()
    samples = []
    for ci, (c, o, m) in enumerate(zip(cases, obs, mod)):
        for op in set(c["ops"]):
            dist["op:" + op] += 1
        dist["meas:{}".format(c["n_meas"])] += 1
        dist["corr" if c["rho"] else "nocorr"] += 1
        dist["pairs" if any(n[0] == "pair" for n in c["nodes"]) else "nopairs"] += 1
        dist["repeated" if c.get("raw") else "single-only"] += 1
        for how in c.get("casts") or []:
            dist["overridden-result:" + how] += 1
        if c.get("template"):
            dist["template:" + c["template"]] += 1
        for ni, rt in (c.get("routes") or {}).items():
            n_ = c["nodes"][int(ni)]
            kind_ = "operator" if n_[0] == "bin" and n_[1] != "log" else "function"
            dist["call-form:{}:{}".format(kind_, "|".join(rt["forms"]))] += 1
            if n_[0] == "bin" and rt["forms"][0] in ("list", "ndarray", "objlist"):
                dist["call-form:reflected-array-array:" + n_[1]] += 1
        dist["call-forms-through-arrays" if c.get("routes") else "call-forms-scalar-only"] += 1
        if c.get("equal_pairs"):
            dist["equal-pairs"] += 1
        if any(unbits(b) in exprgen.SPECIAL_VALUES for b in c["vals"][:c["n_meas"]]):
            dist["special-central-value"] += 1
        if "fail" in m:
            failures.append({"signature": "model-error", "kind": "disagreement",
                             "what": "model driver: " + m["fail"], "input": pretty(c)})
            continue
        mv, mvb = fb(m["value"])
        me, meb = fb(m["error"])
        if not all(math.isfinite(x) for x in (mv, me, mvb, meb)) or mvb > 1e-6 * (abs(mv) + 1e-30) + 1e-9:
            skipped += 1   # ill-conditioned by the model's own error bound: not judged
            continue
        if "exception" in o:
            failures.append({"signature": "{}:exception:{}".format(what, o["exception"].split(":")[0]),
                             "what": "building/reading the formula raised " + o["exception"],
                             "input": pretty(c), "case": c, "clause": "in-domain formula must evaluate"})
            continue
        h = canon_hash([c["nodes"], c["vals"], c["errs"], c["rho"]])
        if what == "c01":
            if len(c["ops"]) >= 2 and any(unbits(e) > 0 for e in c["errs"]):
                nontrivial.add(h)
            if not close(o["value"], mv, mvb):
                failures.append({"signature": "c01:value", "what": "central value differs from the "
                                 "formula evaluated at the central values",
                                 "input": pretty(c), "case": c, "impl": o["value"], "expected": mv,
                                 "bound": mvb, "clause": "value"})
            elif not close(o["error"], me, meb, slack=256.0):
                failures.append({"signature": "c01:error", "what": "uncertainty differs from the "
                                 "first-order propagation law",
                                 "input": pretty(c), "case": c, "impl": o["error"], "expected": me,
                                 "bound": meb, "clause": "error"})
        else:
            nl = [k for k in range(c["n_meas"]) if exprgen.depends_nonlinear(c, k)]
            if nl:
                nontrivial.add(h)
            dvs = [fb(x) for x in m["derivs"]]
            for k, ((dv, db), di) in enumerate(zip(dvs, o["derivs"])):
                if not math.isfinite(dv) or not math.isfinite(db):
                    continue
                if not close(di, dv, db, slack=256.0):
                    tgt = "m{}".format(k) if k < c["n_meas"] else "an unrelated measurement"
                    failures.append({"signature": "c03:derivative", "what": "derivative w.r.t. {} "
                                     "differs from the partial derivative".format(tgt),
                                     "input": pretty(c), "case": c, "wrt": k, "impl": di,
                                     "expected": dv, "bound": db, "clause": "derivative"})
                    break
            if ci in mod2 and "derivs" in mod2[ci] and not failures_for(failures, c):
                dist["revalued"] += 1
                for k, (x, di) in enumerate(zip(mod2[ci]["derivs"], o["derivs2"])):
                    dv, db = fb(x)
                    if math.isfinite(dv) and math.isfinite(db) and not close(di, dv, db, slack=256.0):
                        failures.append({"signature": "c03:derivative-after-change",
                                         "what": "after m{} was set to {!r}, derivative w.r.t. m{} is "
                                                 "not the partial derivative at the current central "
                                                 "values".format(c["revalue"][0], unbits(c["revalue"][1]), k),
                                         "input": pretty(c), "case": c, "wrt": k, "impl": di,
                                         "expected": dv, "bound": db, "clause": "current central values"})
                        break
            if o["self"] != 1.0:
                failures.append({"signature": "c03:self", "what": "r.derivative(r) is not 1",
                                 "input": pretty(c), "case": c, "impl": o["self"], "expected": 1.0})
        if len(samples) < 5:
            samples.append({"formula": pretty(c), "impl": {k: o[k] for k in ("value", "error")},
                            "model": {"value": mv, "error": me}})
    # a failing side computation earlier in the same session may be what a later case needs in
    # order to fail: make every replayable case self-contained
    first_fault = next((i for i, c in enumerate(cases) if c.get("fault")), None)
    if first_fault is not None:
        idx = {id(c): i for i, c in enumerate(cases)}
        for f in failures:
            c = f.get("case")
            if c is not None and not c.get("fault") and idx.get(id(c), -1) > first_fault:
                f["case"] = dict(c, fault=True)
    return {"evaluations": len(cases), "nontrivial": nontrivial, "failures": failures,
            "samples": samples, "distribution": dict(dist), "skipped": skipped}


def finite_difference_search(ctx, n_cases, gen_kwargs=None):
    """independent oracle for the failing-input search: central finite differences of the
    implementation's own central value, and Python's math module for the value itself"""
    import qexpy as q
    failures = []
    tried = 0
    for _ in range(n_cases):
        kw = dict(gen_kwargs or {}, allow_cast=False, allow_special=False)
        c = exprgen.gen_case(ctx.rng, allow_pairs=False, **kw)
        if c is None:
            continue
        o = observe(q, c)
        if "exception" in o:
            continue
        tried += 1
        rv = unbits(c["ref_value"])
        if math.isfinite(rv) and abs(o["value"] - rv) > 1e-7 * (abs(rv) + 1e-6):
            failures.append({"signature": "c01:value", "oracle": "independent",
                             "what": "central value differs from the formula evaluated with "
                                     "Python's math module", "input": pretty(c), "case": c,
                             "impl": o["value"], "expected": rv})
            continue
        for k in range(c["n_meas"]):
            v = unbits(c["vals"][k])
            h = 1e-6 * max(1.0, abs(v))
            vals = []
            for sgn in (+1, -1):
                c2 = dict(c)
                c2["vals"] = list(c["vals"])
                c2["vals"][k] = bits(v + sgn * h)
                o2 = observe(q, c2)
                vals.append(o2.get("value", float("nan")))
            fd = (vals[0] - vals[1]) / (2 * h)
            d = o["derivs"][k]
            if math.isfinite(fd) and math.isfinite(d) and abs(fd - d) > 1e-4 * (abs(fd) + abs(d)) + 1e-6:
                # make sure the finite difference is itself trustworthy (second step size agrees)
                h2 = h * 10
                vals2 = []
                for sgn in (+1, -1):
                    c2 = dict(c)
                    c2["vals"] = list(c["vals"])
                    c2["vals"][k] = bits(v + sgn * h2)
                    vals2.append(observe(q, c2).get("value", float("nan")))
                fd2 = (vals2[0] - vals2[1]) / (2 * h2)
                if math.isfinite(fd2) and abs(fd2 - fd) < 1e-3 * (abs(fd) + 1e-9):
                    failures.append({"signature": "c03:derivative", "oracle": "independent",
                                     "what": "derivative w.r.t. m{} differs from the central "
                                             "finite difference of the central value".format(k),
                                     "input": pretty(c), "case": c, "wrt": k, "impl": d,
                                     "expected": fd})
                    break
    reset(q)
    return failures, tried

"""C16 — Monte Carlo strategies report functions of the one retrievable sample set."""
import collections
import math
import random
import warnings

import numpy as np

from common import bits, unbits, fb, close, canon_hash
from props import _mc as M

ID = "C16"
SECTIONS = ["mc", "mcwalk"]
LEAN_MODULES = ["QExPy.Props.C16"]
THEOREMS = ["QExPy.C16_argmax", "QExPy.C16_walk_spec", "QExPy.C16_walk_edges",
            "QExPy.C16_mode_result", "QExPy.C16_error_nonneg", "QExPy.C16_init_generated",
            "QExPy.C16_cache_coherent_step", "QExPy.C16_cache_coherent", "QExPy.C16_read_spec",
            "QExPy.C16_read_after_history",
            "QExPy.C16_sim_changes_only", "QExPy.C16_new_sim_is_new", "QExPy.C16_mean_std_range",
            "QExPy.C16_custom", "QExPy.C16_rejected_unchanged",
            "QExPy.C16_display_invisible", "QExPy.C16_read_after_display",
            "QExPy.C16_bystander_invisible"]
RULE = ("(a) unit level: find_mode_and_uncertainty on synthetic count lists (length 100 and other "
        "lengths; mass at the first/last bins, both ends, spikes, ties, zeros) x confidences "
        "{0.01,0.5,0.68,0.9,0.95,0.999,1.0} and random ones, vs the Lean walk and the decidable "
        "least-k spec evaluated on the implementation's answer; (b) histories of 3-25 mc.* "
        "operations (sample size, reset, confidence, range by quantiles of the current samples, "
        "strategy switches, custom pair, recalculate, global size, invalid arguments; LOOKING: "
        "mc.show_histogram with the default / another bin count, positionally or by keyword, with "
        "and without the display-only range= window, printing the quantity; BYSTANDERS: a figure "
        "with a fit or a function drawn, another quantity configured / simulated / displayed, a "
        "function run under a temporary sample size -- none of which may change what the quantity "
        "reports or the size of its next simulation) on real derived "
        "values of 9 shapes (symmetric, right/left skewed, mode in bin 0 / bin 99, partially "
        "undefined); after every operation mc.samples() is retrieved, numpy.histogram(samples, 100) "
        "recomputed, and the reported pair compared with the Lean settings machine's read "
        "(modeWalk / mean-std of the in-range retrieved samples / custom pair); which simulation is "
        "current is decided by counting the recorded numpy.random.normal batches; the retrieved "
        "array is overwritten and everything re-read (copy semantics); non-trivial = a walk that "
        "reaches an end of the histogram before covering (unit level) / a history with a mode read "
        "that does so, or with a cached result invalidated by a later setting change")
ASSUMPTIONS = [
    "numpy.histogram's binning of the retrieved samples is taken from numpy (trusted)",
    "numpy.random.normal is trusted as in C02; which simulation is current is decided from the "
    "recorded draw batches, never from fresh random numbers",
    "theorems about the walk are exact on natural-number counts; the threshold confidence*total is "
    "a real number in the theorems and a binary64 product in the run",
    "reset_sample_size() and a change of the GLOBAL sample size do not redraw an existing "
    "simulation, and the mode strategy ignores the configured range: the statement does not "
    "forbid either, the model follows the code",
]
TRUSTED = ["modelled not verified: numpy.histogram, numpy.mean/std on masked arrays, "
           "numpy.random.normal"]
LEVEL_TEXT = ("Lean 4 theorems: least-k specification of the mode walk for every count list and "
              "confidence, cache coherence of the settings machine over all histories; tied to the "
              "code by a generated defaults table and a differential run over histories")
LEVEL_NOTE = "partial: numpy.histogram and the RNG are outside the model"
TECHNIQUE = ("Lean 4 machine-checked proof over an executable state machine + differential "
             "correspondence on operation histories with recorded random draws")

CONFS = [0.01, 0.5, 0.68, 0.9, 0.95, 0.999, 1.0]


# ---------------------------------------------------------------------------------------------
# (a) unit level: the walk on synthetic histograms

def gen_counts(rng):
    n = 100 if rng.random() < 0.7 else rng.choice([1, 2, 3, 5, 10, 37, 101, 150])
    t = rng.random()
    if t < 0.15:      # mass at the right end
        tail = [rng.randint(1, 60) for _ in range(min(n, rng.randint(1, 6)))]
        tail.sort()
        c = [0] * (n - len(tail)) + tail
    elif t < 0.30:    # mass at the left end
        head = [rng.randint(1, 60) for _ in range(min(n, rng.randint(1, 6)))]
        head.sort(reverse=True)
        c = head + [0] * (n - len(head))
    elif t < 0.45:    # mass at both ends
        c = [0] * n
        for i in range(min(n, rng.randint(1, 5))):
            c[i] = rng.randint(1, 50)
            c[n - 1 - i] = rng.randint(1, 50)
    elif t < 0.55:    # single spike
        c = [0] * n
        c[rng.randrange(n)] = rng.randint(1, 1000)
    elif t < 0.65:    # ties for the maximum
        c = [rng.randint(0, 5) for _ in range(n)]
        m = max(c) + rng.randint(0, 3)
        for _ in range(rng.randint(2, 4)):
            c[rng.randrange(n)] = m
    elif t < 0.85:    # bell shape, centre anywhere incl. outside
        mu, sg = rng.uniform(-0.2, 1.2) * n, rng.uniform(0.02, 0.5) * n
        c = [int(rng.randint(50, 2000) * math.exp(-0.5 * ((i - mu) / sg) ** 2)) for i in range(n)]
    else:
        c = [rng.randint(0, 30) for _ in range(n)]
    if sum(c) == 0:
        c[rng.randrange(n)] = 1
    return c


def gen_walk_case(rng):
    c = gen_counts(rng)
    conf = rng.choice(CONFS) if rng.random() < 0.7 else rng.uniform(0.001, 1.0)
    lo = rng.uniform(-100, 100)
    hi = lo + 10 ** rng.uniform(-3, 3)
    return {"counts": c, "conf": bits(conf), "lo": bits(lo), "hi": bits(hi)}


def walk_impl(case):
    import qexpy.utils.utils as uu
    n = np.array(case["counts"])
    edges = np.linspace(unbits(case["lo"]), unbits(case["hi"]), len(case["counts"]) + 1)
    try:
        with warnings.catch_warnings():
            warnings.simplefilter("ignore")
            v, e = uu.find_mode_and_uncertainty(n, edges, unbits(case["conf"]))
        return {"value": float(v), "error": float(e)}, edges
    except Exception as ex:  # noqa: BLE001
        return {"exception": "{}: {}".format(type(ex).__name__, ex)}, edges


def brute_walk(counts, conf):
    """definition, independent of the Lean model: least k whose cover reaches conf*total"""
    n = len(counts)
    imax = max(range(n), key=lambda i: (counts[i], -i))
    tot = sum(counts)
    for k in range(n + 1):
        cover = sum(counts[i] for i in range(max(0, imax - k), min(n, imax + k + 1)))
        if not (cover < conf * tot):
            return imax, k
    return imax, n


def walk_describe(case):
    c = case["counts"]
    nz = [(i, x) for i, x in enumerate(c) if x]
    return "counts(len={}, non-zero={}) confidence={!r} edges=linspace({!r},{!r})".format(
        len(c), nz if len(nz) <= 12 else str(nz[:6]) + " ... " + str(nz[-6:]),
        unbits(case["conf"]), unbits(case["lo"]), unbits(case["hi"]))


def walk_class(case):
    c = case["counts"]
    imax = max(range(len(c)), key=lambda i: (c[i], -i))
    where = "first-bin" if imax == 0 else "last-bin" if imax == len(c) - 1 else \
        "near-start" if imax < 5 else "near-end" if imax >= len(c) - 5 else "interior"
    return where


def run_walks(ctx, n_cases, cases=None, independent=False):
    cases = cases or [gen_walk_case(ctx.rng) for _ in range(n_cases)]
    impl = [walk_impl(c) for c in cases]
    lines = []
    for c, (o, edges) in zip(cases, impl):
        ln = {"cmd": "modewalk", "counts": c["counts"], "edges": M.bitlist(edges), "conf": c["conf"]}
        if "error" in o:
            width = (edges[-1] - edges[0]) / len(c["counts"])
            kk = o["error"] / width if width else float("nan")
            if math.isfinite(kk) and kk > -0.5 and abs(kk - round(kk)) < 1e-6:
                ln["k_impl"] = int(round(kk))
        lines.append(ln)
    mod = ctx.model(lines)
    failures, nontrivial = [], set()
    dist = collections.Counter()
    for c, (o, edges), m, ln in zip(cases, impl, mod, lines):
        cls = walk_class(c)
        dist["walk:mode-" + cls] += 1
        base = {"input": walk_describe(c), "case": {"walk": c}}
        extra = {"oracle": "independent", "kind": "violation"} if independent else {}
        if "fail" in m:
            failures.append(dict(base, signature="model-error", kind="disagreement", what=m["fail"]))
            continue
        if m["hit_end"]:
            nontrivial.add(canon_hash(c))
            dist["walk:reaches-an-end"] += 1
        if "exception" in o:
            failures.append(dict(base, signature="c16:walk:exception:{}:mode-{}".format(
                o["exception"].split(":")[0], cls), what="find_mode_and_uncertainty raised "
                + o["exception"], expected={"imax": m["imax"], "k": m["k"]},
                clause="positions beyond the ends contribute nothing", **extra))
            continue
        bi, bk = brute_walk(c["counts"], unbits(c["conf"]))
        width = (edges[-1] - edges[0]) / len(c["counts"])
        centre = (edges[bi] + edges[bi + 1]) / 2
        tol = 1e-9 * (abs(edges[0]) + abs(edges[-1]))
        mv, mvb = fb(m["value"])
        me, meb = fb(m["error"])
        if independent:
            ok_v = abs(o["value"] - centre) <= tol
            ok_e = abs(o["error"] - bk * width) <= tol + 1e-9 * bk * abs(width)
        else:
            ok_v = close(o["value"], mv, mvb)
            ok_e = close(o["error"], me, meb) and ln.get("k_impl") is not None and m["spec_impl"]
            if (bi, bk) != (m["imax"], m["k"]) or not m["spec_model"]:
                failures.append(dict(base, signature="c16:walk:model-vs-definition", kind="disagreement",
                                     what="Lean walk and brute-force definition disagree",
                                     impl=[m["imax"], m["k"]], expected=[bi, bk]))
                continue
        if not ok_v:
            failures.append(dict(base, signature="c16:walk:value:mode-" + cls, what="reported value is "
                                 "not the centre of the fullest bin", impl=o["value"],
                                 expected=centre, clause="mode value", **extra))
        elif not ok_e:
            failures.append(dict(base, signature="c16:walk:error:mode-" + cls, what="reported "
                                 "uncertainty is not the smallest whole number k of bin widths whose "
                                 "bins within k of the fullest bin (nothing beyond the ends) hold the "
                                 "requested fraction: k should be {}".format(bk),
                                 impl=o["error"], expected=bk * width, clause="least k", **extra))
    return {"evaluations": len(cases), "nontrivial": nontrivial, "failures": failures,
            "distribution": dict(dist)}


# ---------------------------------------------------------------------------------------------
# (b) histories on real derived values

def gen_history(rng, quick=True, min_ops=3, max_ops=25):
    shape = rng.choice(M.SHAPES)
    n = rng.randint(min_ops, max_ops)
    sizes = [50, 50, 1000] if quick else [50, 1000, 1000, 5000]
    ops = []
    for _ in range(n):
        t = rng.random()
        conf = rng.choice(CONFS) if rng.random() < 0.7 else round(rng.uniform(0.001, 1.0), 4)
        # looking at the quantity / doing something to other objects (no effect in the model)
        # (matplotlib makes these the expensive steps: rarer in the long histories of the thorough tier)
        p_disp, p_by = (0.07, 0.03) if quick else (0.03, 0.01)
        if t < p_disp:
            ops.append(gen_display(rng))
            continue
        if t < p_disp + p_by:
            ops.append(["bystander", rng.choice(BYSTANDERS)])
            continue
        if t < p_disp + p_by + 0.02:
            ops.append(["print", rng.choice(["str", "repr", "format"])])
            continue
        t = (t - (p_disp + p_by + 0.02)) / (1 - (p_disp + p_by + 0.02))
        if t < 0.14:
            ops.append(["setConf", bits(conf)])
        elif t < 0.24:
            ops.append(["useMode", bits(conf)] if rng.random() < 0.55 else ["useMode"])
        elif t < 0.27:
            ops.append(["useMode", bits(0.0)])
        elif t < 0.36:
            ops.append(["useMean"])
        elif t < 0.44:
            ops.append(["useCustom", bits(round(rng.uniform(-10, 10), 3)),
                        bits(round(rng.uniform(0, 3), 3))])
        elif t < 0.56:
            a, b = sorted([rng.uniform(0, 1), rng.uniform(0, 1)])
            if rng.random() < 0.5:
                a, b = rng.uniform(0, 0.3), rng.uniform(0.7, 1)
            ops.append(["setRangeQ", a, b])
        elif t < 0.62:
            ops.append(["setRange"])
        elif t < 0.72:
            ops.append(["setSize", rng.choice(sizes + [0, 7, 200])])
        elif t < 0.76:
            ops.append(["resetSize"])
        elif t < 0.83:
            ops.append(["recalc"])
        elif t < 0.88:
            ops.append(["setGlobal", rng.choice([30, 60, 120, 45, 75])])
        elif t < 0.91:
            ops.append(["read"])
        elif t < 0.94:
            ops.append(["samples"])
        else:   # invalid requests: must be rejected, and leave a state the model predicts
            ops.append(rng.choice([["setConf", bits(1.5)], ["setConf", bits(-0.1)], ["setSize", -3],
                                   ["setRange", bits(2.0), bits(1.0)],
                                   ["useCustom", bits(1.0), bits(-0.5)], ["useMode", bits(1.5)]]))
    for i in range(len(ops) - 1):
        # the operation before a picture is often not followed by a read of the harness, so that the
        # picture is looked at while nothing is buffered; so are other operations now and then
        nxt = ops[i + 1][0]
        if ops[i][0] not in ("read", "samples", "print") and \
                rng.random() < (0.6 if nxt in ("display", "displayQ") else 0.12):
            ops[i] = ["quiet", ops[i]]
    return {"shape": shape, "shape_seed": rng.randrange(2 ** 32), "global": rng.choice([50, 100, 400]),
            "method": rng.choice(["global", "value"]), "npseed": rng.randrange(2 ** 32), "ops": ops}


BYSTANDERS = M.BYSTANDERS
Bystanders = M.Bystanders
DISPLAY_BINS = [100, 100, 20, 10, 30, 50, 7, 250, 99, 101]


def gen_display(rng, force_nondefault=False):
    """d.mc.show_histogram: default / other bin count (positional or keyword), with or without the
    display-only `range=` window (quantiles of the current samples, resolved when executed)"""
    bins = rng.choice(DISPLAY_BINS)
    window = rng.random() < 0.4
    if force_nondefault and bins == 100 and not window:
        if rng.random() < 0.5:
            bins = rng.choice([20, 10, 30, 7, 250])
        else:
            window = True
    form = rng.choice(["positional", "keyword"]) if bins != 100 else \
        rng.choice(["default", "default", "keyword", "positional"])
    if window:
        a, b = sorted([rng.uniform(0, 0.6), rng.uniform(0.4, 1)])
        if rng.random() < 0.3:
            a, b = rng.uniform(0.2, 0.45), rng.uniform(0.55, 0.8)
        return ["displayQ", bins, a, b, form]
    return ["display", bins, form]


def gen_display_history(rng, quick=True):
    """deliberate scenario: a picture is looked at WHILE NOTHING IS BUFFERED for the strategy in
    force -- before the first read, and right after every kind of change that drops the buffered
    result (confidence, range, sample size, recalculation, strategy round trip) -- with a bin count
    other than 100 and / or a display window; the read after it must still be the strategy's function
    of the retrievable samples (100 bins over all of them for the mode strategy)"""
    h = gen_history(rng, quick, 0, 0)
    ops = []
    if rng.random() < 0.5:
        ops.append(["setSize", rng.choice([50, 200, 1000])])
    mode = rng.random() < 0.75
    conf = rng.choice([0.5, 0.6, 0.68, 0.9, 0.95])
    ops.append(["useMode", bits(conf)] if mode else ["useMean"])
    ops.append(gen_display(rng, True))
    for _ in range(rng.randint(2, 5)):
        k = rng.choice(["setConf", "setRangeQ", "setRange", "setSize", "recalc", "roundtrip", "none",
                        "useMode", "setGlobal-recalc"])
        if k == "setConf":
            ops.append(["setConf", bits(rng.choice([0.5, 0.68, 0.9, 0.95, 0.3]))])
        elif k == "setRangeQ":
            ops.append(["setRangeQ", rng.uniform(0, 0.3), rng.uniform(0.7, 1)])
        elif k == "setRange":
            ops.append(["setRange"])
        elif k == "setSize":
            ops.append(["setSize", rng.choice([50, 200, 1000, 0])])
        elif k == "recalc":
            ops.append(["recalc"])
        elif k == "roundtrip":
            ops += [["useMean"], ["useMode"]] if mode else [["useMode"], ["useMean"]]
        elif k == "useMode":
            ops.append(["useMode", bits(rng.choice([0.5, 0.8, 0.99]))])
            mode = True
        elif k == "setGlobal-recalc":
            ops += [["setGlobal", rng.choice([30, 60, 120])], ["recalc"]]
        ops.append(gen_display(rng, True))
    h["ops"] = [o if o[0] in ("display", "displayQ") else ["quiet", o] for o in ops]
    h["scenario"] = "display-while-unbuffered"
    return h


def gen_bystander_history(rng, quick=True):
    """deliberate scenario: a non-default global sample size, something done to OTHER objects that
    draws its own simulations under its own (temporary) sample size, then this quantity is simulated
    again: the new simulation has the configured size"""
    h = gen_history(rng, quick, 0, 0)
    ops = []
    if rng.random() < 0.4:
        ops.append(["setGlobal", rng.choice([30, 60, 120])])
    for _ in range(rng.randint(1, 3)):
        ops.append(["bystander", rng.choice(BYSTANDERS)])
        ops.append(rng.choice([["recalc"], ["setSize", 0], ["read"], ["setGlobal", rng.choice([30, 60, 120])],
                               ["recalc"]]))
    ops.append(["recalc"])
    h["ops"] = ops
    h["scenario"] = "bystander"
    return h


def apply_op(q, d, op, last_samples, cap=None, by=None):
    """returns the concrete op that was executed (quantile ranges resolved)"""
    t = op[0]
    if t == "setSize":
        d.mc.sample_size = op[1]
    elif t == "resetSize":
        d.mc.reset_sample_size()
    elif t == "setConf":
        d.mc.confidence = unbits(op[1])
    elif t == "setRange":
        if len(op) == 3:
            d.mc.set_xrange(unbits(op[1]), unbits(op[2]))
        else:
            d.mc.set_xrange()
    elif t == "useMode":
        if len(op) == 2:
            d.mc.use_mode_with_confidence(unbits(op[1]))
        else:
            d.mc.use_mode_with_confidence()
    elif t == "useMean":
        d.mc.use_mean_and_std()
    elif t == "useCustom":
        d.mc.use_custom_value_and_error(unbits(op[1]), unbits(op[2]))
    elif t == "recalc":
        d.recalculate()
    elif t == "setGlobal":
        M.set_global(q, op[1])
    elif t == "read":
        _ = d.value, d.error
    elif t == "samples":
        d.mc.samples()
    elif t == "display":
        import matplotlib.pyplot as plt
        bins, form = op[1], op[-1]
        kw = {"range": (unbits(op[2]), unbits(op[3]))} if len(op) >= 5 else {}
        try:
            if form == "default":
                d.mc.show_histogram(**kw)
            elif form == "keyword":
                d.mc.show_histogram(bins=bins, **kw)
            else:
                d.mc.show_histogram(bins, **kw)
        except Exception as e:  # noqa: BLE001
            # whether a picture can be drawn is not C16's subject; what the quantity reports
            # afterwards is (judged by the reads that follow)
            return "display raised {}: {}".format(type(e).__name__, e)
        finally:
            plt.close("all")
    elif t == "print":
        try:
            _ = {"str": str, "repr": repr, "format": "{}".format}[op[1]](d)
        except Exception as e:  # noqa: BLE001
            # the printer cannot format a pair that is not a number (every sample outside the
            # configured range: mean of nothing) -- how numbers are printed is C09's subject; what the
            # quantity reports afterwards is judged by the reads that follow
            return "print raised {}: {}".format(type(e).__name__, e)
    elif t == "bystander":
        if cap is not None:
            cap.paused = True
        try:
            by.run(op[1])
        finally:
            if cap is not None:
                cap.paused = False
    else:
        raise KeyError(t)
    return None


def resolve(op, last_samples):
    if op[0] not in ("setRangeQ", "displayQ"):
        return op
    s = last_samples
    a, b = (op[1], op[2]) if op[0] == "setRangeQ" else (op[2], op[3])
    if s is None or len(s) < 4:
        lo, hi = -1.0, 1.0
    else:
        lo, hi = float(np.quantile(s, a)), float(np.quantile(s, b))
    if op[0] == "displayQ":
        if not lo < hi:
            hi = lo + 1.0
        return ["display", op[1], bits(lo), bits(hi), op[4]]
    return ["setRange", bits(lo), bits(hi)]


def batches(calls, nsrc):
    """group recorded normal() calls into simulations; returns list of sizes (None if malformed)"""
    if nsrc == 0 or len(calls) % nsrc:
        return None
    out = []
    for i in range(0, len(calls), nsrc):
        grp = calls[i:i + nsrc]
        sizes = {len(arr) for _, arr in grp}
        if len(sizes) != 1:
            return None
        out.append(sizes.pop())
    return out


def run_history(q, h, want_order=None):
    """execute one history on the real library; returns the executed trace.  Which row of the
    offsets the library hands to which source follows the iteration order of a set of random UUIDs
    and so differs from process to process: a replay re-executes the history (new measurement objects
    each time) until the recorded order comes up again"""
    for _ in range(40):
        tr = _run_history_once(q, h)
        if not want_order or tr.get("order") == want_order:
            break
    return tr


def _run_history_once(q, h):
    M.reset(q, h["global"])
    np.random.seed(h["npseed"])
    srng = random.Random(h["shape_seed"])
    tr = {"steps": [], "init": None}
    with warnings.catch_warnings(), M.Capture() as cap:
        warnings.simplefilter("ignore")
        d, meas, desc, everywhere = M.shaped_formula(q, h["shape"], srng)
        tr["desc"], tr["everywhere"] = desc, everywhere
        tr["order"] = M.source_order(q, d, meas)
        nsrc = len(tr["order"])
        tr["nsrc"] = nsrc
        if h["method"] == "global":
            q.set_error_method(q.ErrorMethod.MONTE_CARLO)
        else:
            d.error_method = q.ErrorMethod.MONTE_CARLO
        ev = d._DerivedValue__evaluators["monte-carlo"]
        st = ev.settings   # no simulation is triggered by looking at the settings object itself
        tr["init"] = {"size_setting": int(st._MonteCarloSettings__settings["monte_carlo_sample_size"]),
                      "strategy": st.strategy, "conf": float(st.confidence),
                      "range_empty": st.xrange == ()}
        last = None
        by = Bystanders(q, srng)
        for op in h["ops"]:
            # ["quiet", op]: executed WITHOUT the harness looking at the quantity afterwards (its own
            # reads would buffer a result and hide the states in which nothing is buffered)
            quiet = op[0] == "quiet"
            cop = resolve(op[1] if quiet else op, last)
            rec = {"op": cop}
            if quiet:
                rec["quiet"] = True
            c0 = len(cap.calls)
            try:
                note = apply_op(q, d, cop, last, cap, by)
                rec["out"] = "ok"
                if note:
                    rec["note"] = note
            except ValueError as e:
                rec["out"] = "rejected"
                rec["msg"] = str(e)
            except Exception as e:  # noqa: BLE001
                rec["crash"] = "{}: {}".format(type(e).__name__, e)
                tr["steps"].append(rec)
                break
            if quiet:
                tr["steps"].append(rec)
                continue
            try:
                c1 = len(cap.calls)
                s = d.mc.samples()
                c2 = len(cap.calls)
                v, e = float(d.value), float(d.error)
                c3 = len(cap.calls)
                s2 = d.mc.samples()
                keep = np.array(s, dtype=float, copy=True)
                rec["retrieve_twice_equal"] = bool(np.array_equal(s, s2))
                rec["shares_memory"] = bool(np.shares_memory(s, s2))
                s[...] = 7.25          # what the caller does with a retrieved array must not matter
                s2 *= -3.0
                s3 = d.mc.samples()
                v2, e2 = float(d.value), float(d.error)
                rec["copy_intact"] = bool(np.array_equal(s3, keep))
                c4 = len(cap.calls)
                rec.update(samples=keep, value=v, error=e, value2=v2, error2=e2,
                           ncalls=[c0, c1, c2, c3, c4], size_reported=int(d.mc.sample_size),
                           strategy=d.mc.strategy, conf=float(d.mc.confidence))
                last = keep
            except Exception as e:  # noqa: BLE001
                rec["crash"] = "{}: {} (while reading after the operation)".format(type(e).__name__, e)
                tr["steps"].append(rec)
                break
            tr["steps"].append(rec)
        tr["calls"] = [len(arr) for _, arr in cap.calls]
        tr["batches"] = batches(cap.calls, nsrc)
    M.reset(q)
    return tr


STRAT = {"monte-carlo-mean-and-std": "mean", "monte-carlo-mode_and_confidence": "mode",
         "monte-carlo-custom": "custom"}


def model_line(h, tr):
    """op / samples / read / read per executed step; simulations indexed by draw-batch number"""
    nsrc = tr["nsrc"]
    ops, sims = [], {}

    def mop(op):
        # printing the quantity reads value and uncertainty; a picture keeps only bins and window
        if op[0] == "print":
            return ["read"]
        if op[0] == "display":
            return op[:4] if len(op) >= 5 else op[:2]
        if op[0] == "bystander":
            return ["bystander"]
        return op
    for rec in tr["steps"]:
        if "samples" not in rec:
            ops.append(mop(rec["op"]))
            continue
        ops += [mop(rec["op"]), ["samples"], ["read"], ["read"]]
        sid = rec["ncalls"][2] // nsrc - 1
        if str(sid) not in sims:
            s = rec["samples"]
            if len(s):
                cnt, edg = np.histogram(s, bins=100)
            else:
                cnt, edg = np.zeros(100, dtype=int), np.linspace(0, 1, 101)
            sims[str(sid)] = {"samples": M.bitlist(s), "counts": [int(x) for x in cnt],
                              "edges": M.bitlist(edg)}
        rec["sid"] = sid
    return {"cmd": "mchistory", "global": h["global"], "ops": ops, "sims": sims}


def hist_describe(h, tr, upto=None):
    recs = tr["steps"][: (upto + 1) if upto is not None else None]

    def show(o):
        if o[0] in ("setConf", "useMode", "useCustom", "setRange") and len(o) > 1:
            return [o[0]] + [unbits(x) for x in o[1:]]
        if o[0] == "display":
            return ["show_histogram", "bins={} ({})".format(o[1], o[-1])] + (
                ["range=({!r}, {!r})".format(unbits(o[2]), unbits(o[3]))] if len(o) >= 5 else [])
        return o
    return "{} [global size {}, method {}, numpy seed {}]: {}".format(
        tr.get("desc", h["shape"]), h["global"], h["method"], h["npseed"],
        [["not-read-after", show(r["op"])] if r.get("quiet") else show(r["op"]) for r in recs])


def judge_history(h, tr, m, failures, dist):
    """compare the executed trace with the model run; returns non-trivial flag"""
    base = {"case": {"history": h}, "order": tr.get("order")}
    if "fail" in m:
        failures.append(dict(base, signature="model-error", kind="disagreement", what=m["fail"],
                             input=hist_describe(h, tr)))
        return False
    if any("samples" in rec and len(rec["samples"]) == 0 for rec in tr["steps"]):
        # every draw of some simulation was undefined: the stored set is empty and the library
        # simulates again on each access — outside the model (not judged, counted)
        dist["skipped:empty-sample-set"] += 1
        return False
    nsrc = tr["nsrc"]
    nontrivial = False
    prev_cache = None
    mi = 0
    steps = m["steps"]
    for si, rec in enumerate(tr["steps"]):
        opname = rec["op"][0]
        inp = hist_describe(h, tr, si)
        b = dict(base, input=inp, step=si)
        dist["op:" + opname] += 1
        if opname == "setGlobal":
            dist["setGlobal:through-the-" + M.global_route(rec["op"][1])] += 1
        if "crash" in rec:
            failures.append(dict(b, signature="c16:history:crash:{}:{}".format(
                rec["crash"].split(":")[0], opname), what="operation or the read after it raised "
                + rec["crash"], clause="every strategy reports a function of the sample set"))
            return nontrivial
        if rec.get("quiet"):
            mop = steps[mi]
            mi += 1
            dist["quiet-op (no read by the harness after it)"] += 1
            mo = mop["out"] if mop["out"] in ("ok", "rejected") else "ok"
            if rec["out"] != mo:
                failures.append(dict(b, signature="c16:outcome:" + opname, what="operation {} by the "
                                     "library, {} by the model".format(rec["out"], mo),
                                     impl=rec["out"], expected=mo))
                return nontrivial
            continue
        mop, msamp, mread, mread2 = steps[mi:mi + 4]
        mi += 4
        if opname == "display":
            o = rec["op"]
            dist["display:bins-{}".format("100" if o[1] == 100 else "other")] += 1
            dist["display:call-form-" + o[-1]] += 1
            if len(o) >= 5:
                dist["display:with-range-window"] += 1
            if rec.get("note"):
                dist["display:raised"] += 1
            stt = mop["st"]["strategy"]
            if not {"mean": mop["st"]["cMean"], "mode": mop["st"]["cMode"],
                    "custom": mop["st"]["cCustom"]}[stt]:
                dist["display:{}-strategy-nothing-buffered".format(stt)] += 1
                if o[1] != 100 or len(o) >= 5:
                    dist["display:{}-strategy-nothing-buffered-bins-or-window-not-default".format(stt)] += 1
        elif opname == "print" and rec.get("note"):
            dist["print:raised (pair not a number)"] += 1
        elif opname == "bystander":
            dist["bystander:" + rec["op"][1]] += 1
            if mop["st"]["size"] == 0:
                dist["bystander:while-following-the-global-size"] += 1
        # 1. accepted / rejected
        mo = mop["out"] if mop["out"] in ("ok", "rejected") else "ok"
        if rec["out"] != mo:
            failures.append(dict(b, signature="c16:outcome:" + opname, what="operation {} by the "
                                 "library, {} by the model".format(rec["out"], mo),
                                 impl=rec["out"], expected=mo))
            return nontrivial
        # 2. which simulation is current (counted from the recorded draw batches)
        c0, c1, c2, c3, c4 = rec["ncalls"]
        if any(c % nsrc for c in rec["ncalls"]):
            failures.append(dict(b, signature="c16:draws:malformed", what="number of recorded "
                                 "normal() calls is not a multiple of the number of sources"))
            return nontrivial
        drawn_op, drawn_obs = mop["st"]["drawn"], msamp["st"]["drawn"]
        if c1 // nsrc != drawn_op or c2 // nsrc != drawn_obs:
            failures.append(dict(b, signature="c16:simulation:" + opname, what="after this operation "
                                 "the library had drawn {} simulations in total (and {} after "
                                 "retrieving the samples); changing confidence, range or strategy "
                                 "must keep the simulation, assigning a sample size or recalculating "
                                 "must replace it: expected {} and {}".format(
                                     c1 // nsrc, c2 // nsrc, drawn_op, drawn_obs),
                                 impl=[c1 // nsrc, c2 // nsrc], expected=[drawn_op, drawn_obs],
                                 clause="same samples until size change / recalculation"))
            return nontrivial
        if c4 != c2:
            failures.append(dict(b, signature="c16:simulation:read", what="reading value/error or "
                                 "retrieving the samples again drew a new simulation",
                                 clause="one stored sample set"))
            return nontrivial
        if msamp["id"] != rec["sid"]:
            failures.append(dict(b, signature="c16:simulation:id", kind="disagreement",
                                 what="model simulation id differs", impl=rec["sid"],
                                 expected=msamp["id"]))
            return nontrivial
        # 3. size of the retrieved set
        sizes = tr["batches"]
        nd = c2 // nsrc
        if sizes is None or m["log"][:nd] != sizes[:nd]:
            failures.append(dict(b, signature="c16:sample-size", what="sizes of the simulations drawn "
                                 "differ from the per-quantity size if set, else the global one",
                                 impl=sizes[:nd] if sizes else None, expected=m["log"][:nd],
                                 clause="configured sample size"))
            return nontrivial
        want = sizes[rec["sid"]]
        if (tr["everywhere"] and len(rec["samples"]) != want) or len(rec["samples"]) > want:
            failures.append(dict(b, signature="c16:sample-count", what="retrieved sample set has {} "
                                 "elements for a simulation of size {}".format(
                                     len(rec["samples"]), want), impl=len(rec["samples"]),
                                 expected=want, clause="configured size when defined everywhere"))
            return nontrivial
        if rec["size_reported"] != msamp["st"]["eff"]:
            failures.append(dict(b, signature="c16:size-reported", what="mc.sample_size differs",
                                 impl=rec["size_reported"], expected=msamp["st"]["eff"]))
            return nontrivial
        # 4. settings visible to the user
        if STRAT.get(rec["strategy"]) != mread2["st"]["strategy"] or \
                bits(rec["conf"]) != mread2["st"]["conf"]:
            failures.append(dict(b, signature="c16:settings:" + opname, what="strategy/confidence "
                                 "after the operation differ from the model",
                                 impl=[rec["strategy"], rec["conf"]],
                                 expected=[mread2["st"]["strategy"], unbits(mread2["st"]["conf"])]))
            return nontrivial
        # 5. the reported pair is the strategy's function of the retrieved samples
        strat = mread["st"]["strategy"]
        dist["read:" + strat] += 1
        mv, mvb = fb(mread["value"])
        me, meb = fb(mread["error"])
        okv = close(rec["value"], mv, mvb, slack=256.0)
        oke = close(rec["error"], me, meb, slack=1024.0)
        if not (okv and oke):
            failures.append(dict(b, signature="c16:read:{}:after-{}".format(strat, opname),
                                 what="reported (value, error) is not the {} of the retrievable "
                                      "sample set under the current settings".format(
                                          {"mean": "mean / n-1 standard deviation (inside the range)",
                                           "mode": "mode / least-k confidence interval",
                                           "custom": "custom pair"}[strat]),
                                 impl=[rec["value"], rec["error"]], expected=[mv, me],
                                 clause="results re-derived from the same samples"))
            return nontrivial
        # 6. copy semantics
        m2v, m2vb = fb(mread2["value"])
        m2e, m2eb = fb(mread2["error"])
        if not (rec["retrieve_twice_equal"] and not rec["shares_memory"] and rec["copy_intact"]
                and close(rec["value2"], m2v, m2vb, slack=256.0)
                and close(rec["error2"], m2e, m2eb, slack=1024.0)):
            failures.append(dict(b, signature="c16:copy", what="the retrieved sample set is not a "
                                 "copy: overwriting it changed what the quantity reports or returns",
                                 impl={"twice_equal": rec["retrieve_twice_equal"],
                                       "shares_memory": rec["shares_memory"],
                                       "intact": rec["copy_intact"],
                                       "reread": [rec["value2"], rec["error2"]]},
                                 expected=[m2v, m2e], clause="retrieved set is a copy"))
            return nontrivial
        w = mread.get("walk")
        if w and w["hit_end"]:
            nontrivial = True
            dist["mode-read-reaching-an-end"] += 1
        cache = (mread2["st"]["cMean"], mread2["st"]["cMode"], mread2["st"]["cCustom"])
        if prev_cache and any(p and not c for p, c in zip(prev_cache, (
                mop["st"]["cMean"], mop["st"]["cMode"], mop["st"]["cCustom"]))) \
                and opname not in ("setSize", "recalc"):
            nontrivial = True
            dist["cache-invalidated-by-setting"] += 1
        prev_cache = cache
    return nontrivial


def check_init(ctx, tr, failures):
    m = ctx.model([{"cmd": "mcinit"}])[0]
    i = tr["init"]
    want = {"size_setting": m["size"], "strategy": m["strategyText"], "conf": unbits(m["conf"]),
            "range_empty": m["rangeEmpty"]}
    if i != want:
        failures.append({"signature": "c16:init", "what": "a fresh derived value's Monte Carlo "
                         "settings differ from the generated defaults table", "impl": i,
                         "expected": want, "input": "fresh DerivedValue",
                         "case": {"init": True}})


def run_histories(ctx, n, hists=None, ref=False, orders=None):
    import qexpy as q
    hists = hists or [gen_history(ctx.rng, ctx.quick, 3, 25 if ctx.quick else 60) for _ in range(n)]
    traces = [run_history(q, h, (orders or {}).get(i)) for i, h in enumerate(hists)]
    mods = ctx.model([model_line(h, t) for h, t in zip(hists, traces)], ref=ref)
    failures, nontrivial = [], set()
    dist = collections.Counter()
    samples = []
    if traces:
        check_init(ctx, traces[0], failures)
    for h, t, m in zip(hists, traces, mods):
        dist["shape:" + h["shape"]] += 1
        if h.get("scenario"):
            dist["scenario:" + h["scenario"]] += 1
        dist["history-length:{}".format(min(60, 5 * (len(h["ops"]) // 5)))] += 1
        if judge_history(h, t, m, failures, dist):
            nontrivial.add(canon_hash(h))
        if len(samples) < 4:
            samples.append({"history": hist_describe(h, t),
                            "reads": [[r.get("strategy"), r.get("value"), r.get("error"),
                                       len(r.get("samples", []))] for r in t["steps"][:6]]})
    return {"evaluations": len(hists), "nontrivial": nontrivial, "failures": failures,
            "samples": samples, "distribution": dict(dist)}


def correspond(ctx):
    rw = run_walks(ctx, ctx.n(4000, 150000))
    rh = run_histories(ctx, ctx.n(150, 3000))
    # deliberate scenarios (several per run): pictures while nothing is buffered; bystanders
    forced = [gen_display_history(ctx.rng, ctx.quick) for _ in range(ctx.n(30, 300))] + \
             [gen_bystander_history(ctx.rng, ctx.quick) for _ in range(ctx.n(16, 120))]
    rf = run_histories(ctx, 0, hists=forced)
    rh["evaluations"] += rf["evaluations"]
    rh["nontrivial"] |= rf["nontrivial"]
    rh["failures"] += rf["failures"]
    for k, v in rf["distribution"].items():
        rh["distribution"][k] = rh["distribution"].get(k, 0) + v
    dist = dict(rw["distribution"])
    dist.update(rh["distribution"])
    dist["unit-level walk cases"] = rw["evaluations"]
    dist["histories"] = rh["evaluations"]
    samples = rh["samples"][:3] + [{"walk": "counts [0]*95+[5,5,10,30,50], confidence 0.9 (DESIGN §9 witness)"}]
    # the recorded witness always runs
    wit = run_walks(ctx, 0, cases=[
        {"counts": [0] * 95 + [5, 5, 10, 30, 50], "conf": bits(0.9), "lo": bits(0.0), "hi": bits(1.0)},
        {"counts": [50, 30, 10, 5, 5] + [0] * 94 + [7], "conf": bits(0.9), "lo": bits(0.0),
         "hi": bits(1.0)}])
    return {"evaluations": rw["evaluations"] + rh["evaluations"] + wit["evaluations"],
            "nontrivial": rw["nontrivial"] | rh["nontrivial"] | wit["nontrivial"],
            "failures": wit["failures"] + rw["failures"] + rh["failures"],
            "samples": samples, "distribution": dist, "skipped": 0}


def search(ctx, broken):
    out = {"failures": [], "strategy": []}
    r = run_walks(ctx, ctx.n(3000, 30000), independent=True)
    out["failures"] += [f for f in r["failures"] if f.get("oracle") == "independent"]
    out["strategy"].append("brute-force least-k definition on {} synthetic histograms".format(
        r["evaluations"]))
    try:
        hs = [gen_history(ctx.rng, ctx.quick, 3, 25) for _ in range(ctx.n(40, 400))] + \
             [gen_display_history(ctx.rng, ctx.quick) for _ in range(ctx.n(20, 100))] + \
             [gen_bystander_history(ctx.rng, ctx.quick) for _ in range(ctx.n(10, 50))]
        r = run_histories(ctx, 0, hists=hs, ref=True)
        for f in r["failures"]:
            if f.get("signature", "").startswith("c16") and f.get("kind") != "disagreement":
                f["oracle"] = "independent"
                f["kind"] = "violation"
                out["failures"].append(f)
        out["strategy"].append("reference-model histories: {}".format(r["evaluations"]))
    except Exception as e:  # noqa: BLE001
        out["strategy"].append("reference driver unavailable: {}".format(e))
    return out


def replay(ctx, rp):
    f = rp.get("failure", {})
    c = f.get("case") or {}
    if "walk" in c:
        r = run_walks(ctx, 0, cases=[c["walk"]])
        r2 = run_walks(ctx, 0, cases=[c["walk"]], independent=True)
        fs = r["failures"] + r2["failures"]
        return {"fails": bool(fs), "failures": fs, "impl": walk_impl(c["walk"])[0]}
    if "history" in c:
        # a model regenerated from a changed tree is not known to be correct: the proved reference
        # tables are used then
        # observed until the recorded row order of the sources has come up again (see run_history)
        # and, with more than one source, at least 4 times; fails when any observation fails
        use_ref = ctx.tables_changed(SECTIONS)
        target = f.get("order") or []
        two = c["history"].get("shape") in ("sum", "prod")        # the shapes with two sources
        for tries in range(4 if two else 1):
            r = run_histories(ctx, 0, hists=[c["history"]], ref=use_ref,
                              orders={0: target if tries == 0 else None})
            if r["failures"]:
                break
        return {"fails": bool(r["failures"]), "failures": r["failures"], "observations": tries + 1}
    if c.get("init"):
        r = run_histories(ctx, 0, hists=[gen_history(random.Random(0))])
        fs = [x for x in r["failures"] if x["signature"] == "c16:init"]
        return {"fails": bool(fs), "failures": fs}
    return {"fails": False, "note": "replay file carries no concrete input", "payload": rp}

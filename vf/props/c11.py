"""C11 — array arithmetic is element-wise scalar arithmetic."""
import collections
import math
import warnings

import arrgen as G
from common import fb, close, canon_hash, unbits

ID = "C11"
SECTIONS = ["ops", "arrays"]
LEAN_MODULES = ["QExPy.Props.C11"]
THEOREMS = ["QExPy.Arr.C11_length", "QExPy.Arr.C11_elem", "QExPy.Arr.C11_elem_value_error",
            "QExPy.Arr.C11_kind", "QExPy.Arr.C11_broadcast_right", "QExPy.Arr.C11_broadcast_left",
            "QExPy.Arr.C11_fn_length", "QExPy.Arr.C11_plain_in_plain_out",
            "QExPy.Arr.C11_plain_in_plain_out_log", "QExPy.Arr.C11_tree", "QExPy.Arr.C11_tree_length",
            "QExPy.Arr.C11_same_array_cancels"]
RULE = ("every binary operator (+ - * / **) with a MeasurementArray on either side and, on the other "
        "side, int / float / measurement / derived quantity / (value,error) pair / list of floats / "
        "list of ints / float ndarray / int ndarray / another MeasurementArray / the same array / a "
        "derived array / a single quantity that is not independent of the array (an element of it, a "
        "calculated quantity containing elements of it, a measurement correlated with elements of it, a "
        "calculated quantity from such a measurement); every exported math function (sqrt exp sin..cot, degree variants, asin acos "
        "atan, one-argument log, log10, unary minus) on arrays, lists, ndarrays, numbers, "
        "quantities; two-argument log over all kind pairs; random compositions of depth 2-4; "
        "lengths 1-8; arrays carry units and names; same-position correlations between two "
        "arrays. Compared per element: (i) the real scalar operation on the same element objects "
        "(value, uncertainty, unit string, plain-vs-quantity) and (ii) the Lean model (value, "
        "uncertainty under the FB bound), plus length and container type. Quick: every operator "
        "x order x kind x kind class once + 60 compositions; thorough: every class 12 times (one of "
        "them with length 1) + 15000 compositions (exhaustive = the combination classes are "
        "enumerated completely; contents are sampled). Non-trivial = a "
        "quantity-valued result whose elements have non-zero uncertainty coming from both sides "
        "of a binary operation or through a non-linear function; distinct by hash of the case. "
        "Operand kinds also: a measurement recorded from readings (as many readings as array elements, "
        "or another number), np.int64 / np.float32 / Fraction scalars. SPECIAL VALUES: for every "
        "function and operator a class whose element 0 is a special value (zeros and extrema of the "
        "degree functions, 0, 1, exact squares and powers, domain ends, exponents 0/1/2/-1/0.5, bases "
        "1/0/10) next to ordinary values, lists mixing ints and floats, three times per quick run")
ASSUMPTIONS = ["theorems are about the model in which element-wise-ness holds by construction; that "
               "numpy object-array broadcasting and np.vectorize behave like the model is exercised "
               "by the correspondence run, not proved",
               "theorems over the reals; binary64 rounding compared under the conditioned tolerance",
               "mismatched lengths, 2-d arrays, empty arrays, lists of quantities and (value,error) "
               "tuples passed to math functions are outside the property's quantifier"]
TRUSTED = ["exercised not modelled: numpy object-array broadcasting, np.vectorize, "
           "ndarray.__array_finalize__/__array_wrap__ subclass propagation",
           "the unit of an element is compared with the unit string of the real scalar operation "
           "(the unit model is C08's); the Lean theorem carries units through an abstract UnitAlg"]
LEVEL_TEXT = ("Lean 4 theorems: in the executable model an array operation is the position-wise map of "
              "the C01 scalar formula (length, element, broadcast, container kind, composition); "
              "correspondence-led: the model is diffed against numpy-backed array arithmetic and "
              "against the library's own scalar arithmetic on every run")
LEVEL_NOTE = ("partial: element-wise-ness is by construction in the model; the assurance for the code "
              "is the exhaustive operator x kind x kind correspondence run")
TECHNIQUE = ("Lean 4 machine-checked proof over an executable model + differential correspondence "
             "run (array result vs scalar results of the real library vs model)")


def reset(q):
    q.reset_default_configuration()
    q.reset_correlations()
    q.clear_unit_definitions()


def _describe(q, x):
    from numbers import Real
    import qexpy.data.data as dt
    if isinstance(x, dt.ExperimentalValue):
        try:
            unit = str(x.unit)
        except Exception as e:  # noqa: BLE001
            unit = "EXC:" + type(e).__name__
        return {"q": True, "value": float(x.value), "error": float(x.error), "unit": unit}
    if isinstance(x, Real):
        return {"q": False, "value": float(x), "error": 0.0, "unit": None}
    return {"q": None, "type": type(x).__name__}


def _kind(q, np, r):
    import qexpy.data.data as dt
    from numbers import Real
    if isinstance(r, q.MeasurementArray):
        return "marray"
    if isinstance(r, np.ndarray):
        return "ndarray" if r.ndim == 1 else "ndarray{}d".format(r.ndim)
    if isinstance(r, list):
        return "list"
    if isinstance(r, (dt.ExperimentalValue, Real)):
        return "scalar"
    return type(r).__name__


def observe(q, np, case):
    reset(q)
    out = {}
    with warnings.catch_warnings():
        warnings.simplefilter("ignore")
        try:
            objs = G.build_objects(q, np, case)
        except Exception as e:  # noqa: BLE001
            out["build_exception"] = "{}: {}".format(type(e).__name__, e)
            return out
        try:
            out["scalars"] = [_describe(q, G.eval_scalar(q, case, objs, case["tree"], i))
                              for i in range(case["n"])]
        except Exception as e:  # noqa: BLE001
            out["scalar_exception"] = "{}: {}".format(type(e).__name__, e)
        try:
            r = G.eval_array(q, case, objs, case["tree"])
            k = out["kind"] = _kind(q, np, r)
            if k == "scalar":
                out["len"] = 1
                out["elems"] = [_describe(q, r)]
            else:
                out["len"] = len(r)
                out["elems"] = [_describe(q, x) for x in r]
                if k == "marray":
                    # what the user reads from the array itself
                    out["values"] = [float(v) for v in r.values]
                    out["errors"] = [float(v) for v in r.errors]
                    out["unit"] = str(r.unit)
                if k == "ndarray":
                    out["dtype"] = str(r.dtype)
        except Exception as e:  # noqa: BLE001
            out["array_exception"] = "{}: {}".format(type(e).__name__, e)
    return out


def _tight(a, b, rel=1e-12):
    """array element vs scalar result: same code on the same objects (a few ulp allowed for
    int-vs-numpy-int operands taking different pow/convert paths; binary32 resolution when an
    operand is an np.float32: numpy then computes in binary32, and not at the same places in the
    array path and in the scalar path)"""
    if math.isnan(a) or math.isnan(b):
        return math.isnan(a) and math.isnan(b)
    return a == b or abs(a - b) <= rel * max(abs(a), abs(b)) + 1e-300


def _nontrivial(case):
    """both sides of a binary op carry uncertainty, or a non-linear function of an uncertain array"""
    errs = [unbits(e) for e in case["errs"]]

    def unc(t):
        if t[0] == "leaf":
            l = case["leaves"][t[1]]
            if l["k"] == "marray":
                return any(errs[v] > 0 for v in l["vars"])
            if l["k"] == "pair":
                return errs[l["var"]] > 0
            if l["k"] == "quantity":
                return True
            return False
        if t[0] == "fn":
            return unc(t[3])
        return unc(t[-1]) or unc(t[-2])

    def walk(t):
        if t[0] == "leaf":
            return False
        if t[0] == "fn":
            return (t[2] != "neg" and unc(t[3])) or walk(t[3])
        return (unc(t[-1]) and unc(t[-2])) or walk(t[-1]) or walk(t[-2])
    return walk(case["tree"])


def judge(case, o, m):
    """returns (failures, skipped?)"""
    sig = "c11:" + case["label"]
    inp = G.pretty(case)
    base = {"input": inp, "case": case}
    fails = []

    def fail(kind, what=None, indep=False, **kw):
        d = dict(base)
        d.update({"signature": "{}:{}".format(sig, kind), "what": what})
        if indep:   # judged against the library's own scalar arithmetic, not against the model
            d.update({"oracle": "independent", "kind": "violation"})
        d.update(kw)
        fails.append(d)

    if "build_exception" in o:
        return [], True
    if "scalar_exception" in o:
        return [], True       # the scalar operation itself is undefined here: nothing to compare with
    if any(s.get("q") is not None and not (math.isfinite(s["value"]) and math.isfinite(s["error"]))
           for s in o["scalars"]):
        # an element outside the operator's domain (0 +/- e raised to 0.5: infinite derivative; nan):
        # the scalar operation yields inf / nan there, whether the array operation yields the same
        # or raises is not what the statement is about (special-value cases go to such edges)
        return [], True
    f32 = any(l.get("ty") == "npf32" for l in case["leaves"])
    rel = 4e-6 if f32 else 1e-12
    # binary32 resolution (6e-8) reaches an uncertainty amplified by whatever cancels in the quadratic
    # form (correlations of -1 / +1, x - x patterns in a composed formula): judged at 1e-3 there
    rel_err = 1e-3 if f32 else rel
    if "array_exception" in o:
        fail("exception:" + o["array_exception"].split(":")[0],
             "the array operation raised {} although the operation on every i-th element "
             "individually succeeds".format(o["array_exception"]),
             indep=True, impl=o["array_exception"], expected=o["scalars"],
             clause="same length / elements")
        return fails, False
    n = case["n"]
    sc = o["scalars"]
    # ---- model
    if "fail" in m:
        fail("model-error", "model driver: " + m["fail"])
        fails[-1]["kind"] = "disagreement"
        return fails, False
    if m.get("reject"):
        fail("model-reject", "the model rejects this combination but the library evaluated it",
             kind="disagreement", impl=o.get("kind"))
        return fails, False
    exp_kind = m["kind"]
    exp_len = 1 if exp_kind == "scalar" else n
    # ---- container kind and length
    if o["kind"] != exp_kind:
        # independent of the model where the statement alone fixes the container: a
        # MeasurementArray among the operands gives a MeasurementArray; only plain lists (and
        # numbers) give a list; only plain ndarrays (and numbers) give an ndarray
        ks = {l["k"] for l in case["leaves"]}
        cont = ks & {"marray", "listNum", "ndarrayNum"}
        stated = None
        if "marray" in cont:
            stated = "marray"
        elif cont == {"listNum"} and not ks & {"quantity", "pair"}:
            stated = "list"
        elif cont == {"ndarrayNum"} and not ks & {"quantity", "pair"}:
            stated = "ndarray"
        fail("container", "result container is {} but should be {}".format(o["kind"], exp_kind),
             indep=(stated is not None and stated == exp_kind),
             impl=o["kind"], expected=exp_kind, clause="container kind")
        return fails, False
    if o["len"] != exp_len or m["len"] != exp_len:
        fail("length", "result has length {} (model {}), operands have length {}".format(
            o["len"], m["len"], exp_len), impl=o["len"], expected=exp_len, clause="same length")
        return fails, False
    # ---- (i) element i == scalar operation on the i-th elements (statement verbatim)
    for i in range(exp_len):
        e, s = o["elems"][i], sc[i] if exp_kind != "scalar" else sc[0]
        if e.get("q") is None or s.get("q") is None:
            fail("elemtype", indep=True, what="element {} is a {}".format(i, e.get("type") or s.get("type")),
                 impl=e, expected=s, clause="element kind")
            break
        if e["q"] != s["q"]:
            fail("plain", indep=True, what="element {} is {} but the scalar operation gives {}".format(
                i, "a quantity" if e["q"] else "a plain number",
                "a quantity" if s["q"] else "a plain number"), impl=e, expected=s,
                clause="plain numbers in, plain numbers out")
            break
        if not _tight(e["value"], s["value"], rel):
            fail("value", indep=True, what="value of element {} differs from the scalar operation on the {}-th "
                 "elements".format(i, i), impl=e, expected=s, index=i, clause="value")
            break
        if not _tight(e["error"], s["error"], rel_err):
            fail("error", indep=True, what="uncertainty of element {} differs from the scalar operation on the "
                 "{}-th elements".format(i, i), impl=e, expected=s, index=i, clause="uncertainty")
            break
        if e["unit"] != s["unit"]:
            fail("unit", indep=True, what="unit of element {} is {!r}, the scalar operation gives {!r}".format(
                i, e["unit"], s["unit"]), impl=e, expected=s, index=i, clause="unit")
            break
    if fails:
        return fails, False
    if exp_kind == "marray":
        for i in range(n):
            if not _tight(o["values"][i], sc[i]["value"], rel) or not _tight(o["errors"][i], sc[i]["error"], rel_err):
                fail("values-attr", indep=True, what="result.values/.errors[{}] differ from the scalar result".format(i),
                     impl=[o["values"][i], o["errors"][i]], expected=sc[i], clause="value/uncertainty")
                return fails, False
        if o["unit"] != sc[0]["unit"]:
            fail("unit-attr", indep=True, what="result.unit is {!r}, scalar result has {!r}".format(
                o["unit"], sc[0]["unit"]), impl=o["unit"], expected=sc[0]["unit"], clause="unit")
            return fails, False
    if exp_kind == "ndarray" and o.get("dtype") == "object" and not any(e["q"] for e in m["elems"]):
        fail("dtype", "ndarray of plain numbers came back with dtype=object", impl=o["dtype"],
             expected="numeric dtype", clause="plain numbers out")
        return fails, False
    # ---- (ii) the Lean model, value / uncertainty under the FB bound
    if any(l.get("ty") == "npf32" for l in case["leaves"]):
        # numpy (NEP 50) evaluates `python float <op> np.float32` in binary32 -- in the scalar operation
        # exactly as in the array operation, so part (i) above is judged in full; the binary64 model
        # is 1e-8 away by construction and is not compared
        return fails, False
    skipped = False
    for i in range(exp_len):
        me, ma, e = m["elems"][i], m["at"][i], o["elems"][i]
        if ma is None or ma != me:
            fail("model-incoherent", "model: array evaluation and element-wise evaluation differ",
                 kind="disagreement", impl=me, expected=ma)
            break
        mv, mvb = fb(me["value"])
        mer, merb = fb(me["error"])
        if mer == 0.0 and math.isfinite(mv) and math.isfinite(mvb) and not math.isfinite(merb):
            # exact uncertainty 0 (plain numbers, zero-error sources, x - x): the FB bound of
            # sqrt at 0 is undefined; an implementation value of rounding size is accepted
            merb = 1e-7 * (abs(mv) + 1.0) / 256.0
        if not all(math.isfinite(x) for x in (mv, mer, mvb, merb)) or \
                mvb > 1e-6 * (abs(mv) + 1e-30) + 1e-9:
            skipped = True
            continue
        if me["q"] != e["q"]:
            fail("plain", "element {} is {} but should be {}".format(
                i, "a quantity" if e["q"] else "a plain number",
                "a quantity" if me["q"] else "a plain number"), impl=e, expected=me["q"],
                clause="plain numbers in, plain numbers out")
            break
        if not close(e["value"], mv, mvb):
            fail("value", "value of element {} differs from the scalar formula at the {}-th "
                 "elements".format(i, i), impl=e["value"], expected=mv, bound=mvb, index=i,
                 clause="value")
            break
        if not close(e["error"], mer, merb, slack=256.0):
            fail("error", "uncertainty of element {} differs from the scalar propagation at the "
                 "{}-th elements".format(i, i), impl=e["error"], expected=mer, bound=merb, index=i,
                 clause="uncertainty")
            break
    return fails, skipped and not fails


def run_cases(ctx, cases, ref=False):
    import numpy as np
    import qexpy as q
    cases = [c for c in cases if c is not None]
    obs = [observe(q, np, c) for c in cases]
    reset(q)
    mod = ctx.model([G.model_line(c) for c in cases], ref=ref) if cases else []
    failures, nontrivial, skipped = [], set(), 0
    dist = collections.Counter()
    samples = []
    for c, o, m in zip(cases, obs, mod):
        lab = c["label"].split(":")
        dist[lab[0] + ":" + lab[1]] += 1
        if len(lab) > 2 and lab[2] != "special":
            dist["kinds:" + lab[2]] += 1
        if lab[-1] == "special":
            dist["special-values:{}".format(lab[0])] += 1
            if lab[0] == "fn":
                dist["special-values:fn:{}".format(lab[1])] += 1
        if c.get("readings"):
            nr = len(next(iter(c["readings"].values())))
            dist["repeated-measurement operand:" + ("as many readings as array elements"
                                                    if nr == c["n"] else "another number of readings")] += 1
        for l in c["leaves"]:
            if l.get("shared"):
                dist["single operand NOT independent of the array:" + l["shared"]] += 1
            if l.get("ty"):
                dist["number-type:" + l["ty"]] += 1
            if l.get("ints") and any(l["ints"]) and not all(l["ints"]):
                dist["list mixing ints and floats"] += 1
        dist["len:{}".format(c["n"])] += 1
        dist["corr" if c["rho"] else "nocorr"] += 1
        fs, sk = judge(c, o, m)
        failures += fs
        if sk:
            skipped += 1
            continue
        if not fs and _nontrivial(c):
            nontrivial.add(canon_hash([c["tree"], c["leaves"], c["vals"], c["errs"], c["rho"]]))
        if len(samples) < 5 and "elems" in o and o.get("kind") == "marray":
            samples.append({"expression": G.pretty(c), "container": o["kind"], "length": o["len"],
                            "array_elements": o["elems"][:3], "scalar_results": o["scalars"][:3],
                            "model": [{"value": fb(e["value"])[0], "error": fb(e["error"])[0]}
                                      for e in m.get("elems", [])[:3]]})
    return {"evaluations": len(cases), "nontrivial": nontrivial, "failures": failures,
            "samples": samples, "distribution": dict(dist), "skipped": skipped}


def gen_cases(ctx):
    rng = ctx.rng
    combos = G.combos()
    cases = []
    exhaustive = False
    if ctx.quick:
        # every operator x order x kind, function x kind and log kind x kind class once (random
        # lengths and contents), plus random compositions
        exhaustive = True
        for c in combos:
            cases.append(G.gen_combo(rng, c))
        for _ in range(2):        # the special-value classes three times per run (other contents)
            for c in combos:
                if c[0] in ("opS", "fnS", "log2S"):
                    cases.append(G.gen_combo(rng, c))
        for _ in range(60):
            cases.append(G.gen_tree(rng))
    else:
        exhaustive = True
        for rep in range(12):
            for c in combos:
                cases.append(G.gen_combo(rng, c, n=1 if rep == 0 else None))
        for _ in range(15000):
            cases.append(G.gen_tree(rng))
    return cases, exhaustive, len(combos)


def correspond(ctx):
    cases, exhaustive, ncomb = gen_cases(ctx)
    dropped = sum(1 for c in cases if c is None)
    r = run_cases(ctx, cases)
    r["exhaustive"] = exhaustive
    r["distribution"]["combination_classes_total"] = ncomb
    r["distribution"]["draws_out_of_domain_dropped"] = dropped
    return r


def search(ctx, broken):
    """independent oracle: the library's own scalar arithmetic (the statement verbatim) — part (i)
    of `judge` does not depend on the Lean model or the generated tables."""
    out = {"failures": [], "strategy": []}
    rng = ctx.rng
    cases = []
    for rep in range(ctx.n(2, 4)):
        for c in G.combos():
            cases.append(G.gen_combo(rng, c))
    for _ in range(ctx.n(200, 2000)):
        cases.append(G.gen_tree(rng))
    r = run_cases(ctx, cases)
    out["failures"] += [f for f in r["failures"] if f.get("oracle") == "independent"]
    out["strategy"].append("scalar-operation oracle on {} cases (all combination classes x{} + "
                           "random compositions)".format(r["evaluations"], ctx.n(2, 4)))
    return out


def replay(ctx, rp):
    c = rp.get("failure", {}).get("case")
    if not c:
        return {"fails": False, "note": "replay file carries no concrete input", "payload": rp}
    r = run_cases(ctx, [c])
    return {"fails": bool(r["failures"]), "input": G.pretty(c), "failures": r["failures"]}

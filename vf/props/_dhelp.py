"""Helpers shared by the C04 / C10 / C14 / C17 checks (histories against the real library)."""
import collections
import math
import multiprocessing
import os
import random
import struct
import warnings

from common import bits, unbits, fb, close, canon_hash  # noqa: F401

ULP1 = 2.0 ** -52


def reset(q):
    q.reset_default_configuration()
    q.reset_correlations()
    q.clear_unit_definitions()


def call(f):
    """run one request against the library: ('ok', result) or ('reject', ExceptionTypeName).
    Any exception raised for a request is a rejection; the type name is kept for the evidence."""
    with warnings.catch_warnings():
        warnings.simplefilter("ignore")
        try:
            return "ok", f()
        except Exception as e:  # noqa: BLE001
            return "reject", type(e).__name__


def fnum(x):
    """canonical float of whatever number type the library hands back (int, float, numpy scalar)"""
    return float(x)


def ulps(a, b):
    """distance in units in the last place of b"""
    if a == b:
        return 0.0
    if b == 0 or not math.isfinite(a) or not math.isfinite(b):
        return float("inf")
    return abs(a - b) / (abs(b) * ULP1)


def next_up(x, k=1):
    for _ in range(k):
        x = math.nextafter(x, math.inf)
    return x


def next_down(x, k=1):
    for _ in range(k):
        x = math.nextafter(x, -math.inf)
    return x


def dyadic(rng, lo=-1000, hi=1000, den=8):
    """a float with few mantissa bits (sums and products of a few of them are exact)"""
    return rng.randint(lo, hi) / den


def rand_value(rng):
    k = rng.random()
    if k < 0.1:
        return 0.0
    if k < 0.3:
        return float(rng.randint(-20, 20))
    if k < 0.8:
        return round(rng.uniform(-50, 50), rng.randint(0, 3))
    return rng.uniform(-1, 1) * 10 ** rng.randint(-3, 5)


def rand_pos(rng):
    k = rng.random()
    if k < 0.5:
        return round(rng.uniform(0.01, 2), 2)
    if k < 0.8:
        return rng.uniform(1e-3, 5)
    return 10 ** rng.uniform(-4, 2)


def merge(results):
    """merge per-chunk result dicts into one"""
    out = {"evaluations": 0, "nontrivial": set(), "failures": [], "samples": [],
           "distribution": collections.Counter(), "skipped": 0}
    for r in results:
        out["evaluations"] += r.get("evaluations", 0)
        out["nontrivial"] |= set(r.get("nontrivial", ()))
        out["failures"] += r.get("failures", [])
        out["samples"] += r.get("samples", [])
        out["distribution"].update(r.get("distribution", {}))
        out["skipped"] += r.get("skipped", 0)
    out["samples"] = out["samples"][:5]
    out["distribution"] = dict(sorted(out["distribution"].items()))
    # keep the evidence small: at most 40 failures, smallest inputs first
    out["failures"].sort(key=lambda f: len(str(f.get("input", ""))))
    out["failures"] = out["failures"][:40]
    return out


class SubCtx:
    """what a worker sees of the check context: its own PRNG, the same driver"""

    def __init__(self, ctx, seed, ref=False):
        self.rng = random.Random(seed)
        self.tier = ctx.tier
        self.quick = ctx.quick
        self._refpath = ctx.ref_driver() if ref else None

    def model(self, lines, ref=False):
        import common as C
        return C.run_driver(lines, driver=self._refpath if (ref and self._refpath) else None)


def _work(args):
    fn, sub, n = args
    return fn(sub, n)


def run_chunks(ctx, fn, n_cases, chunk=200, ref=False):
    """fn(subctx, n) -> result dict.  Quick tier: inline chunks; thorough: a process pool."""
    seeds = []
    left = n_cases
    while left > 0:
        k = min(chunk, left)
        seeds.append((ctx.rng.getrandbits(48), k))
        left -= k
    jobs = [(fn, SubCtx(ctx, s, ref=ref), k) for s, k in seeds]
    if ctx.quick or len(jobs) <= 2:
        return merge([fn(sub, k) for _, sub, k in jobs])
    procs = min(16, os.cpu_count() or 4, len(jobs))
    mp = multiprocessing.get_context("fork")
    with mp.Pool(procs) as pool:
        res = pool.map(_work, jobs, chunksize=1)
    return merge(res)

"""Correspondence run shared by C05 and C15: histories of edits / reads / recalculations /
method switches on real quantities vs the Lean session state machine (Model/World.lean)."""
import collections
import math
import warnings

import numpy as np

import exprgen
from common import bits, unbits, fb, close, canon_hash
from props._exprcheck import reset, pretty

UNITS = ["m", "s", "kg", "m/s", "kg*m^2"]


def quantity_nodes(case):
    return [i for i, n in enumerate(case["nodes"]) if n[0] in ("un", "bin", "deg")]


def gen_history(rng, case, n_ops, change_ops=True):
    """ops over the case; keeps every formula inside its guarded domain"""
    vals = [unbits(b) for b in case["vals"]]
    errs = [unbits(b) for b in case["errs"]]
    nm = case["n_meas"]
    pending = list(case.get("late") or [])
    qn = [x for x in quantity_nodes(case) if x not in pending]
    ops = []
    rho = {}
    scen = case.setdefault("scenarios", [])
    for _ in range(n_ops):
        r = rng.random()
        if pending and rng.random() < 0.12:
            # a NEW result is created in the middle of the session (here: the same operator applied
            # again to the very same operand objects), possibly while another method is in force
            t_ = pending.pop(0)
            qn.append(t_)
            ops.append(["create", t_])
            if rng.random() < 0.5:
                ops.append(["read", t_])
            continue
        n = rng.choice(qn[-3:]) if rng.random() < 0.7 else rng.choice(qn)
        if change_ops and r < 0.14:
            i = rng.randrange(nm)
            for _try in range(10):
                nv = vals[i] * (1 + rng.uniform(-0.3, 0.3))
                if rng.random() < 0.2:
                    nv = float(round(nv, 1)) or vals[i]
                trial = list(vals)
                trial[i] = nv
                if exprgen.ref_eval_all(case, trial) is not None:
                    vals = trial
                    ops.append(["setValue", i, bits(nv)])
                    break
        elif change_ops and r < 0.22:
            i = rng.randrange(nm)
            if i == case.get("wide"):
                continue
            ne = min(abs(vals[i]) * 0.2, max(abs(vals[i]) * 1e-6, errs[i] * 10 ** rng.uniform(-1, 1)))
            if errs[i] == 0.0:
                ne = (abs(vals[i]) or 1.0) * 10 ** rng.uniform(-3, -1)    # an exact source gets an uncertainty
            elif vals[i] == 0.0:
                ne = errs[i] * 10 ** rng.uniform(-0.5, 0.5)
            if vals[i] != 0.0 and rng.random() < 0.35:
                # the other way to revise an uncertainty: as a fraction of the central value
                rel = ne / abs(vals[i])
                ne = abs(vals[i]) * float(rel)
                errs[i] = ne
                ops.append(["setRel", i, bits(rel)])
            else:
                errs[i] = ne
                ops.append(["setError", i, bits(ne)])
        elif change_ops and r < 0.28 and nm >= 2:
            i, j = rng.sample(range(nm), 2)
            if errs[i] == 0.0 or errs[j] == 0.0:
                continue      # the library refuses a correlation with an exact quantity
            rr = rng.uniform(-0.3, 0.3) if rng.random() < 0.85 else 0.0
            rho[(min(i, j), max(i, j))] = rr
            ops.append(["setCorr", i, j, bits(rr)])
        elif change_ops and r < 0.30:
            rho.clear()
            ops.append(["resetCorr"])
        elif not change_ops and r < 0.34:
            # (toggle histories) the judged read next to the same formula built afresh from the
            # same measurements and correlations: an oracle that does not go through the model
            ops.append(["readFresh", n])
        elif r < 0.55:
            ops.append(["read", n])
        elif r < 0.65:
            ops.append(["readDeriv", n, rng.randrange(nm + 1)])
        elif r < 0.78:
            ops.append(["recalc", n])
            ops.append(["read", n])
        elif r < 0.84:
            ops.append(["setGlobal", rng.choice(["derivative", "monte-carlo"])])
        elif r < 0.91:
            ops.append(["setMethod", n, rng.choice(["derivative", "monte-carlo"])])
        elif r < 0.95:
            ops.append(["resetMethod", n])
        elif r < 0.975:
            ops.append(["setSize", n, rng.choice([40, 70])])
        elif r < 0.985:
            ops.append(["touchMc", n])
        elif r < 0.993:
            ops.append(["fault"])
        else:
            ops.append(["newGroup"])
    for t_ in pending:
        ops.append(["create", t_])
        ops.append(["read", t_])
        qn.append(t_)
    pending = []
    if rng.random() < 0.35:
        # deliberate scenario: "returns to the global setting when its own selection is reset" is a
        # statement about LATER switches of the global setting too: own selection, reset (either
        # form), then the session's method is switched and the quantity is read (and, where sources
        # may change, changed + recalculated + read)
        n = rng.choice(qn[-3:])
        g0 = rng.choice(["derivative", "monte-carlo"])
        g1 = "monte-carlo" if g0 == "derivative" else "derivative"
        ops.append(["setGlobal", g0])
        ops.append(["setMethod", n, rng.choice([g0, g1])])
        if rng.random() < 0.5:
            ops.append(["read", n])
        want_form = rng.choice(["method", "method", "auto"])
        # run_impl picks the form of a reset by the parity of its position: pad with a read
        if ((len(ops) + 1) % 2 == 1) != (want_form == "method"):
            ops.append(["read", n])
        ops.append(["resetMethod", n])
        if rng.random() < 0.5:
            ops.append(["read", n])
        ops.append(["setGlobal", g1])
        ops.append(["read", n])
        if rng.random() < 0.5:
            ops.append(["recalc", n])
            ops.append(["read", n])
        if rng.random() < 0.4:
            ops.append(["setGlobal", g0])
            ops.append(["read", n])
        scen.append("reset-then-global-switch:" + want_form)
    if rng.random() < 0.3:
        # deliberate scenario: the quantity's sample size is assigned, read, and assigned AGAIN with
        # the same number (also: the number that is already in effect through the global setting):
        # every assignment of the sample size starts a new simulation
        n = rng.choice(qn[-3:])
        k = rng.choice([40, 70])
        ops.append(["setMethod", n, "monte-carlo"])
        ops.append(["read", n])
        if rng.random() < 0.5:
            ops.append(["setSize", n, k])
            ops.append(["read", n])
        else:
            k = 50      # the global size the harness configures (run_impl: mc_size)
        ops.append(["setSize", n, k])
        ops.append(["read", n])
        ops.append(["read", n])
        scen.append("same-sample-size-again:" + ("own" if k != 50 else "global"))
    if not change_ops and rng.random() < 0.5:
        # deliberate scenario: a Monte Carlo read of one result (own selection or global setting),
        # then the FIRST derivative read of a result that has nothing buffered (recalculated, or a
        # twin created now), next to the formula built afresh
        dp = _deps(case)
        both = [x for x in qn if any(r_[0] in dp[x] and r_[1] in dp[x] for r_ in case["rho"])]
        n = rng.choice(both or qn[-3:])
        route = rng.choice(["node", "global"])
        ops.append(["setMethod", n, "monte-carlo"] if route == "node" else ["setGlobal", "monte-carlo"])
        if route == "global":
            ops.append(["resetMethod", n])
        ops.append(["read", n])
        n2 = rng.choice(both or qn[-3:])
        ops.append(["recalc", n2])
        ops.append(["setGlobal", "derivative"])
        ops.append(["setMethod", n2, "derivative"])
        ops.append(["readFresh", n2])
        scen.append("mc-read-then-first-derivative-read:" + route)
    if change_ops and nm >= 2 and rng.random() < 0.3:
        # deliberate scenario: two correlated sources OF ONE RESULT, the uncertainty of one of them
        # (a negative reading if there is one) revised as a relative uncertainty, then recalculation
        deps = {}
        for k, nd in enumerate(case["nodes"]):
            deps[k] = {nd[1]} if nd[0] == "var" else set() if nd[0] in ("const", "pair") else \
                set().union(*[deps[j] for j in nd[2:]])
        joint = [n for n in qn if len({i for i in deps[n] if vals[i] != 0.0 and errs[i] > 0.0
                                       and i != case.get("wide")}) >= 2]
        if joint:
            n = rng.choice(joint[-3:])
            src = sorted(i for i in deps[n] if vals[i] != 0.0 and errs[i] > 0.0
                         and i != case.get("wide"))
            neg = [i for i in src if vals[i] < 0]
            i = rng.choice(neg or src)
            j = rng.choice([x for x in src if x != i])
            rr = rng.choice([-1, 1]) * rng.uniform(0.15, 0.3)
            rel = min(0.2, max(1e-6, errs[i] / abs(vals[i]) * 10 ** rng.uniform(-0.5, 0.5)))
            ops.append(["setCorr", i, j, bits(rr)])
            ops.append(["setRel", i, bits(rel)])
            ops.append(["recalc", n])
            ops.append(["read", n])
            if rng.random() < 0.5:
                ops.append(["setMethod", n, "monte-carlo"])
                ops.append(["recalc", n])
                ops.append(["read", n])
    if change_ops and rng.random() < 0.3:
        # deliberate scenario: a result is read, the method is switched away, a source changes, the
        # result is recalculated WHILE the other method is in force, the method is switched back:
        # the read that follows must be the formula at the current state (oracle: built afresh)
        deps = {}
        for k, nd in enumerate(case["nodes"]):
            deps[k] = {nd[1]} if nd[0] == "var" else set() if nd[0] in ("const", "pair") else \
                set().union(*[deps[j] for j in nd[2:]])
        cand = [n for n in qn if any(i != case.get("wide") for i in deps[n])]
        if cand:
            n = rng.choice(cand[-3:])
            i = rng.choice(sorted(x for x in deps[n] if x != case.get("wide")))
            away = rng.choice(["node", "global"])
            ops.append(["setGlobal", "derivative"])
            ops.append(["resetMethod", n])
            ops.append(["read", n])
            ops.append(["setMethod", n, "monte-carlo"] if away == "node" else ["setGlobal", "monte-carlo"])
            if rng.random() < 0.5:
                ops.append(["read", n])
            for _try in range(10):
                trial = list(vals)
                trial[i] = vals[i] * (1 + rng.uniform(-0.3, 0.3)) if vals[i] != 0.0 else vals[i]
                if exprgen.ref_eval_all(case, trial) is not None:
                    break
            else:
                trial = list(vals)
            if trial[i] != vals[i]:
                vals = trial
                ops.append(["setValue", i, bits(vals[i])])
            else:
                errs[i] = (errs[i] or abs(vals[i]) * 1e-3 or 1e-3) * 1.5
                ops.append(["setError", i, bits(errs[i])])
            ops.append(["recalc", n])
            ops.append(["setMethod", n, "derivative"] if away == "node" else ["setGlobal", "derivative"])
            ops.append(["readFresh", n])
    return ops


def _deps(case):
    """node -> set of source measurements its formula contains"""
    deps = {}
    for k, nd in enumerate(case["nodes"]):
        deps[k] = {nd[1]} if nd[0] == "var" else set() if nd[0] in ("const", "pair") else \
            set().union(*[deps[j] for j in nd[2:]])
    return deps


def gen_case(rng, n_ops, change_ops=True):
    while True:
        c = exprgen.gen_case(rng, max_ops=5, max_meas=4, allow_pairs=False, allow_corr=False)
        if c is None:
            continue
        # every measurement needs a non-zero uncertainty (Monte Carlo reads are compared by identity)
        c["errs"] = [bits(max(unbits(e), abs(unbits(v)) * 1e-4)) for v, e in zip(c["vals"], c["errs"])]
        c["rho"] = []
        if change_ops and c["n_meas"] >= 2 and rng.random() < 0.25:
            # one EXACT source (no uncertainty when the formulas are assembled); the history may
            # give it an uncertainty or another value later
            c["errs"][rng.randrange(c["n_meas"])] = bits(0.0)
        # the sources may be the entries of ONE MeasurementArray (values then also change through
        # item assignment on the array)
        c["via_array"] = bool(change_ops and not c.get("raw") and rng.random() < 0.3)
        # sometimes a WIDE source under a domain-restricted operator: part of the Monte Carlo
        # draws is then undefined and discarded (the stored simulation is shorter than requested)
        restricted = {"sqrt", "ln", "log10", "asin", "acos"}
        direct = [c["nodes"][n[2]][1] for n in c["nodes"]
                  if n[0] == "un" and n[1] in restricted and c["nodes"][n[2]][0] == "var"]
        c["wide"] = None
        direct = [i for i in direct if unbits(c["vals"][i]) != 0.0 and unbits(c["errs"][i]) > 0.0]
        if direct and rng.random() < 0.6:
            i = rng.choice(direct)
            c["errs"][i] = bits(abs(unbits(c["vals"][i])) * rng.uniform(0.45, 0.8))
            c["wide"] = i
        c["scenarios"] = []
        # TWINS: the same operator applied a second time to the very same operand objects (a new
        # result of the same formula: its selection and buffers are its own); some of them are made
        # in the middle of the history ("creation of new results")
        c["twins"], c["late"] = {}, []
        if rng.random() < 0.5:
            for _ in range(rng.randint(1, 2)):
                p = rng.choice(quantity_nodes(c))
                c["nodes"].append(list(c["nodes"][p]))
                c["twins"][str(len(c["nodes"]) - 1)] = p
                if rng.random() < 0.6:
                    c["late"].append(len(c["nodes"]) - 1)
            c["scenarios"].append("twin-result")
            if c["late"]:
                c["scenarios"].append("result-created-mid-history")
        if not change_ops and c["n_meas"] >= 2 and rng.random() < 0.5:
            # "a function of ... correlations": toggle histories also run on correlated sources,
            # incl. the boundary factors +1 / -1 the setters accept (one pair, or two disjoint
            # pairs: positive semi-definite by construction)
            idx = list(range(c["n_meas"]))
            rng.shuffle(idx)
            # prefer two sources that meet in one result
            dp = _deps(c)
            joint = [sorted(dp[n]) for n in quantity_nodes(c) if len(dp[n]) >= 2]
            if joint:
                first = rng.sample(rng.choice(joint), 2)
                idx = first + [x for x in idx if x not in first]
            pairs = [idx[0:2]] + ([idx[2:4]] if len(idx) >= 4 and rng.random() < 0.4 else [])
            for i, j in pairs:
                rr = rng.choice([1.0, -1.0]) if rng.random() < 0.45 else round(rng.uniform(-0.9, 0.9), 3)
                c["rho"].append([i, j, bits(rr)])
                c["scenarios"].append("correlated-sources:" + ("boundary" if abs(rr) == 1.0 else "regular"))
        c["ops_hist"] = gen_history(rng, c, n_ops, change_ops)
        c["units"] = [rng.choice(UNITS) for _ in range(c["n_meas"])]
        return c


def run_impl(q, case, np_seed=1, mc_size=50, string_forms=True):
    """execute the history on the real library; returns one observation per op"""
    reset(q)
    q.set_monte_carlo_sample_size(mc_size)
    np.random.seed(np_seed)
    import random as _pyrandom
    _pyrandom.seed(12345)     # results must not depend on the state of any random generator
    obs = []
    with warnings.catch_warnings():
        warnings.simplefilter("ignore")
        try:
            objs, meas = exprgen.build_impl(q, case)
            src_array = exprgen.LAST_ARRAY if case.get("via_array") else None
            for m, u in zip(meas, case.get("units", [])):
                m.unit = u
            for o in quantity_nodes(case):
                if objs[o] is not None:
                    objs[o].recalculate()          # units were assigned after construction
            made = [objs[o] for o in quantity_nodes(case) if objs[o] is not None]
            if len({id(x) for x in made}) != len(made):
                # judged through the reads first (own selection of one must not show on the
                # other); reported as such only when no read fails (run)
                SHARED[id(case)] = True
        except Exception as e:  # noqa: BLE001
            reset(q)
            return [{"t": "exception", "x": "{}: {} (while building the formulas)".format(
                type(e).__name__, e)}]
        vals = [unbits(b) for b in case["vals"]]
        errs = [unbits(b) for b in case["errs"]]
        rho = [list(r) for r in case["rho"]]
        other = q.Measurement(1.5, 0.2)
        k = 0
        for op in case["ops_hist"]:
            k += 1
            t = op[0]
            try:
                if t == "setValue":
                    v = unbits(op[2])
                    arr = src_array
                    if arr is not None and k % 3 != 1:
                        # the same request through the array the source is an entry of
                        arr[op[1] if k % 3 else op[1] - len(arr)] = int(v) if v.is_integer() and k % 2 else v
                    else:
                        meas[op[1]].value = int(v) if v.is_integer() and k % 2 else v
                    vals[op[1]] = v
                    obs.append({"t": "ok"})
                elif t == "setError":
                    meas[op[1]].error = unbits(op[2])
                    errs[op[1]] = unbits(op[2])
                    obs.append({"t": "ok"})
                elif t == "setRel":
                    meas[op[1]].relative_error = unbits(op[2])
                    errs[op[1]] = abs(vals[op[1]]) * float(unbits(op[2]))
                    obs.append({"t": "ok"})
                elif t == "setCorr":
                    if k % 2:
                        q.set_correlation(meas[op[1]], meas[op[2]], unbits(op[3]))
                    else:
                        meas[op[2]].set_correlation(meas[op[1]], unbits(op[3]))
                    rho = [r for r in rho if {r[0], r[1]} != {op[1], op[2]}] + [[op[1], op[2], op[3]]]
                    obs.append({"t": "ok"})
                elif t == "resetCorr":
                    q.reset_correlations()
                    rho = []
                    obs.append({"t": "ok"})
                elif t == "read":
                    d = objs[op[1]]
                    ob = {"t": "read", "v": float(d.value), "e": float(d.error),
                          "method": d.error_method.value, "unit": d.unit,
                          "rel": float(d.relative_error)}
                    if ob["method"] == "monte-carlo":
                        # the simulation the quantity keeps (public accessor; the default summary
                        # of a simulation is the mean and the sample standard deviation)
                        smp = np.asarray(d.mc.samples(), dtype=float)
                        ob["n"] = int(smp.size)
                        if smp.size >= 2:
                            ob["smean"] = float(np.mean(smp))
                            ob["sstd"] = float(np.std(smp, ddof=1))
                    obs.append(ob)
                elif t == "readDeriv":
                    d = objs[op[1]]
                    tgt = meas[op[2]] if op[2] < len(meas) else other
                    obs.append({"t": "num", "x": float(d.derivative(tgt))})
                elif t == "recalc":
                    d = objs[op[1]]
                    d.recalculate()
                    # the statement verbatim: the same formula built afresh from the CURRENT
                    # measurements (new objects), read under the derivative method
                    c2 = dict(case)
                    c2["vals"] = [bits(x) for x in vals]
                    c2["errs"] = [bits(x) for x in errs]
                    c2["rho"] = rho
                    saved = q.get_settings().error_method
                    _pyrandom.seed(12345)   # same generator state as when the session's objects were made
                    o2, m2 = exprgen.build_impl(q, c2)
                    for m, u in zip(m2, case.get("units", [])):
                        m.unit = u
                    o2, _ = _rebuild_with_units(q, c2, case.get("units", []))
                    f = o2[op[1]]
                    f.error_method = "derivative"
                    fresh = {"v": float(f.value), "e": float(f.error), "unit": f.unit,
                             "derivs": [float(f.derivative(m)) for m in _last_meas]}
                    mine = {"unit": d.unit, "derivs": [float(d.derivative(m)) for m in meas]}
                    if d.error_method.value == "derivative":
                        mine["v"], mine["e"] = float(d.value), float(d.error)
                    obs.append({"t": "recalc", "fresh": fresh, "mine": mine})
                elif t == "setGlobal":
                    if string_forms and k % 2:
                        q.set_error_method(op[1])
                    else:
                        q.set_error_method(q.ErrorMethod(op[1]))
                    obs.append({"t": "ok"})
                elif t == "setMethod":
                    if string_forms and k % 2:
                        objs[op[1]].error_method = op[2]
                    else:
                        objs[op[1]].error_method = q.ErrorMethod(op[2])
                    obs.append({"t": "ok"})
                elif t == "resetMethod":
                    if k % 2:
                        objs[op[1]].reset_error_method()
                    else:       # the documented marker for "follow the global setting"
                        objs[op[1]].error_method = q.ErrorMethod.AUTO
                    obs.append({"t": "ok"})
                elif t == "readFresh":
                    d = objs[op[1]]
                    ob = {"t": "read", "v": float(d.value), "e": float(d.error),
                          "method": d.error_method.value, "unit": d.unit,
                          "rel": float(d.relative_error)}
                    c2 = dict(case)
                    c2["vals"] = [bits(x) for x in vals]
                    c2["errs"] = [bits(x) for x in errs]
                    c2["rho"] = rho
                    _pyrandom.seed(12345)
                    o2, _ = _rebuild_with_units(q, c2, case.get("units", []))
                    f = o2[op[1]]
                    f.error_method = "derivative"
                    ob["fresh"] = {"v": float(f.value), "e": float(f.error)}
                    obs.append(ob)
                elif t == "create":
                    new = exprgen.build_node(q, case, objs, op[1])
                    if any(new is x for x in objs):
                        SHARED[id(case)] = True
                    objs[op[1]] = new
                    obs.append({"t": "ok"})
                elif t == "setSize":
                    objs[op[1]].mc.sample_size = op[2]
                    obs.append({"t": "ok"})
                elif t == "newGroup":
                    # unrelated new quantities and results are created (other readings), with every
                    # random generator in the state it had when the session started
                    _pyrandom.seed(12345)
                    c2 = dict(case)
                    c2["vals"] = [bits(unbits(b) * 1.25) for b in case["vals"]]
                    c2["errs"] = [bits(unbits(b) * 3.0) for b in case["errs"]]
                    c2["rho"], c2["raw"], c2["revise"] = [], {}, {}
                    try:
                        exprgen.build_impl(q, c2)
                    except Exception:  # noqa: BLE001
                        pass
                    obs.append({"t": "ok"})
                elif t == "fault":
                    # a computation that fails inside a derivative rule (division by a quantity whose
                    # central value is exactly 0); later answers must not depend on it
                    try:
                        z = q.Measurement(0.0, 0.1)
                        bad = (meas[0] + 1) / z
                        bad.derivative(meas[0])
                    except Exception:  # noqa: BLE001
                        pass
                    try:
                        _ = q.sqrt(meas[0] * 0 - 1).error
                    except Exception:  # noqa: BLE001
                        pass
                    obs.append({"t": "ok"})
                elif t == "touchMc":
                    _ = objs[op[1]].mc.confidence
                    obs.append({"t": "ok"})
                else:
                    raise ValueError(t)
            except Exception as e:  # noqa: BLE001
                obs.append({"t": "exception", "x": "{}: {}".format(type(e).__name__, e)})
    reset(q)
    return obs


_last_meas = []
SHARED = {}      # id(case) -> two operations of the case returned the same result object


def _rebuild_with_units(q, c2, units):
    """build afresh, units assigned BEFORE the formula is assembled"""
    global _last_meas
    vals = [unbits(b) for b in c2["vals"]]
    errs = [unbits(b) for b in c2["errs"]]
    meas = [q.Measurement(vals[i], errs[i], unit=(units[i] if i < len(units) else ""))
            for i in range(c2["n_meas"])]
    c3 = dict(c2)
    objs = _build_from_meas(q, c3, meas)
    for i, j, r in c2["rho"]:
        q.set_correlation(meas[i], meas[j], unbits(r))
    _last_meas = meas
    return objs, meas


def _build_from_meas(q, case, meas):
    objs = []
    for n in case["nodes"]:
        t = n[0]
        if t == "var":
            objs.append(meas[n[1]])
        elif t == "const":
            c = unbits(n[1])
            objs.append(int(c) if c.is_integer() and abs(c) < 100 and (n[1] % 3 == 0) else c)
        elif t == "un":
            op, a = n[1], objs[n[2]]
            objs.append(-a if op == "neg" else q.log(a) if op == "ln" else getattr(q, op)(a))
        elif t == "deg":
            objs.append(getattr(q, n[1])(objs[n[2]]))
        else:
            op, a, b = n[1], objs[n[2]], objs[n[3]]
            objs.append(q.log(a, b) if op == "log" else exprgen.PYOPS[op](a, b))
    return objs


def model_line(case):
    # a failed side computation is not an operation of the session state machine
    ops = []
    for o in case["ops_hist"]:
        if o[0] in ("fault", "newGroup", "create"):
            o = ["readDeriv", quantity_nodes(case)[0], 0]
        elif o[0] == "readFresh":
            o = ["read", o[1]]
        ops.append(o)
    return {"cmd": "world", "nodes": exprgen.model_nodes(case["nodes"]), "vals": case["vals"],
            "errs": case["errs"], "rho": case["rho"], "ops": ops}


def hist_str(case):
    return "{} ; history: {}".format(pretty(dict(case, root=quantity_nodes(case)[-1])),
                                     " ".join("{}({})".format(o[0], ",".join(
                                         str(unbits(x)) if isinstance(x, int) and x > 10 ** 6 else str(x)
                                         for x in o[1:])) for o in case["ops_hist"]))


def judge(what, case, obs, mod):
    """compare one executed history with the model's outputs; returns (failures, nontrivial, skipped)"""
    failures = []
    if "fail" in mod:
        return [{"signature": "model-error", "kind": "disagreement", "what": mod["fail"],
                 "input": hist_str(case)}], False, False
    outs = mod["outs"]
    tokens = {}     # (node, model token) -> impl (v, e)
    seen = {}       # node -> {impl (v,e): token}
    changed_since = False
    nontrivial = False
    last_change_nested = False
    nested = {i for i in quantity_nodes(case)
              if any(case["nodes"][j][0] in ("un", "bin", "deg") for j in case["nodes"][i][2:])}
    model_failed = False    # after a model disagreement only the independent oracle keeps judging
    # the harness's own reading of the selection rule (independent of library and model): a
    # quantity reports by its own selection if one is set, otherwise by the global setting
    own_sel, glob_sel = {}, "derivative"
    for k, (op, o, m) in enumerate(zip(case["ops_hist"], obs, outs)):
        where = "op {} {}".format(k, op[0])
        if o["t"] != "exception":
            if op[0] == "setGlobal":
                glob_sel = op[1]
            elif op[0] == "setMethod":
                own_sel[op[1]] = op[2]
            elif op[0] == "resetMethod":
                own_sel.pop(op[1], None)
        if op[0] in ("read", "readFresh") and o["t"] == "read" and not model_failed:
            want2 = own_sel.get(op[1], glob_sel)
            if o["method"] != want2:
                failures.append({"signature": "{}:effective-method".format(what),
                                 "oracle": "independent", "kind": "violation",
                                 "what": "{}: the quantity reports by {} but its own selection is {} "
                                         "and the global setting is {} (selection rule evaluated by "
                                         "the harness from the requests of the history)".format(
                                             where, o["method"], own_sel.get(op[1], "not set / reset"),
                                             glob_sel),
                                 "input": hist_str(case), "case": case, "op_index": k,
                                 "carries_history": True,
                                 "clause": "own selection if set, otherwise the global setting; "
                                           "returns to the global setting after a reset"})
                model_failed = True
                continue
        if model_failed and op[0] != "recalc":
            continue
        if o["t"] == "exception" and "propagated" in o["x"] and "negative" in o["x"] and any(
                abs(unbits(r_[2])) == 1.0 for r_ in (case.get("rho") or [])):
            # two sources correlated with a factor of exactly +1 or -1: the variance of a result in
            # which they cancel is exactly 0, the library's binary64 sum can come out at -1e-20, and it
            # then refuses to take the root -- rounding at a singular correlation, not judged
            return [], False, True
        if o["t"] == "exception":
            failures.append({"signature": "{}:exception:{}:{}".format(what, op[0], o["x"].split(":")[0]),
                             "what": "{} raised {}".format(where, o["x"]), "input": hist_str(case),
                             "case": case, "clause": "valid request must not fail"})
            break
        if op[0] in ("setValue", "setError", "setRel", "setCorr", "resetCorr"):
            changed_since = True
        if op[0] in ("read", "readFresh") and "rel" in o and all(
                math.isfinite(x) for x in (o["v"], o["e"], o["rel"])):
            want_rel = o["e"] / o["v"] if o["v"] != 0 else 0.0
            if not abs(o["rel"] - want_rel) <= 1e-12 * abs(want_rel) + 1e-300:
                failures.append({"signature": "{}:relative-error-read".format(what),
                                 "oracle": "independent", "kind": "violation",
                                 "what": "{}: relative_error reads {} but value and uncertainty read "
                                         "{} and {} (ratio {}) under the same method".format(
                                             where, o["rel"], o["v"], o["e"], want_rel),
                                 "input": hist_str(case), "case": case, "op_index": k,
                                 "clause": "reports results by the method selected"})
                model_failed = True
                continue
        if op[0] == "readFresh" and "fresh" in o and o["method"] == "derivative":
            f = o["fresh"]
            if not (abs(o["v"] - f["v"]) <= 1e-9 * (abs(o["v"]) + abs(f["v"])) + 1e-300 and
                    abs(o["e"] - f["e"]) <= 1e-9 * (abs(o["e"]) + abs(f["e"])) + 1e-300 + (
                        # a correlation of exactly +-1: a variance that cancels exactly is reproduced
                        # only up to the rounding of its terms (order of summation follows object ids)
                        1e-9 * abs(f["v"]) if any(abs(unbits(r_[2])) == 1.0
                                                  for r_ in (case.get("rho") or [])) else 0.0)):
                failures.append({"signature": "{}:{}".format(what, "stale-after-recalculate" if what == "c05"
                                                              else "derivative-read-not-afresh"),
                                 "oracle": "independent", "kind": "violation",
                                 "what": "{}: the derivative-method read (nothing changed since the last "
                                         "recalculation / creation) is ({}, {}); "
                                         "the same formula built afresh from the same measurements "
                                         "and correlations gives ({}, {})".format(
                                             where, o["v"], o["e"], f["v"], f["e"]),
                                 "input": hist_str(case), "case": case, "op_index": k,
                                 "clause": "recalculate brings value and uncertainty up to date"})
                break
        if op[0] in ("read", "readFresh"):
            want = "derivative" if m["t"] == "d" else "monte-carlo"
            if o["method"] != want:
                failures.append({"signature": "{}:effective-method".format(what),
                                 "what": "{}: quantity reports by {} but the selection says {}".format(
                                     where, o["method"], want), "input": hist_str(case), "case": case,
                                 "clause": "method selection"})
                model_failed = True
                continue
            if m["t"] == "d":
                mv, mvb = fb(m["v"])
                me, meb = fb(m["e"])
                if not (math.isfinite(mv) and math.isfinite(me)) or mvb > 1e-6 * abs(mv) + 1e-9:
                    return [], False, True
                if not close(o["v"], mv, mvb) or not close(o["e"], me, meb, slack=256.0):
                    failures.append({"signature": "{}:derivative-read".format(what),
                                     "what": "{}: derivative-method read differs from the model "
                                             "(memo / fresh formula of current measurements)".format(where),
                                     "input": hist_str(case), "case": case, "op_index": k,
                                     "impl": [o["v"], o["e"]], "expected": [mv, me],
                                     "clause": "derivative results are a function of formula, values, "
                                               "uncertainties, correlations"})
                    model_failed = True
                    continue
                if what == "c15" and op[1] in nested:
                    nontrivial = True
            else:
                if "smean" in o and all(math.isfinite(x) for x in (o["v"], o["e"], o["smean"], o["sstd"])) and not (
                        abs(o["v"] - o["smean"]) <= 1e-11 * abs(o["smean"]) + 1e-300 and
                        abs(o["e"] - o["sstd"]) <= 1e-9 * abs(o["sstd"]) + 1e-300):
                    failures.append({"signature": "{}:mc-read-not-the-simulation".format(what),
                                     "oracle": "independent", "kind": "violation",
                                     "what": "{}: the quantity reports by Monte Carlo but the pair it "
                                             "returns ({}, {}) is not mean and standard deviation of "
                                             "the simulation it keeps ({}, {}; {} draws)".format(
                                                 where, o["v"], o["e"], o["smean"], o["sstd"], o["n"]),
                                     "input": hist_str(case), "case": case, "op_index": k,
                                     "clause": "reports results by the method selected"})
                    model_failed = True
                    continue
                key = (op[1], m["s"])
                pair = (bits(o["v"]), bits(o["e"]))
                if key in tokens and tokens[key] != pair:
                    failures.append({"signature": "{}:mc-read-changed".format(what),
                                     "what": "{}: Monte Carlo read changed although the stored "
                                             "simulation should have been kept".format(where),
                                     "input": hist_str(case), "case": case, "op_index": k,
                                     "clause": "one simulation is kept"})
                    model_failed = True
                    continue
                prev = seen.setdefault(op[1], {})
                if key not in tokens and pair in prev and o["e"] > 1e-9 * abs(o["v"]) + 1e-300:   # else degenerate (x - x, x / x): all draws equal
                    failures.append({"signature": "{}:mc-not-redrawn".format(what),
                                     "what": "{}: Monte Carlo read is bit-identical to a read from "
                                             "an earlier simulation although a new one was due".format(where),
                                     "input": hist_str(case), "case": case, "op_index": k,
                                     "clause": "recalculation / sample-size change draws anew"})
                    model_failed = True
                    continue
                tokens[key] = pair
                prev[pair] = m["s"]
        elif op[0] == "readDeriv":
            dv, db = fb(m["x"])
            if math.isfinite(dv) and math.isfinite(db) and not close(o["x"], dv, db, slack=256.0):
                failures.append({"signature": "{}:derivative()".format(what),
                                 "what": "{}: derivative() differs from the derivative of the "
                                         "formula at the current values".format(where),
                                 "input": hist_str(case), "case": case, "op_index": k,
                                 "impl": o["x"], "expected": dv, "clause": "derivatives"})
                model_failed = True
                continue
        elif op[0] == "recalc":
            f, mine = o["fresh"], o["mine"]
            tol = lambda a, b: abs(a - b) <= 1e-9 * (abs(a) + abs(b)) + 1e-12  # noqa: E731
            bad = None
            if mine["unit"] != f["unit"]:
                bad = "unit {!r} vs afresh {!r}".format(mine["unit"], f["unit"])
            elif any(not tol(a, b) for a, b in zip(mine["derivs"], f["derivs"])):
                bad = "derivatives {} vs afresh {}".format(mine["derivs"], f["derivs"])
            elif "v" in mine and not tol(mine["v"], f["v"]):
                bad = "value {} vs afresh {}".format(mine["v"], f["v"])
            elif "e" in mine and not tol(mine["e"], f["e"]):
                bad = "uncertainty {} vs afresh {}".format(mine["e"], f["e"])
            if bad:
                failures.append({"signature": "{}:recalculate-not-fresh".format(what),
                                 "oracle": "independent", "kind": "violation",
                                 "what": "{}: after recalculate() {} (same formula built afresh from "
                                         "the current measurements)".format(where, bad),
                                 "input": hist_str(case), "case": case, "op_index": k,
                                 "clause": "recalculate brings value, uncertainty, derivatives, unit "
                                           "up to date"})
                break
            if changed_since and op[1] in nested:
                nontrivial = True
    return failures, nontrivial, False


def run(ctx, what, n_cases, n_ops, ref=False, cases=None):
    import qexpy as q
    change = what == "c05"
    if cases is None:
        cases = [gen_case(ctx.rng, ctx.rng.randint(max(5, n_ops // 3), n_ops), change)
                 for _ in range(n_cases)]
    seeds = [ctx.rng.randrange(1 << 30) for _ in cases]
    obs = [run_impl(q, c, np_seed=s) for c, s in zip(cases, seeds)]
    mods = ctx.model([model_line(c) for c in cases], ref=ref)
    failures, nontrivial, skipped = [], set(), 0
    dist = collections.Counter()
    samples = []
    for c, o, m, s in zip(cases, obs, mods, seeds):
        for op in c["ops_hist"]:
            dist["op:" + op[0]] += 1
        for sc in c.get("scenarios") or []:
            dist["scenario:" + sc] += 1
        fs, nt, sk = judge(what, c, o, m)
        if SHARED.pop(id(c), False) and not fs and not sk:
            fs.append({"signature": "{}:exception:{}:AssertionError".format(what, c["ops_hist"][0][0]),
                       "what": "two different operations returned the same result object",
                       "input": hist_str(c), "case": c, "clause": "creation of new results"})
        if sk:
            skipped += 1
            continue
        if not fs and what == "c15":
            # second execution: other random seed, other global sample size — derivative reads
            # must not move (tolerance: measurement ids differ, so summation order may)
            o2 = run_impl(q, c, np_seed=s + 17, mc_size=77, string_forms=False)
            for k, (a, b) in enumerate(zip(o, o2)):
                if a["t"] == "read" and a["method"] == "derivative" and b.get("t") == "read":
                    if not (abs(a["v"] - b["v"]) <= 1e-11 * abs(a["v"]) + 1e-300 and
                            abs(a["e"] - b["e"]) <= 1e-9 * abs(a["e"]) + 1e-300 + (
                                # exactly cancelling variance at a correlation of +-1: see judge()
                                1e-9 * abs(a["v"]) if any(abs(unbits(r_[2])) == 1.0
                                                          for r_ in (c.get("rho") or [])) else 0.0)):
                        fs.append({"signature": "c15:seed-dependent", "oracle": "independent",
                                   "kind": "violation",
                                   "what": "op {}: derivative-method result differs between two "
                                           "executions with different random seeds / sample sizes "
                                           "({} vs {})".format(k, (a["v"], a["e"]), (b["v"], b["e"])),
                                   "input": hist_str(c), "case": c, "op_index": k,
                                   "clause": "derivative results do not depend on the random state"})
                        break
        failures += fs
        if nt:
            nontrivial.add(canon_hash([c["nodes"], c["vals"], c["ops_hist"]]))
        if len(samples) < 3:
            samples.append(hist_str(c))
    return {"evaluations": len(cases), "nontrivial": nontrivial, "failures": failures,
            "samples": samples, "distribution": dict(dist), "skipped": skipped}

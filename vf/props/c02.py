"""C02 — Monte Carlo results are the moments of the formula under the stated normal model."""
import collections
import math
import warnings

import numpy as np

import exprgen
from common import bits, unbits, fb, close, canon_hash
from props import _mc as M
from props._exprcheck import pretty

ID = "C02"
SECTIONS = ["ops", "mc", "mccorr"]
LEAN_MODULES = ["QExPy.Props.C02"]
THEOREMS = [
    "QExPy.C02_sample_size",
    "QExPy.C02_chol2_correct", "QExPy.C02_chol2_none", "QExPy.C02_chol3_correct",
    "QExPy.C02_chol3_none", "QExPy.C02_witness_not_posdef", "QExPy.C02_chol_matrix",
    "QExPy.C02_shortcut_generated", "QExPy.C02_factor_cases",
    "QExPy.C02_sample_mean_transform", "QExPy.C02_sample_cov_transform",
    "QExPy.C02_standardised_draws", "QExPy.C02_draws_carry_correlations3", "QExPy.C02_affine_exact",
    "QExPy.C02_result_def", "QExPy.C02_result_moments", "QExPy.C02_discard", "QExPy.C02_kept_le",
    "QExPy.C02_scaleShift_moments", "QExPy.C02_dataSets_entry",
    "QExPy.C02_fallback_uncorrelated3",
]
RULE = ("seeded formula DAGs over 1-3 measurements (all operators, shared sub-expressions), "
        "sigma/|mu| in [1e-3, 0.5] or 0, and sources at exactly 0 +/- s or with sigma/|mu| up to 5, "
        "DOMAIN-EDGE formulas (sqrt, ln, log10, asin, acos, non-integer powers, two-argument log on "
        "either side, measured exponents: the argument -- a source, a product / quotient / sum / "
        "difference of two, shifted by a constant -- has its central value 0.3..2 sigma inside the "
        "domain, exactly on its boundary, or up to 1 sigma outside, so that a noticeable part of the draws "
        "is undefined and must be discarded), "
        "correlation structure in {none, random PD, near-singular "
        "PD, cancelling in sum, one pair of three, jointly non-PD, rho=+-1 for two sources}, sample size "
        "7/100/2000 set globally or per quantity (also pinned to the value the global size has at "
        "that moment); 40 % of the cases have a history before the judged read (range, size, "
        "strategy, recalculate, method switch, global size; LOOKING at the result: show_histogram "
        "with any bin count / range window, printing; BYSTANDERS: a figure with a fit or a function "
        "drawn, another quantity configured and simulated, a function run under a temporary sample "
        "size; sources and correlations CHANGED and the "
        "result recalculated under Monte Carlo or while switched to the derivative method -- the "
        "judged read is then compared with the model on the current values and on draws recorded "
        "after the recalculation); numpy.random.normal is recorded while the library runs and the recorded offset "
        "matrix is fed to the Lean pipeline (Cholesky, scale/shift, formula on every draw, discard "
        "non-finite, mean, n-1 standard deviation); mc.samples() compared element-wise and "
        "value/error compared under the FB running error bound; non-trivial = some non-zero "
        "off-diagonal correlation among the sources, or some draw discarded; distinct by hash of "
        "(formula, values, errors, correlations, size)")
ASSUMPTIONS = [
    "numpy.random.normal yields i.i.d. standard normal draws (RNG contract, trusted): the proofs "
    "and the correspondence are about what the library does GIVEN the draws",
    "'within sampling error of the exact moments' is proved only in the form of the exact "
    "sample-moment transform; for non-polynomial formulas agreement with the population moments is "
    "validated statistically only (thorough tier, labelled TEST not proof)",
    "theorems are over the reals; binary64 rounding, numpy/LAPACK/BLAS accuracy are compared under "
    "the conditioned tolerance, not proved",
    "correlation matrices whose smallest eigenvalue is within 1e-9 of 0 (other than rho=+-1 for two "
    "sources, which is exact) are skipped: the accept/reject decision of the factorisation sits on "
    "a rounding boundary there",
]
TRUSTED = ["modelled not verified: numpy element-wise functions, numpy.linalg.cholesky (LAPACK "
           "potrf), numpy.dot (BLAS), numpy.mean/std summation order, numpy.random.normal"]
LEVEL_TEXT = ("Lean 4 theorems about the Monte Carlo pipeline given the offsets (Cholesky "
              "correctness n<=3, exact sample-moment transform, result/discard definitions, affine "
              "exactness); pipeline tied to the code by a differential run on the recorded draws")
LEVEL_NOTE = ("partial: the RNG's distribution is trusted; agreement with population moments for "
              "non-polynomial formulas is a statistical test only")
TECHNIQUE = ("Lean 4 machine-checked proof over an executable model + differential correspondence on "
             "recorded random draws")

RAW_SELS = ["use_std_for_uncertainty", "use_error_on_mean_for_uncertainty",
            "use_error_weighted_mean_as_value", "use_propagated_error_for_uncertainty"]
SIZES_QUICK = [7, 7, 100, 100, 100, 2000]
SIZES_THOROUGH = [7, 100, 100, 1000, 2000, 10000]


# ---------------------------------------------------------------------------------------------
# case generation

def used_vars(case):
    nodes = case["nodes"]
    seen, out = set(), []

    def walk(i):
        n = nodes[i]
        if n[0] in ("var", "pair"):
            if n[1] not in seen:
                seen.add(n[1])
                out.append(n[1])
        elif n[0] != "const":
            for j in n[2:]:
                walk(j)
    walk(case["root"])
    return out


def random_pd(rng, n, near=False):
    while True:
        if near:
            u = [rng.uniform(0.5, 1) * rng.choice([1, -1]) for _ in range(n)]
            d = 10 ** rng.uniform(-3, -2)
            C = [[u[i] * u[j] + (d if i == j else 0) for j in range(n)] for i in range(n)]
        else:
            A = [[rng.gauss(0, 1) for _ in range(n)] for _ in range(n)]
            C = [[sum(A[i][k] * A[j][k] for k in range(n)) + (0.2 if i == j else 0)
                  for j in range(n)] for i in range(n)]
        R = [[C[i][j] / math.sqrt(C[i][i] * C[j][j]) for j in range(n)] for i in range(n)]
        for i in range(n):
            R[i][i] = 1.0
            for j in range(i):
                R[i][j] = R[j][i]
        if M.min_eig(R) > 1e-5 and all(abs(R[i][j]) < 1 for i in range(n) for j in range(n) if i != j):
            return R


def random_nonpd3(rng):
    while True:
        mags = [rng.uniform(0.75, 0.99) for _ in range(3)]
        signs = rng.choice([(1, 1, -1), (1, -1, 1), (-1, 1, 1), (-1, -1, -1)])
        r01, r12, r02 = (m * s for m, s in zip(mags, signs))
        R = [[1, r01, r02], [r01, 1, r12], [r02, r12, 1]]
        if M.min_eig(R) < -1e-2:
            return R


CANCEL_R = [0.5, 0.25, 0.375, 0.625, 0.125, 0.6875, 0.0625]


def cancelling3(rng):
    """three pairwise correlations, not all zero, whose SUM is exactly 0 in binary64 (dyadic
    numbers): (r, -r, 0) in any position, or (r1, r2, -(r1+r2)).  Returns (R, positive definite?)"""
    while True:
        t = rng.random()
        if t < 0.55:
            r = rng.choice(CANCEL_R) * rng.choice([1, -1])
            trip = [r, -r, 0.0]
        elif t < 0.85:
            r1 = rng.choice(CANCEL_R) * rng.choice([1, -1])
            r2 = rng.choice(CANCEL_R) * rng.choice([1, -1])
            trip = [r1, r2, -(r1 + r2)]
        else:   # cancelling AND jointly not positive definite: the fallback (warning) is required
            r = rng.choice([0.75, 0.875, 0.9375]) * rng.choice([1, -1])
            trip = [r, -r, 0.0]
        rng.shuffle(trip)
        r01, r02, r12 = trip
        if not any(trip) or any(abs(x) >= 1 for x in trip) or r01 + r02 + r12 != 0.0:
            continue
        R = [[1.0, r01, r02], [r01, 1.0, r12], [r02, r12, 1.0]]
        ev = M.min_eig(R)
        if abs(ev) < 1e-3:
            continue
        return R, ev > 0


PRE_KINDS = ["range", "range", "range-noread", "size", "size-reset", "mode", "custom", "conf",
             "recalc", "method", "global-recalc", "read", "edit-recalc", "edit-recalc", "pin-global",
             "bystander", "bystander", "display", "print"]


def gen_edit(rng, n_meas, errs, raw):
    """one change of a source measurement: [variable, field, number]"""
    v = rng.randrange(n_meas)
    if str(v) in raw:        # a repeated measurement: another statistic, or an explicit uncertainty
        f = rng.choice(["use_std_for_uncertainty", "use_error_on_mean_for_uncertainty", "error"])
        return [v, f, rng.choice([0.5, 0.75, 1.5, 2.0, 3.0])]
    if errs[v] == 0:         # an exact source stays exact (its correlations are gated to 0)
        return [v, "value", rng.choice([0.9, 0.95, 1.05, 1.1, 1.25])]
    f = rng.choice(["value", "error", "error", "relerr", "both"])
    if f == "relerr":
        return [v, f, rng.choice([0.01, 0.03, 0.125, 0.3])]
    return [v, f, rng.choice([0.5, 0.75, 0.9, 1.1, 1.5, 2.0, 3.0])]


def gen_prelude(rng, case=None, force=None):
    """a short history on the result BEFORE the judged read; each one ends in the plain default
    configuration C02 speaks about (mean-and-std strategy, no range, the configured size).
    `force` puts one step of that kind at a random position of a 1-3 step history."""
    if force is None and rng.random() < 0.6:
        return []
    out = []
    steps = rng.choice([1, 1, 2, 3])
    forced_at = rng.randrange(steps) if force else -1
    for i in range(steps):
        k = force if i == forced_at else rng.choice(PRE_KINDS)
        if k in ("edit-recalc", "pin-global") and case is None:
            k = "recalc"
        if k == "edit-recalc":
            # Monte Carlo read, [switch to the derivative method], change sources, recalculate(),
            # [switch back]: the judged read must be a NEW simulation of the CURRENT normal model
            errs = [unbits(b) for b in case["errs"]]
            edits = [gen_edit(rng, case["n_meas"], errs, case.get("raw", {}))
                     for _ in range(rng.choice([1, 1, 2]))]
            if case.get("rho") and rng.random() < 0.5:
                # the correlations between the sources change too: every one of them is set again,
                # scaled by t in [0, 1] (t R + (1 - t) I stays positive definite when R is; a jointly
                # non-positive-definite assignment may become positive definite -- the model decides)
                edits.append([-1, "rho-scale", rng.choice([0.5, 0.25, 0.0, 0.75])])
            how = rng.choice(["mc", "switch", "switch", "switch-other"])
            out.append([k, how, edits, rng.random() < 0.5, rng.random() < 0.3])
            continue
        if k == "pin-global":
            # the quantity is pinned to the size that is the global one at that moment, then the
            # global size changes: the quantity keeps ITS size
            out.append([k, rng.choice([6, 13, 40]), rng.random() < 0.6, rng.random() < 0.8])
            continue
        if k == "bystander":
            # something is done to OTHER objects (a figure drawn, another quantity simulated, a
            # function run under a temporary sample size) between the configuration and the read:
            # [kind, what, read before?, recalculate() after?, global size set just before (or 0)]
            out.append([k, rng.choice(M.BYSTANDERS), rng.random() < 0.5, rng.random() < 0.6,
                        rng.choice([0, 0, 6, 13, 40])])
            continue
        if k == "display":
            # the histogram of the result is looked at: [kind, bins, call form, window?, read before?,
            # strategy in force while looking]
            out.append([k, rng.choice([100, 20, 10, 30, 250]), rng.choice(["positional", "keyword"]),
                        rng.random() < 0.4, rng.random() < 0.5, rng.choice(["mean", "mean", "mode"])])
            continue
        if k == "print":
            out.append([k, rng.choice(["str", "repr", "format"])])
            continue
        if k in ("range", "range-noread"):
            a, b = sorted([rng.uniform(0.05, 0.95), rng.uniform(0.05, 0.95)])
            if rng.random() < 0.5:
                a, b = rng.uniform(0.3, 0.45), rng.uniform(0.55, 0.7)
            out.append([k, a, b])
        elif k in ("size", "size-reset"):
            out.append([k, rng.choice([5, 9, 60])])
        elif k == "mode":
            out.append([k, rng.choice([0.5, 0.68, 0.9, 1.0])])
        elif k == "custom":
            out.append([k, round(rng.uniform(-5, 5), 2), round(rng.uniform(0, 2), 2)])
        elif k == "conf":
            out.append([k, rng.choice([0.5, 0.9, 0.95])])
        elif k == "global-recalc":
            out.append([k, rng.choice([6, 13, 40])])
        else:
            out.append([k])
    return out


def gen_overflow_case(rng, sizes):
    """exp(m)/1e10 (or its negative) with m around 709: part of the draws overflow to +-inf, which
    must be discarded like NaN"""
    mu = rng.uniform(707.5, 711.5)
    sg = rng.uniform(1.0, 4.0)
    nodes = [["var", 0], ["un", "exp", 0], ["const", bits(1e10)], ["bin", "div", 1, 2]]
    ops = ["exp", "div"]
    if rng.random() < 0.5:
        nodes.append(["un", "neg", 3])
        ops.append("neg")
    N = rng.choice(sizes)
    per = N if rng.random() < 0.5 else 0
    return {"nodes": nodes, "root": len(nodes) - 1, "vals": [bits(mu)], "errs": [bits(sg)],
            "rho": [], "n_meas": 1, "ops": ops, "ref_value": bits(0.0), "kind": "overflow",
            "raw": {}, "per": per, "global": rng.choice([5, 11, 50]) if per else N,
            "method": rng.choice(["global", "value"]), "npseed": rng.randrange(2 ** 32),
            "pre": gen_prelude(rng)}


SAFE_OPS = ["add", "sub", "mul", "neg", "exp", "sin", "cos", "atan"]     # defined everywhere


def gen_case(rng, sizes, force_kind=None, force_pre=None):
    if force_kind == "overflow":
        return gen_overflow_case(rng, sizes)
    if force_kind == "zerocentre":
        return gen_zerocentre_case(rng, sizes, force_pre)
    if force_kind == "domain-edge":
        return gen_domain_case(rng, sizes, force_pre)
    need3 = force_kind in ("near", "nonpd", "partial", "zerosigma", "cancel")
    target = 3 if need3 else (2 if force_kind == "unit" else rng.choice([1, 2, 2, 3, 3, 3]))
    while True:
        c = exprgen.gen_case(rng, max_ops=5, max_meas=3, allow_pairs=False, allow_corr=False)
        if c is not None and c["n_meas"] == target:
            break
    # every measurement becomes a source: the unused ones are attached with + - *
    for v in range(c["n_meas"]):
        if v not in used_vars(c):
            c["nodes"].append(["bin", rng.choice(["add", "sub", "mul"]), c["root"], v])
            c["root"] = len(c["nodes"]) - 1
    n = c["n_meas"]
    vals = [unbits(b) for b in c["vals"]]
    errs = []
    for v in vals:
        zero = (not need3) and force_kind != "unit" and rng.random() < 0.08
        errs.append(0.0 if zero else abs(v) * 10 ** rng.uniform(-3, math.log10(0.5)))
    if force_kind == "zerosigma":   # one exact source next to two correlated ones
        errs[rng.randrange(3)] = 0.0
    c["errs"] = [bits(e) for e in errs]
    used = [i for i in used_vars(c) if errs[i] > 0]
    k = len(used)
    kinds = ["none"]
    if k == 2:
        kinds = ["none", "pd", "pd", "unit"]
    if k == 3:
        kinds = ["none", "pd", "pd", "near", "nonpd", "nonpd", "partial", "cancel"]
    kind = force_kind if force_kind in kinds else rng.choice(kinds)
    if force_kind == "zerosigma":
        kind = "pd"
    rho = []
    if kind in ("pd", "near"):
        R = random_pd(rng, k, near=(kind == "near")) if k == 3 else \
            [[1, 0], [0, 1]]
        if k == 2:
            r = rng.uniform(-0.97, 0.97)
            R = [[1, r], [r, 1]]
        rho = [[used[i], used[j], bits(R[i][j])] for i in range(k) for j in range(i + 1, k)]
    elif kind == "nonpd":
        R = random_nonpd3(rng)
        rho = [[used[i], used[j], bits(R[i][j])] for i in range(3) for j in range(i + 1, 3)]
    elif kind == "cancel":    # off-diagonal entries non-zero but summing to exactly 0
        R, _ = cancelling3(rng)
        rho = [[used[i], used[j], bits(R[i][j])] for i in range(3) for j in range(i + 1, 3)
               if R[i][j] != 0]
    elif kind == "unit":
        rho = [[used[0], used[1], bits(rng.choice([1.0, -1.0]))]]
    elif kind == "partial":   # only one pair of three correlated
        i, j = rng.sample(range(3), 2)
        rho = [[used[i], used[j], bits(rng.uniform(-0.95, 0.95))]]
    c["rho"] = rho
    c["kind"] = "zerosigma" if force_kind == "zerosigma" else kind
    # some sources are REPEATED measurements (raw data array): value = mean, uncertainty = error on
    # the mean, while .std is the spread of the raw data — the draws must use the uncertainty
    raw = {}
    for v in range(n):
        if errs[v] > 0 and rng.random() < 0.25:
            m = rng.randint(3, 8)
            t = [rng.gauss(0, 1) for _ in range(m)]
            tm = sum(t) / m
            t = [x - tm for x in t]
            sd = math.sqrt(sum(x * x for x in t) / (m - 1)) or 1.0
            raw[str(v)] = [bits(vals[v] + errs[v] * math.sqrt(m) * x / sd) for x in t]
    c["raw"] = raw
    # half of the repeated-measurement sources carry individual uncertainties and a selector
    # history (use_std / use_error_weighted_mean / use_propagated_error / ...): the draws must be
    # centred on the value IN USE and scaled by the uncertainty IN USE, whichever statistic that is
    rawsel = {}
    for v in raw:
        if rng.random() < 0.6:
            m = len(raw[v])
            es = [rng.choice([0.5, 1.0, 2.0, 0.25]) * abs(errs[int(v)]) * math.sqrt(m) for _ in range(m)]
            sels = [rng.choice(RAW_SELS) for _ in range(rng.choice([1, 1, 2, 3]))]
            rawsel[v] = {"es": [bits(e) for e in es], "sels": sels}
    c["rawsel"] = rawsel
    N = rng.choice(sizes)
    c["per"] = N if rng.random() < 0.5 else 0
    c["global"] = rng.choice([5, 11, 50]) if c["per"] else N
    c["method"] = rng.choice(["global", "value"])
    c["npseed"] = rng.randrange(2 ** 32)
    if force_pre == "pin-global" and rng.random() < 0.5:
        # the per-quantity size equals the global one from the start
        c["per"] = c["global"] = N
    c["pre"] = gen_prelude(rng, c, force=force_pre)
    return c


def gen_zerocentre_case(rng, sizes, force_pre=None):
    """'all central values and uncertainties': a source at EXACTLY 0 with a positive uncertainty,
    or with an uncertainty larger than its value (sigma/|mu| up to 5) -- formulas of operators that
    are defined everywhere, so that every draw counts"""
    while True:
        c = exprgen.gen_case(rng, max_ops=4, max_meas=3, allow_pairs=False, allow_corr=False,
                             ops=SAFE_OPS)
        if c is not None:
            break
    for v in range(c["n_meas"]):
        if v not in used_vars(c):
            c["nodes"].append(["bin", rng.choice(["add", "sub", "mul"]), c["root"], v])
            c["root"] = len(c["nodes"]) - 1
    n = c["n_meas"]
    vals = [unbits(b) for b in c["vals"]]
    errs = []
    z = rng.randrange(n)
    for i in range(n):
        if i == z or rng.random() < 0.3:
            if rng.random() < 0.6:
                vals[i] = rng.choice([0.0, 0.0, -0.0])
                errs.append(rng.choice([0.5, 1.0, 0.1, round(rng.uniform(0.05, 2), 3)]))
            else:
                vals[i] = rng.choice([1, -1]) * 10 ** rng.uniform(-2, 0.3)
                errs.append(abs(vals[i]) * rng.uniform(0.5, 5))
        elif vals[i] == 0:
            # a reading of exactly 0 handed over by the formula generator: it carries an uncertainty
            # too (|0| * ratio would make it an exact number, which takes no correlation)
            errs.append(rng.choice([0.5, 1.0, 0.1, round(rng.uniform(0.05, 2), 3)]))
        else:
            errs.append(abs(vals[i]) * 10 ** rng.uniform(-3, math.log10(0.5)))
    c["vals"] = [bits(v) for v in vals]
    c["errs"] = [bits(e) for e in errs]
    used = [i for i in used_vars(c) if errs[i] > 0]
    rho = []
    if len(used) == 2 and rng.random() < 0.5:
        rho = [[used[0], used[1], bits(rng.uniform(-0.9, 0.9))]]
    elif len(used) == 3 and rng.random() < 0.5:
        R = random_pd(rng, 3)
        rho = [[used[i], used[j], bits(R[i][j])] for i in range(3) for j in range(i + 1, 3)]
    c["rho"] = rho
    c["kind"] = "zerocentre"
    c["raw"], c["rawsel"] = {}, {}
    N = rng.choice(sizes)
    c["per"] = N if rng.random() < 0.5 else 0
    c["global"] = rng.choice([5, 11, 50]) if c["per"] else N
    c["method"] = rng.choice(["global", "value"])
    c["npseed"] = rng.randrange(2 ** 32)
    c["pre"] = gen_prelude(rng, c, force=force_pre)
    return c


# operators with a restricted domain: name -> (how the node is built from the argument node `a`,
# boundaries as (b, +1: defined above b / -1: defined below b))
EDGE_OPS = {
    "sqrt": [(0.0, 1)], "ln": [(0.0, 1)], "log10": [(0.0, 1)],
    "asin": [(1.0, -1), (-1.0, 1)], "acos": [(1.0, -1), (-1.0, 1)],
    "pow-const": [(0.0, 1)],        # arg ** 0.5, 1.5, -0.5, 2.5, 0.25
    "log-arg": [(0.0, 1)],          # log(base constant, arg)
    "log-base": [(0.0, 1)],         # log(arg, x constant)
    "pow-measured": [(0.0, 1)],     # arg ** (measured exponent)
    "log-measured-base": [(0.0, 1)],  # log(measured base, arg)
}
EDGE_INNER = ["m0", "m0", "m0", "m0*m1", "m0/m1", "m0+m1", "m0-m1", "c*m0"]
EDGE_OUTER = ["none"] * 8 + ["add-source", "add-source", "mul-const", "neg", "sin", "square", "recip",
                             "atan", "sub-own-source", "exp"]


def gen_domain_case(rng, sizes, force_pre=None):
    """'draws on which the formula is undefined are discarded': the argument of an operator with a
    restricted domain is centred d sigma from the boundary of the domain (d in [0.3, 2] inside,
    0 = on the boundary, down to -1 = outside), sigma being the first-order spread of the argument;
    so 2 ... 85 % of the draws are undefined"""
    while True:
        op = rng.choice(sorted(EDGE_OPS))
        inner = rng.choice(EDGE_INNER)
        nsrc = 1 if inner in ("m0", "c*m0") else 2
        vals, errs = [], []
        for i in range(nsrc):
            v = rng.choice([1, -1]) * 10 ** rng.uniform(-0.5, 0.7)
            r = 10 ** rng.uniform(-2, -0.5)
            if inner == "m0/m1" and i == 1:
                v = rng.choice([1, -1]) * rng.uniform(0.5, 4)
                r = 10 ** rng.uniform(-2.5, -1)          # the denominator stays away from 0
            vals.append(v)
            errs.append(abs(v) * r)
        rho_in = rng.uniform(-0.9, 0.9) if nsrc == 2 and rng.random() < 0.4 else 0.0
        cst = rng.choice([2.0, 0.5, -1.5, 3.0, -0.25])
        if inner == "m0":
            u, g = vals[0], [1.0]
        elif inner == "c*m0":
            u, g = cst * vals[0], [cst]
        elif inner == "m0*m1":
            u, g = vals[0] * vals[1], [vals[1], vals[0]]
        elif inner == "m0/m1":
            u, g = vals[0] / vals[1], [1 / vals[1], -vals[0] / vals[1] ** 2]
        elif inner == "m0+m1":
            u, g = vals[0] + vals[1], [1.0, 1.0]
        else:
            u, g = vals[0] - vals[1], [1.0, -1.0]
        var = sum((g[i] * errs[i]) ** 2 for i in range(nsrc))
        if nsrc == 2:
            var += 2 * rho_in * g[0] * g[1] * errs[0] * errs[1]
        if var <= 0:
            continue
        su = math.sqrt(var)
        if su < 1e-3 * max(abs(x) for x in vals) or su > 0.6:
            continue          # cancelling spread / an argument wider than the domains at hand
        b, side = rng.choice(EDGE_OPS[op])
        t = rng.random()
        where, d = ("inside", rng.uniform(0.3, 2.0)) if t < 0.6 else \
            ("on-boundary", 0.0) if t < 0.75 else ("outside", -rng.uniform(0.2, 1.0))
        target = b + side * d * su
        nodes = [["var", i] for i in range(nsrc)]
        ops = []
        if inner == "m0" and rng.random() < 0.6:
            vals[0] = target      # the source itself sits at the chosen distance (0 +/- s, 1 +/- s, ...)
            a = 0
        else:
            if inner == "c*m0":
                nodes += [["const", bits(cst)], ["bin", "mul", nsrc, 0]]
                ops.append("mul")
            elif inner != "m0":
                o2 = {"m0*m1": "mul", "m0/m1": "div", "m0+m1": "add", "m0-m1": "sub"}[inner]
                nodes.append(["bin", o2, 0, 1])
                ops.append(o2)
            a = len(nodes) - 1
            nodes += [["const", bits(target - u)], ["bin", "add", a, len(nodes)]]
            ops.append("add")
            a = len(nodes) - 1
        n_meas = nsrc
        if op in ("sqrt", "ln", "log10", "asin", "acos"):
            nodes.append(["un", op, a])
            ops.append(op)
        elif op == "pow-const":
            nodes += [["const", bits(rng.choice([0.5, 1.5, -0.5, 2.5, 0.25]))], ["bin", "pow", a, len(nodes)]]
            ops.append("pow")
        elif op == "log-arg":
            nodes += [["const", bits(rng.choice([2.0, 10.0, 0.5]))], ["bin", "log", len(nodes), a]]
            ops.append("log")
        elif op == "log-base":
            nodes += [["const", bits(rng.choice([2.0, 5.0, 0.5]))], ["bin", "log", a, len(nodes)]]
            ops.append("log")
        else:       # a further source as exponent / as base
            if n_meas >= 3:
                continue
            if op == "pow-measured":
                vals.append(rng.choice([0.5, 1.5, 2.5, -0.5]) + rng.uniform(-0.1, 0.1))
                errs.append(rng.uniform(0.01, 0.1))
                nodes = [["var", n_meas]] + [_shift_node(x, n_meas) for x in nodes]
                nodes.append(["bin", "pow", a + 1, 0])
                ops.append("pow")
            else:
                vals.append(rng.choice([2.0, 10.0, 3.0]) * rng.uniform(0.9, 1.1))
                errs.append(vals[-1] * rng.uniform(0.005, 0.03))
                nodes = [["var", n_meas]] + [_shift_node(x, n_meas) for x in nodes]
                nodes.append(["bin", "log", 0, a + 1])
                ops.append("log")
            # node 0 is the new source (variable index n_meas); the earlier variables keep theirs
            n_meas += 1
        e = len(nodes) - 1
        outer = rng.choice(EDGE_OUTER)
        if outer == "add-source":
            if n_meas >= 3:
                continue
            vals.append(rng.choice([1, -1]) * rng.uniform(0.3, 3))
            errs.append(abs(vals[-1]) * 10 ** rng.uniform(-2, -0.7))
            nodes += [["var", n_meas], ["bin", rng.choice(["add", "mul"]), e, len(nodes)]]
            ops.append(nodes[-1][1])
            n_meas += 1
        elif outer == "mul-const":
            nodes += [["const", bits(rng.choice([2.0, -3.0, 0.5, 10.0]))], ["bin", "mul", len(nodes), e]]
            ops.append("mul")
        elif outer == "recip":
            nodes += [["const", bits(1.0)], ["bin", "div", len(nodes), e]]
            ops.append("div")
        elif outer == "square":
            nodes.append(["bin", "mul", e, e])
            ops.append("mul")
        elif outer == "sub-own-source":
            src = next(i for i, x in enumerate(nodes) if x[0] == "var")
            nodes.append(["bin", "sub", e, src])
            ops.append("sub")
        elif outer != "none":
            nodes.append(["un", outer, e])
            ops.append(outer)
        # variable indices must be declared in order 0..n-1 as "var" nodes somewhere: they are
        break
    N = rng.choice([x for x in sizes if x >= (100 if where == "outside" else 7)] or [100])
    # correlations: the pair inside the argument, and now and then the bystander sources too
    rho = []
    if rho_in:
        rho.append([0, 1, bits(rho_in)])
    if n_meas == 3 and rng.random() < 0.4:
        R = random_pd(rng, 3)
        rho = [[i, j, bits(R[i][j])] for i in range(3) for j in range(i + 1, 3)]
    elif n_meas == 2 and not rho_in and nsrc == 1 and rng.random() < 0.3:
        rho = [[0, 1, bits(rng.uniform(-0.9, 0.9))]]
    c = {"nodes": nodes, "root": len(nodes) - 1, "vals": [bits(v) for v in vals],
         "errs": [bits(x) for x in errs], "rho": rho, "n_meas": n_meas, "ops": ops,
         "ref_value": bits(0.0), "kind": "domain-edge", "raw": {}, "rawsel": {},
         "edge": {"op": op, "argument": inner, "boundary": b, "side": side, "where": where,
                  "distance_in_sigma": d, "outer": outer}}
    c["per"] = N if rng.random() < 0.5 else 0
    c["global"] = rng.choice([5, 11, 50]) if c["per"] else N
    c["method"] = rng.choice(["global", "value"])
    c["npseed"] = rng.randrange(2 ** 32)
    c["pre"] = gen_prelude(rng, c, force=force_pre) if (force_pre or rng.random() < 0.5) else []
    return c


def _shift_node(n, new_var):
    """re-index a node after one node was put in front of the list (operand references + 1)"""
    if n[0] in ("var", "const", "pair"):
        return list(n)
    return n[:2] + [j + 1 for j in n[2:]]


# ---------------------------------------------------------------------------------------------
# running the library with recorded draws

def apply_edit(m, ed):
    """change one source measurement (value, uncertainty, relative uncertainty, statistic in use)"""
    _, field, x = ed
    if field == "value":
        m.value = float(m.value) * x
    elif field == "error":
        m.error = float(m.error) * x
    elif field == "relerr":
        m.relative_error = x
    elif field == "both":
        m.value = float(m.value) * (2.0 - x if x < 2 else 1.25)
        m.error = float(m.error) * x
    else:
        getattr(m, field)()


def run_prelude(q, r, case, meas=None, cap=None, wlist=None, by=None):
    """the history before the judged read; returns the (per-quantity, global) sample size that is
    configured at the end, whether an empty simulation was met, and `due`: the number of recorded
    draw calls at the last recalculate() that followed a change of a source (the stored simulation
    must have been drawn after that point).  Every variant ends with the mean-and-std strategy and
    no range."""
    per, glob = case["per"], case["global"]
    due = 0
    rho_now = [[i, j, unbits(b)] for i, j, b in case["rho"]]     # the correlations in force
    wmark = [0]
    ev = r._DerivedValue__evaluators["monte-carlo"]
    empty = [False]

    def seen_empty():
        # a simulation in which EVERY draw is undefined leaves an empty stored set; the library then
        # simulates again on each access and a pair cached from the empty set (nan) can survive:
        # such cases are skipped (counted), not judged — see notes/C02.md
        if ev.raw_samples.size == 0 and getattr(r.error_method, "value", "") == "monte-carlo":
            empty[0] = True

    def read():
        _ = r.value
        seen_empty()      # checked between the two reads: the second one would simulate again
        _ = r.error
        seen_empty()
    mc_on = lambda: setattr(r, "error_method", q.ErrorMethod.MONTE_CARLO)  # noqa: E731
    for op in case.get("pre", []):
        k = op[0]
        if k in ("range", "range-noread"):
            s = r.mc.samples()
            s = s[np.isfinite(s)]
            if len(s) >= 4 and float(np.min(s)) < float(np.max(s)):
                lo, hi = float(np.quantile(s, op[1])), float(np.quantile(s, op[2]))
            else:
                lo, hi = -1.0, 1.0
            if k == "range":
                read()
            r.mc.set_xrange(lo, hi)
            if k == "range":
                read()
            r.mc.set_xrange()                 # range removed: plain default configuration again
        elif k == "size":
            r.mc.sample_size = op[1]
            read()
            r.mc.sample_size = per            # assigning a size (0 = follow the global one) redraws
        elif k == "size-reset":
            r.mc.sample_size = op[1]
            read()
            r.mc.reset_sample_size()          # keeps the stored simulation (C16 notes) ...
            r.recalculate()                   # ... so the result is recalculated explicitly
            per = 0
        elif k == "mode":
            r.mc.use_mode_with_confidence(op[1])
            try:
                read()
            except ValueError:
                pass      # numpy.histogram cannot bin samples that are equal up to an ulp (C16's subject)
            r.mc.use_mean_and_std()
        elif k == "custom":
            r.mc.use_custom_value_and_error(op[1], op[2])
            read()
            r.mc.use_mean_and_std()
        elif k == "conf":
            r.mc.confidence = op[1]
            read()
        elif k == "recalc":
            read()
            r.recalculate()
        elif k == "method":
            read()
            # the derivative method refuses some inputs on purpose (negative quadrature sum for a
            # jointly non-positive-definite assignment): not C02's subject, the read is not judged
            if case["method"] == "global":
                q.set_error_method(q.ErrorMethod.DERIVATIVE)
                try:
                    read()
                except Exception:  # noqa: BLE001
                    pass
                q.set_error_method(q.ErrorMethod.MONTE_CARLO)
            else:
                r.error_method = q.ErrorMethod.DERIVATIVE
                try:
                    read()
                except Exception:  # noqa: BLE001
                    pass
                mc_on()
        elif k == "global-recalc":
            read()
            glob = op[1]
            M.set_global(q, glob)
            r.recalculate()
        elif k == "read":
            read()
            _ = r.mc.samples()
        elif k == "edit-recalc":
            _, how, edits, read_first, read_deriv = op
            if read_first:
                read()
            else:
                _ = r.mc.samples()
            # "switch": the route that takes effect on r (its own setting if it has one, else the
            # global one); "switch-other": the other route (r's own setting from then on, or a
            # global switch that r, having its own Monte Carlo setting, does not follow)
            own = case["method"] == "value"
            via_own = (how == "switch") == own if how != "mc" else None
            if how != "mc":
                if via_own:
                    r.error_method = q.ErrorMethod.DERIVATIVE
                else:
                    q.set_error_method(q.ErrorMethod.DERIVATIVE)
            for ed in edits:
                if ed[1] == "rho-scale":
                    for ent in rho_now:
                        if float(meas[ent[0]].error) == 0 or float(meas[ent[1]].error) == 0:
                            continue      # an exact source takes no correlation (the library refuses)
                        ent[2] = ent[2] * ed[2]
                        q.set_correlation(meas[ent[0]], meas[ent[1]], ent[2])
                else:
                    apply_edit(meas[ed[0]], ed)
            r.recalculate()
            due = len(cap.calls) if cap is not None else 0
            if any(ed[1] == "rho-scale" for ed in edits) and wlist is not None:
                wmark[0] = len(wlist)     # warnings about the OLD correlation assignment do not count
            if how != "mc":
                if read_deriv:
                    try:      # the derivative method refuses some inputs on purpose (see "method")
                        read()
                    except Exception:  # noqa: BLE001
                        pass
                if via_own:
                    mc_on()
                else:
                    q.set_error_method(q.ErrorMethod.MONTE_CARLO)
        elif k == "bystander":
            _, what, read_first, recalc, newglob = op
            if newglob:
                glob = newglob if newglob != glob else newglob + 1
                M.set_global(q, glob)
            if read_first:
                read()
            if cap is not None:
                cap.paused = True         # simulations of OTHER objects are not this result's draws
            try:
                by.run(what)
            finally:
                if cap is not None:
                    cap.paused = False
            if recalc or newglob:
                # (a change of the global size alone keeps an existing simulation -- C16 notes -- so
                # it is always followed by a recalculation here, as in "global-recalc")
                r.recalculate()
        elif k == "display":
            _, bins, form, window, read_first, strat = op
            import matplotlib.pyplot as plt
            if strat == "mode":
                r.mc.use_mode_with_confidence(0.68)
            if read_first:
                try:
                    read()
                except ValueError:
                    pass      # see "mode"
            kw = {}
            if window:
                s = r.mc.samples()
                s = s[np.isfinite(s)]
                if len(s) >= 4 and float(np.min(s)) < float(np.max(s)):
                    kw["range"] = (float(np.quantile(s, 0.2)), float(np.quantile(s, 0.8)))
            try:
                if form == "keyword":
                    r.mc.show_histogram(bins=bins, **kw)
                else:
                    r.mc.show_histogram(bins, **kw)
            except Exception:  # noqa: BLE001
                pass          # whether the picture can be drawn is not C02's subject
            finally:
                plt.close("all")
            r.mc.use_mean_and_std()
        elif k == "print":
            try:
                _ = {"str": str, "repr": repr, "format": "{}".format}[op[1]](r)
            except Exception:  # noqa: BLE001
                pass      # a pair that is not a number cannot be formatted (C09's subject)
            seen_empty()
        elif k == "pin-global":
            _, newglob, read_between, recalc = op
            r.mc.sample_size = glob           # pinned to what happens to be the global size now
            per = glob
            if read_between:
                read()
            glob = newglob if newglob != glob else newglob + 1
            M.set_global(q, glob)
            if recalc:
                r.recalculate()
        else:
            raise KeyError(k)
    return per, glob, empty[0], due, rho_now, wmark[0]


def observe(q, case):
    M.reset(q, case["global"])
    np.random.seed(case["npseed"])
    out = {}
    with warnings.catch_warnings(record=True) as w, M.Capture() as cap:
        warnings.simplefilter("always")
        try:
            by = M.Bystanders(q, None) if any(op[0] == "bystander" for op in case.get("pre", [])) else None
            vals = [unbits(b) for b in case["vals"]]
            errs = [unbits(b) for b in case["errs"]]
            meas = []
            for i in range(case["n_meas"]):
                data = case.get("raw", {}).get(str(i))
                rs = case.get("rawsel", {}).get(str(i))
                if data and rs:
                    mm = q.Measurement([unbits(b) for b in data], [unbits(b) for b in rs["es"]])
                    for sel in rs["sels"]:
                        getattr(mm, sel)()
                    meas.append(mm)
                else:
                    meas.append(q.Measurement([unbits(b) for b in data]) if data
                                else q.Measurement(vals[i], errs[i]))
            out["vals_eff"] = [float(m.value) for m in meas]
            out["errs_eff"] = [float(m.error) for m in meas]
            out["stds"] = [float(m.std) for m in meas]
            objs = M.build_formula(q, case, meas)
            r = objs[case["root"]]
            if case["method"] == "global":
                q.set_error_method(q.ErrorMethod.MONTE_CARLO)
            else:
                r.error_method = q.ErrorMethod.MONTE_CARLO
            if case["per"]:
                r.mc.sample_size = case["per"]
            per_now, glob_now, empty_seen, due, rho_now, wmark = run_prelude(q, r, case, meas, cap, w, by)
            out["wmark"] = wmark
            out["per_final"], out["global_final"], out["due"] = per_now, glob_now, due
            out["rho_eff"] = rho_now
            # the normal model the judged read is about: the CURRENT values and uncertainties
            out["vals_eff"] = [float(m.value) for m in meas]
            out["errs_eff"] = [float(m.error) for m in meas]
            out["stds"] = [float(m.std) for m in meas]
            out["config"] = [r.mc.strategy, tuple(r.mc.xrange)]
            s = r.mc.samples()
            out["ncalls"] = len(cap.calls)
            out["value"], out["error"] = float(r.value), float(r.error)
            # when every draw is undefined the stored set is empty and the library simulates
            # again on each access: value/error then belong to another simulation (case skipped)
            out["redrawn"] = len(cap.calls) != out["ncalls"] or empty_seen
            out["samples"] = np.array(s, dtype=float)
            out["order"] = M.source_order(q, r, meas)
            out["R"] = M.corr_matrix_impl(q, meas, out["order"])
            out["size_reported"] = int(r.mc.sample_size)
        except Exception as e:  # noqa: BLE001
            out["exception"] = "{}: {}".format(type(e).__name__, e)
    out["warned"] = any(M.FALLBACK_TEXT in str(x.message) for x in w[out.get("wmark", 0):])
    out["calls"] = cap.calls
    M.reset(q)
    return out


def expected_R(case, order, rho_eff=None, errs_eff=None):
    # gated by the uncertainties in force (a history may have made a source exact: 0 +/- s with
    # relative_error = r has uncertainty r*|0| = 0)
    errs = list(errs_eff) if errs_eff is not None else [unbits(b) for b in case["errs"]]
    rho = {}
    for i, j, r in (rho_eff if rho_eff is not None else [[i, j, unbits(b)] for i, j, b in case["rho"]]):
        rho[(i, j)] = rho[(j, i)] = r
    R = []
    for i in order:
        row = []
        for j in order:
            if errs[i] == 0 or errs[j] == 0:
                row.append(0.0)
            elif i == j:
                row.append(1.0)
            else:
                row.append(float(rho.get((i, j), 0.0)))
        R.append(row)
    return R


def last_batch(o):
    """the offset arrays of the simulation whose samples are stored: the last len(order) draws"""
    k = len(o["order"])
    upto = o.get("ncalls", len(o["calls"]))
    calls = o["calls"][upto - k:upto] if k else []
    return calls


def model_line(case, o):
    Z = [M.bitlist(arr) for _, arr in last_batch(o)]
    return {"cmd": "mc", "nodes": exprgen.model_nodes(case["nodes"]), "root": case["root"],
            "vals": M.bitlist(o["vals_eff"]), "errs": M.bitlist(o["errs_eff"]), "order": o["order"],
            "R": [M.bitlist(row) for row in o["R"]], "Z": Z,
            "per": o.get("per_final", case["per"]), "global": o.get("global_final", case["global"])}


def describe(case):
    raw = {"m" + k: [unbits(b) for b in v] for k, v in case.get("raw", {}).items()}
    for k, rs in case.get("rawsel", {}).items():
        raw["m" + k] = {"readings": raw["m" + k], "uncertainties": [unbits(b) for b in rs["es"]],
                        "then": rs["sels"]}
    return "{} [corr={}{}, size per={} global={}, method={}, numpy seed={}{}{}]".format(
        pretty(case), case.get("kind"),
        " ({}: argument {:.2f} sigma {} the boundary {})".format(
            case["edge"]["op"], abs(case["edge"]["distance_in_sigma"]), case["edge"]["where"],
            case["edge"]["boundary"]) if case.get("edge") else "",
        case["per"],
        case["global"], case["method"], case["npseed"],
        ", repeated measurements (raw data) {}".format(raw) if raw else "",
        ", history before the judged read: {}".format(case["pre"]) if case.get("pre") else "")


def judge(case, o, m, failures, dist):
    """compare one observation with the model answer; returns (judged, nontrivial)"""
    sig = "c02:{}".format(case.get("kind", "?"))
    base = {"input": describe(case), "case": case, "order": o.get("order")}
    if "exception" in o:
        et = o["exception"].split(":")[0]
        what = "Monte Carlo evaluation raised " + o["exception"]
        if case.get("kind") in ("nonpd", "unit"):
            what = ("jointly non-positive-definite correlation assignment: the documented fallback "
                    "(warning + uncorrelated draws) is required, but the evaluation raised "
                    + o["exception"])
            failures.append(dict(base, signature="c02:fallback:exception:" + et, what=what,
                                 clause="fallback must return, not raise"))
        else:
            failures.append(dict(base, signature=sig + ":exception:" + et, what=what,
                                 clause="in-domain Monte Carlo evaluation must return"))
        return True, False
    if "fail" in m:
        failures.append(dict(base, signature="model-error", kind="disagreement",
                             what="model driver: " + m["fail"]))
        return True, False
    order = o["order"]
    k = len(order)
    batch = last_batch(o)
    # the correlation matrix the library builds is the gated matrix of what was set
    if o["R"] != expected_R(case, order, o.get("rho_eff"), o.get("errs_eff")):
        failures.append(dict(base, signature="c02:corr-matrix", what="get_correlation over the "
                             "sources is not the gated matrix of the correlations that were set",
                             impl=o["R"], expected=expected_R(case, order, o.get("rho_eff"),
                                                              o.get("errs_eff")),
                             clause="correlations"))
        return True, False
    # draws: one standard-normal array per source, of the configured size
    want = m["size"]
    if o.get("due") and o.get("ncalls", 0) - k < o["due"]:
        failures.append(dict(base, signature="c02:no-redraw", what="a source measurement was changed "
                             "and the result recalculated, but the Monte Carlo read that follows "
                             "drew no new samples: it reports the simulation of the OLD values and "
                             "uncertainties", impl="{} draw calls recorded, last recalculate() after "
                             "{}".format(o.get("ncalls"), o["due"]),
                             expected="{} new N(0,1) arrays after the recalculation".format(k),
                             clause="moments of the formula under the CURRENT normal model"))
        return True, False
    if len(batch) != k or any(tuple(a[:2]) != (0, 1) or len(arr) != want for a, arr in batch):
        failures.append(dict(base, signature="c02:sample-size", what="the simulation did not draw one "
                             "N(0,1) array of the configured sample size per source",
                             impl=[[list(map(repr, a)), len(arr)] for a, arr in batch],
                             expected="{} arrays of {}".format(k, want), clause="sample size"))
        return True, False
    if o.get("config") and o["config"] != ["monte-carlo-mean-and-std", ()]:
        failures.append(dict(base, signature="c02:config", what="after the history the quantity is "
                             "not in the default configuration (mean-and-std strategy, no range)",
                             impl=o["config"], expected=["monte-carlo-mean-and-std", ()],
                             clause="default strategy"))
        return True, False
    if o["size_reported"] != want:
        failures.append(dict(base, signature="c02:sample-size-reported", what="mc.sample_size is not "
                             "the per-quantity size if set else the global one",
                             impl=o["size_reported"], expected=want, clause="sample size"))
        return True, False
    if not np.isfinite(o["samples"]).all():
        failures.append(dict(base, signature="c02:nonfinite-kept", what="the stored sample set "
                             "contains non-finite outcomes", clause="discard"))
        return True, False
    if o["warned"] != m["warned"]:
        failures.append(dict(base, signature="c02:fallback-warning", what="fallback warning {} by the "
                             "library, {} by the model".format(
                                 "issued" if o["warned"] else "not issued",
                                 "expected" if m["warned"] else "not expected"),
                             impl=o["warned"], expected=m["warned"], clause="fallback"))
        return True, False
    ms = M.fbs(m["samples"])
    bad = M.compare_arrays(o["samples"], ms)
    if bad is not None:
        if bad == -1:
            what = "stored sample set has {} elements, the model keeps {}".format(
                len(o["samples"]), len(ms))
            imp, exp = len(o["samples"]), len(ms)
        else:
            what = ("stored sample {} differs from the formula applied to mu + sigma*(L Z) of the "
                    "recorded draws".format(bad))
            imp, exp = float(o["samples"][bad]), ms[bad][0]
        failures.append(dict(base, signature=sig + ":samples", what=what, impl=imp, expected=exp,
                             clause="samples = f(mu + D L Z), non-finite discarded"))
        return True, False
    mv, mvb = fb(m["value"])
    me, meb = fb(m["error"])
    if len(ms) >= 1 and not close(o["value"], mv, mvb):
        failures.append(dict(base, signature=sig + ":value", what="reported value is not the mean of "
                             "the stored samples", impl=o["value"], expected=mv, bound=mvb,
                             clause="value = mean"))
        return True, False
    if len(ms) >= 2 and not close(o["error"], me, meb, slack=256.0):
        failures.append(dict(base, signature=sig + ":error", what="reported uncertainty is not the "
                             "n-1 sample standard deviation of the stored samples",
                             impl=o["error"], expected=me, bound=meb, clause="error = std (n-1)"))
        return True, False
    offdiag = any(o["R"][i][j] != 0 for i in range(k) for j in range(k) if i != j)
    discarded = len(ms) < want
    dist["discarded" if discarded else "all-kept"] += 1
    return True, (offdiag or discarded)


def permuted(o):
    """the observation re-labelled: row r of the offsets belongs to source order[pi[r]], and the
    correlation matrix is read in that order"""
    import itertools
    k = len(o["order"])
    out = []
    for pi in itertools.permutations(range(k)):
        if list(pi) == list(range(k)):
            continue
        oa = dict(o)
        oa["order"] = [o["order"][j] for j in pi]
        oa["R"] = [[o["R"][a][b] for b in pi] for a in pi]
        out.append(oa)
    return out


def ill_conditioned(o):
    R = o.get("R")
    if not R or len(R) < 3:
        return False
    if all(R[i][j] == 0 for i in range(len(R)) for j in range(len(R)) if i != j):
        return False
    if any(R[i][i] == 0 for i in range(len(R))):
        return False   # a zero pivot is exact
    return abs(M.min_eig(R)) < 1e-9


def run(ctx, n_cases, sizes, ref=False, cases=None, force_kind=None, force_pre=None, obs=None,
        independent=False):
    import qexpy as q
    if cases is None:
        cases = [gen_case(ctx.rng, sizes, force_kind=force_kind, force_pre=force_pre)
                 for _ in range(n_cases)]
    if obs is None:
        obs = [observe(q, c) for c in cases]
    lines, idx = [], []
    for i, (c, o) in enumerate(zip(cases, obs)):
        if "exception" not in o:
            idx.append(i)
            lines.append(model_line(c, o))
    mod = dict(zip(idx, ctx.model(lines, ref=ref))) if lines else {}
    failures, nontrivial, skipped = [], set(), 0
    dist = collections.Counter()
    samples = []
    for i, (c, o) in enumerate(zip(cases, obs)):
        dist["corr:" + c["kind"]] += 1
        dist["sources:{}".format(len(o.get("order", [])))] += 1
        dist["size:{}".format(c["per"] or c["global"])] += 1
        dist["size-per-quantity" if c["per"] else "size-global"] += 1
        dist["global-size-set-through-the-" + M.global_route(c["global"])] += 1
        dist["monte-carlo-method-set-" + ("globally" if c["method"] == "global" else "on-the-result")] += 1
        dist["repeated-measurement-sources:{}".format(len(c.get("raw", {})))] += 1
        for op in c.get("pre", []):
            dist["history-before-read:" + op[0]] += 1
            if op[0] == "edit-recalc":
                dist["history-before-read:edit-recalc:" + {
                    "mc": "under-monte-carlo", "switch": "while-switched-to-derivative",
                    "switch-other": "other-switch-route"}[op[1]]] += 1
                for ed in op[2]:
                    dist["history-before-read:edit-recalc:" + (
                        "correlations-rescaled" if ed[1] == "rho-scale" else "source-" + ed[1])] += 1
            if op[0] == "pin-global":
                dist["history-before-read:pin-global:" + (
                    "recalculate" if op[3] else "no-recalculate")] += 1
            if op[0] == "bystander":
                dist["history-before-read:bystander:" + op[1]] += 1
                if not c["per"] or op[3] or op[4]:
                    dist["history-before-read:bystander:then-simulated-with-the-global-size"
                         if not c["per"] else
                         "history-before-read:bystander:then-simulated-with-its-own-size"] += 1
            if op[0] == "display":
                dist["history-before-read:display:bins-{}{}{}".format(
                    op[1], "+window" if op[3] else "", ":" + op[5] + "-strategy")] += 1
        if c.get("edge"):
            e = c["edge"]
            dist["domain-edge:op:" + e["op"]] += 1
            dist["domain-edge:argument:" + e["argument"]] += 1
            dist["domain-edge:centre-" + e["where"]] += 1
            if "samples" in o and len(o["samples"]) < (o.get("per_final") or o.get("global_final") or 0):
                dist["domain-edge:some-draws-discarded"] += 1
        if c["per"] and c["per"] == c["global"]:
            dist["size-per-quantity-equal-to-global-at-start"] += 1
        dist["history-before-read:length-{}".format(len(c.get("pre", [])))] += 1
        for op in set(c["ops"]):
            dist["op:" + op] += 1
        if "exception" not in o and (ill_conditioned(o) or o.get("redrawn")):
            skipped += 1
            continue
        fl = []
        _, nt = judge(c, o, mod.get(i, {}), fl, dist)
        if fl and fl[0].get("signature", "").endswith(":samples") and len(o.get("order", [])) in (2, 3):
            # which row of the offset matrix belongs to which source is the library's business:
            # any CONSISTENT assignment (rows and correlation matrix permuted alike) is the same
            # normal model — retry the model under every relabelling before accusing the code
            alts = permuted(o)
            res_alt = ctx.model([model_line(c, oa) for oa in alts], ref=ref)
            for oa, ma in zip(alts, res_alt):
                f2 = []
                _, nt2 = judge(c, oa, ma, f2, collections.Counter())
                if not f2:
                    fl, nt = [], nt2
                    dist["sources-in-another-row-order"] += 1
                    break
        if independent and not fl:
            # judged a second time WITHOUT the tables regenerated from the library: the formula is
            # evaluated draw by draw with Python's math module (undefined = it raises), so that an
            # operator table that was changed in a way the translator can follow -- the model then
            # follows the code -- is still held against the mathematical function
            f2 = reference_check(c, o)
            if f2:
                fl = [f2]
            dist["judged-also-by-own-evaluation-of-the-formula (math module)"] += 1
        failures += fl
        if nt:
            nontrivial.add(canon_hash([c["nodes"], c["vals"], c["errs"], c["rho"], c["per"],
                                       c["global"]]))
        if len(samples) < 5 and "exception" not in o:
            samples.append({"case": describe(c), "sources_in_library_order": o["order"],
                            "impl": {"value": o["value"], "error": o["error"],
                                     "kept": len(o["samples"]), "warned": o["warned"]},
                            "model": {"value": fb(mod[i]["value"])[0], "error": fb(mod[i]["error"])[0],
                                      "kept": len(mod[i]["samples"]), "warned": mod[i]["warned"]}
                            if i in mod and "fail" not in mod[i] else None})
    return {"evaluations": len(cases), "nontrivial": nontrivial, "failures": failures,
            "samples": samples, "distribution": dict(dist), "skipped": skipped}


def chol_unit(ctx, n_cases):
    """numpy.linalg.cholesky vs the model's explicit factorisation, on matrices of size 1..5"""
    rng = ctx.rng
    mats = []
    for _ in range(n_cases):
        n = rng.choice([1, 2, 2, 3, 3, 3, 4, 5])
        t = rng.random()
        if n == 1:
            R = [[1.0]]
        elif t < 0.6 or n == 2:
            R = random_pd(rng, n) if n != 2 else [[1, 0.0], [0.0, 1]]
            if n == 2:
                r = rng.choice([rng.uniform(-0.99, 0.99), 1.0, -1.0])
                R = [[1.0, r], [r, 1.0]]
        elif t < 0.8:
            R = random_pd(rng, n, near=True)
        else:
            R = [[1.0 if i == j else 0.0 for j in range(n)] for i in range(n)]
            R3 = random_nonpd3(rng)
            for i in range(3):
                for j in range(3):
                    R[i][j] = float(R3[i][j])
        mats.append(R)
    out = ctx.model([{"cmd": "chol", "R": [M.bitlist(r) for r in R]} for R in mats])
    failures = []
    for R, m in zip(mats, out):
        if "fail" in m:
            failures.append({"signature": "model-error", "kind": "disagreement", "what": m["fail"]})
            continue
        try:
            L = np.linalg.cholesky(np.array(R, dtype=float))
        except np.linalg.LinAlgError:
            L = None
        if len(R) >= 2 and abs(M.min_eig(R)) < 1e-9 and not (len(R) == 2):
            continue
        for key in ("L", "Lgen"):
            ml = m[key]
            if (ml is None) != (L is None):
                failures.append({"signature": "c02:chol-model:" + key, "kind": "disagreement",
                                 "what": "model Cholesky and numpy.linalg.cholesky disagree on "
                                         "positive definiteness", "input": R})
                break
            if L is not None:
                ok = all(close(float(L[i][j]), *fb(ml[i][j]), slack=256.0)
                         for i in range(len(R)) for j in range(len(R)))
                if not ok:
                    failures.append({"signature": "c02:chol-model:" + key, "kind": "disagreement",
                                     "what": "model Cholesky factor differs from numpy's",
                                     "input": R})
                    break
    return len(mats), failures


def correspond(ctx):
    sizes = SIZES_QUICK if ctx.quick else SIZES_THOROUGH
    res = run(ctx, ctx.n(400, 7000), sizes)
    # targeted: the fallback and the structures the quantifier names
    for kind, n in (("nonpd", ctx.n(30, 400)), ("unit", ctx.n(12, 150)), ("near", ctx.n(20, 300)),
                    ("zerosigma", ctx.n(20, 300)), ("overflow", ctx.n(12, 200)),
                    ("cancel", ctx.n(30, 400)), ("partial", ctx.n(15, 200)),
                    ("zerocentre", ctx.n(30, 400)), ("domain-edge", ctx.n(90, 1200)),
                    ("pre:edit-recalc", ctx.n(50, 600)), ("pre:pin-global", ctx.n(30, 400)),
                    ("pre:bystander", ctx.n(36, 300)), ("pre:display", ctx.n(12, 100))):
        r2 = run(ctx, n, sizes, independent=(kind in ("domain-edge", "overflow")),
                 **({"force_pre": kind[4:]} if kind.startswith("pre:") else {"force_kind": kind}))
        res["evaluations"] += r2["evaluations"]
        res["nontrivial"] |= r2["nontrivial"]
        res["failures"] += r2["failures"]
        res["skipped"] += r2["skipped"]
        for k, v in r2["distribution"].items():
            res["distribution"][k] = res["distribution"].get(k, 0) + v
    n, fs = chol_unit(ctx, ctx.n(500, 20000))
    res["distribution"]["cholesky-unit-cases"] = n
    res["failures"] += fs
    if not ctx.quick:
        st = statistical_supplement(ctx)
        res["distribution"]["statistical-supplement (TEST, not proof)"] = st["summary"]
        res["failures"] += st["failures"]
    st = truncated_supplement(ctx, ctx.n(5, 15), ctx.n(200000, 400000))
    res["distribution"]["statistical-supplement, formulas undefined on part of the draws (TEST, not proof)"] = \
        st["summary"]
    res["failures"] += st["failures"]
    return res


# ---------------------------------------------------------------------------------------------
# independent oracle for the failing-input search: numpy/math re-computation from the same draws

def _ref_eval(case, env):
    """evaluate the formula with Python's math module; None when undefined"""
    nodes = case["nodes"]

    def ev(i):
        n = nodes[i]
        if n[0] in ("var", "pair"):
            return env[n[1]]
        if n[0] == "const":
            return unbits(n[1])
        if n[0] == "un":
            x = ev(n[2])
            op = n[1]
            f = {"neg": lambda t: -t, "sqrt": math.sqrt, "exp": math.exp, "sin": math.sin,
                 "cos": math.cos, "tan": math.tan, "asin": math.asin, "acos": math.acos,
                 "atan": math.atan, "sec": lambda t: 1 / math.cos(t),
                 "csc": lambda t: 1 / math.sin(t), "cot": lambda t: 1 / math.tan(t),
                 "log10": math.log10, "ln": math.log}[op]
            return f(x)
        if n[0] == "deg":
            x = ev(n[2]) / 180 * math.pi
            f = {"sind": math.sin, "cosd": math.cos, "tand": math.tan,
                 "secd": lambda t: 1 / math.cos(t), "cscd": lambda t: 1 / math.sin(t),
                 "cotd": lambda t: 1 / math.tan(t)}[n[1]]
            return f(x)
        a, b = ev(n[2]), ev(n[3])
        op = n[1]
        if op == "add":
            return a + b
        if op == "sub":
            return a - b
        if op == "mul":
            return a * b
        if op == "div":
            return a / b
        if op == "pow":
            r = a ** b
            if isinstance(r, complex):
                raise ValueError
            return r
        if op == "log":
            return math.log(b) / math.log(a)
        raise KeyError(op)
    try:
        v = ev(case["root"])
        return v if math.isfinite(v) else None
    except (ValueError, ZeroDivisionError, OverflowError):
        return None


def reference_check(case, o):
    """numpy reference (see _reference_once); a sample mismatch is accepted when a consistent
    relabelling of the offset rows reproduces the stored samples"""
    f = _reference_once(case, o)
    if f and f.get("signature", "").endswith(":samples") and len(o.get("order", [])) in (2, 3):
        for oa in permuted(o):
            if _reference_once(case, oa) is None:
                return None
    return f


def _reference_once(case, o):
    """numpy reference of the statement: samples = finite f(mu + sigma (L Z)), mean, n-1 std;
    uncorrelated when the assignment is not positive definite.  Returns a failure or None."""
    base = {"input": describe(case), "case": case, "oracle": "independent", "kind": "violation",
            "order": o.get("order")}
    if "exception" in o:
        return dict(base, signature="c02:{}:exception:{}".format(
            "fallback" if case["kind"] in ("nonpd", "unit") else case["kind"],
            o["exception"].split(":")[0]),
            what="Monte Carlo evaluation raised " + o["exception"])
    if o.get("redrawn"):
        return None
    order = o["order"]
    k = len(order)
    vals, errs = o["vals_eff"], o["errs_eff"]
    Z = np.array([arr for _, arr in last_batch(o)], dtype=float)
    if Z.shape[0] != k:
        return dict(base, signature="c02:sample-size", what="wrong number of draws")
    want = o.get("per_final", case["per"]) or o.get("global_final", case["global"])
    if o.get("due") and o.get("ncalls", 0) - k < o["due"]:
        return dict(base, signature="c02:no-redraw", what="sources changed and the result "
                    "recalculated, but the following Monte Carlo read drew no new samples",
                    impl=o.get("ncalls"), expected="draws after call {}".format(o["due"]))
    if k and Z.shape[1] != want:
        return dict(base, signature="c02:sample-size", what="the stored simulation has {} draws per "
                    "source, the configured sample size is {}".format(Z.shape[1], want),
                    impl=int(Z.shape[1]), expected=want)
    if o.get("config") and o["config"] != ["monte-carlo-mean-and-std", ()]:
        return dict(base, signature="c02:config", what="not in the default configuration after the "
                    "history", impl=o["config"])
    if o.get("size_reported") is not None and o["size_reported"] != want:
        return dict(base, signature="c02:sample-size-reported", what="mc.sample_size is not the "
                    "per-quantity size if set else the global one", impl=o["size_reported"],
                    expected=want)
    if len(o["samples"]) > want:
        return dict(base, signature="c02:sample-size", what="more stored samples than the configured "
                    "sample size", impl=len(o["samples"]), expected=want)
    R = np.array(expected_R(case, order, o.get("rho_eff"), o.get("errs_eff")), dtype=float)
    np.fill_diagonal(R, 1.0)
    pd = True
    C = Z
    if np.count_nonzero(R - np.eye(k)):
        ev = np.linalg.eigvalsh(R).min()
        if abs(ev) < 1e-9 and k > 2:
            return None
        if ev > 0:
            C = np.linalg.cholesky(R) @ Z
        else:
            pd = False
    if o["warned"] != (not pd):
        return dict(base, signature="c02:fallback-warning", what="fallback warning mismatch",
                    impl=o["warned"], expected=not pd)
    X = {v: vals[v] + errs[v] * C[r] for r, v in enumerate(order)}
    ys = []
    for j in range(Z.shape[1]):
        y = _ref_eval(case, {v: float(X[v][j]) for v in order} | {
            v: vals[v] for v in range(len(vals)) if v not in order})
        if y is not None:
            ys.append(y)
    s = o["samples"]
    if len(ys) != len(s):
        return dict(base, signature="c02:{}:samples".format(case["kind"]),
                    what="number of kept samples {} vs reference {}".format(len(s), len(ys)))
    ys = np.array(ys)
    if len(ys) and not np.allclose(s, ys, rtol=1e-7, atol=1e-9 * (1 + np.abs(ys).max())):
        # ill-conditioned formulas (near poles) amplify rounding: only accuse when the bulk differs
        rel = np.abs(s - ys) / (np.abs(ys) + 1e-9)
        if np.median(rel) > 1e-6:
            return dict(base, signature="c02:{}:samples".format(case["kind"]),
                        what="stored samples differ from the numpy reference of f(mu + sigma L Z)",
                        impl=float(s[int(rel.argmax())]), expected=float(ys[int(rel.argmax())]))
        return None
    if len(ys) >= 2:
        if not math.isclose(o["value"], float(np.mean(s)), rel_tol=1e-9, abs_tol=1e-12):
            return dict(base, signature="c02:{}:value".format(case["kind"]),
                        what="value is not the mean of the stored samples",
                        impl=o["value"], expected=float(np.mean(s)))
        sd = math.sqrt(float(np.sum((s - np.mean(s)) ** 2)) / (len(s) - 1))
        if not math.isclose(o["error"], sd, rel_tol=1e-9, abs_tol=1e-12):
            return dict(base, signature="c02:{}:error".format(case["kind"]),
                        what="uncertainty is not the n-1 standard deviation of the stored samples",
                        impl=o["error"], expected=sd)
    return None


def search(ctx, broken):
    import qexpy as q
    out = {"failures": [], "strategy": []}
    sizes = [7, 100]
    n = ctx.n(300, 3000)
    tried = 0
    kinds = (None, "nonpd", "pd", "unit", "cancel", "partial", "zerocentre", "domain-edge", "domain-edge",
             "pre:edit-recalc", "pre:pin-global", "pre:bystander", "pre:display")
    for kind in kinds:
        for _ in range(n // len(kinds)):
            c = gen_case(ctx.rng, sizes, **({"force_pre": kind[4:]} if (kind or "").startswith("pre:")
                                            else {"force_kind": kind}))
            o = observe(q, c)
            tried += 1
            f = reference_check(c, o)
            if f:
                out["failures"].append(f)
    out["strategy"].append("numpy/math reference pipeline on the recorded draws: {} cases".format(tried))
    st = truncated_supplement(ctx, 5, 200000)
    out["failures"] += st["failures"]
    out["strategy"].append("exact moments by quadrature, formulas undefined on part of the draws: " + st["summary"])
    try:
        r = run(ctx, ctx.n(100, 1000), sizes, ref=True)
        for f in r["failures"]:
            if f.get("signature", "").startswith("c02"):
                f["oracle"] = "independent"
                f["kind"] = "violation"
                out["failures"].append(f)
        out["strategy"].append("reference-model run: {} cases".format(r["evaluations"]))
    except Exception as e:  # noqa: BLE001
        out["strategy"].append("reference driver unavailable: {}".format(e))
    return out


def replay(ctx, rp):
    import qexpy as q
    f = rp.get("failure", {})
    c = f.get("case")
    if not c:
        return {"fails": False, "note": "replay file carries no concrete input", "payload": rp}
    if c.get("supplement") == "truncated":
        fs = _truncated_case(q, c)
        return {"fails": bool(fs), "failures": fs}
    if c.get("supplement"):
        fs = _supplement_case(q, c)
        return {"fails": bool(fs), "failures": fs}
    # which row of the offsets the library hands to which source follows the iteration order of a set
    # of random UUIDs: it differs from process to process, and a failure may depend on it (WHICH
    # draws leave the domain; whether set order and another order of the identifiers differ).  The
    # case is therefore observed several times -- new measurement objects, hence new identifiers, each
    # time -- until the recorded assignment has come up again and at least 8 observations were made
    # (one source: a single observation); the replay fails when ANY observation fails (on a library
    # that keeps the property every observation of the case passes)
    target = f.get("order")
    # a model regenerated from a changed tree is not known to be correct: the proved reference tables
    # are used then
    use_ref = ctx.tables_changed(SECTIONS)
    seen_target = False
    for tries in range(60):
        o = observe(q, c)
        ind = reference_check(c, o)
        r = run(ctx, 1, None, cases=[c], obs=[o], ref=use_ref)
        fails = bool(ind) or bool(r["failures"])
        if fails:
            break
        seen_target = seen_target or not target or "exception" in o or o.get("order") == target
        if seen_target and (len(o.get("order", [])) <= 1 or tries + 1 >= 8):
            break
    return {"fails": fails, "independent_oracle": ind, "model_run": r["failures"],
            "observations": tries + 1,
            "impl": {k: (v if k != "samples" else "{} samples".format(len(v)))
                     for k, v in o.items() if k not in ("calls",)}}


# ---------------------------------------------------------------------------------------------
# statistical supplement — a TEST, not a proof (thorough tier; fixed seeds; 6-sigma bounds)

def _supplement_case(q, c):
    """closed-form moments of linear forms / products / squares of jointly normal variables"""
    N = c["N"]
    M.reset(q, N)
    np.random.seed(c["npseed"])
    mu, sg, R = c["mu"], c["sigma"], c["R"]
    n = len(mu)
    ms = [q.Measurement(mu[i], sg[i]) for i in range(n)]
    for i in range(n):
        for j in range(i + 1, n):
            if R[i][j] != 0:
                q.set_correlation(ms[i], ms[j], R[i][j])
    S = [[R[i][j] * sg[i] * sg[j] for j in range(n)] for i in range(n)]
    form = c["form"]
    if form == "linear":
        co = c["coef"]
        r = co[0] + sum((co[i + 1] * ms[i] for i in range(1, n)), co[1] * ms[0])
        mean = co[0] + sum(co[i + 1] * mu[i] for i in range(n))
        var = sum(co[i + 1] * co[j + 1] * S[i][j] for i in range(n) for j in range(n))
    elif form == "product":
        r = ms[0] * ms[1]
        mean = mu[0] * mu[1] + S[0][1]
        var = (mu[0] ** 2 * S[1][1] + mu[1] ** 2 * S[0][0] + 2 * mu[0] * mu[1] * S[0][1]
               + S[0][0] * S[1][1] + S[0][1] ** 2)
    elif form == "square":
        r = ms[0] * ms[0]
        mean = mu[0] ** 2 + S[0][0]
        var = 4 * mu[0] ** 2 * S[0][0] + 2 * S[0][0] ** 2
    elif form == "product+linear":
        r = ms[0] * ms[1] + ms[2]
        mean = mu[0] * mu[1] + S[0][1] + mu[2]
        vp = (mu[0] ** 2 * S[1][1] + mu[1] ** 2 * S[0][0] + 2 * mu[0] * mu[1] * S[0][1]
              + S[0][0] * S[1][1] + S[0][1] ** 2)
        var = vp + S[2][2] + 2 * (mu[0] * S[1][2] + mu[1] * S[0][2])
    else:
        raise KeyError(form)
    r.error_method = q.ErrorMethod.MONTE_CARLO
    with warnings.catch_warnings():
        warnings.simplefilter("ignore")
        v, e = float(r.value), float(r.error)
    M.reset(q)
    fs = []
    sd = math.sqrt(var)
    base = {"input": "statistical supplement {}".format({k: c[k] for k in c if k != "supplement"}),
            "case": c, "clause": "agreement with the exact moments within sampling error (TEST)"}
    if abs(v - mean) > 6 * sd / math.sqrt(N):
        fs.append(dict(base, signature="c02:stat:mean:" + form, what="Monte Carlo value is more than "
                       "6 standard errors from the exact mean", impl=v, expected=mean))
    # polynomials of degree <= 2 in normal variables: excess kurtosis <= 12, so sd(s^2) <= sqrt(14/N) var
    if abs(e * e - var) > 6 * math.sqrt(14.0 / N) * var:
        fs.append(dict(base, signature="c02:stat:variance:" + form, what="Monte Carlo variance is "
                       "outside the 6-sigma band around the exact variance", impl=e * e, expected=var))
    return fs


TRUNC = {   # name -> (numpy function, domain)
    "asin": (np.arcsin, (-1.0, 1.0)), "acos": (np.arccos, (-1.0, 1.0)),
    "sqrt": (np.sqrt, (0.0, math.inf)), "ln": (np.log, (0.0, math.inf)),
    "log10": (np.log10, (0.0, math.inf)),
}


def _truncated_moments(name, mu, sg, n=2000000):
    """mean, variance, fourth central moment of f(X) and P(X in the domain) for X ~ N(mu, sg), by
    the midpoint rule on the part of the domain within 12 sg of mu (own arithmetic)"""
    f, (lo, hi) = TRUNC[name]
    a, b = max(lo, mu - 12 * sg), min(hi, mu + 12 * sg)
    h = (b - a) / n
    x = a + (np.arange(n) + 0.5) * h
    w = np.exp(-0.5 * ((x - mu) / sg) ** 2) / (sg * math.sqrt(2 * math.pi)) * h
    y = f(x)
    mass = float(w.sum())
    m1 = float((y * w).sum() / mass)
    dlt = y - m1
    var = float((dlt ** 2 * w).sum() / mass)
    m4 = float((dlt ** 4 * w).sum() / mass)
    return m1, var, m4, mass


def _truncated_case(q, c):
    """one source, one operator with a restricted domain: the number of draws kept, the value and
    the uncertainty against the exact moments of the formula over the draws on which it is defined"""
    N, name, mu, sg = c["N"], c["fn"], c["mu"], c["sigma"]
    M.reset(q, N)
    np.random.seed(c["npseed"])
    x = q.Measurement(mu, sg)
    r = {"asin": q.asin, "acos": q.acos, "sqrt": q.sqrt, "ln": q.log, "log10": q.log10}[name](x)
    r.error_method = q.ErrorMethod.MONTE_CARLO
    with warnings.catch_warnings():
        warnings.simplefilter("ignore")
        v, e = float(r.value), float(r.error)
        kept = int(r.mc.samples().size)
    M.reset(q)
    m1, var, m4, mass = _truncated_moments(name, mu, sg)
    fs = []
    base = {"input": "statistical supplement {}({} +/- {}), N={}, numpy seed {}: P(defined) = {:.4f}"
            .format(name, mu, sg, N, c["npseed"], mass), "case": c, "oracle": "independent",
            "kind": "violation",
            "clause": "undefined draws are discarded; agreement with the exact moments within sampling "
                      "error (TEST)"}
    if abs(kept - N * mass) > 6 * math.sqrt(N * mass * (1 - mass)) + 1:
        fs.append(dict(base, signature="c02:stat:kept:" + name, what="the number of draws kept is more "
                       "than 6 standard deviations from N * P(formula defined): draws on which the "
                       "formula is undefined must be discarded (and only those)", impl=kept,
                       expected=N * mass))
    n_eff = max(kept, 2)
    if abs(v - m1) > 6 * math.sqrt(var / n_eff) + 1e-6 * abs(m1):
        fs.append(dict(base, signature="c02:stat:mean:" + name, what="Monte Carlo value is more than 6 "
                       "standard errors from the exact mean of the formula over its domain", impl=v,
                       expected=m1))
    if abs(e * e - var) > 6 * math.sqrt(max(m4 - var * var, 0.0) / n_eff) + 1e-5 * var:
        fs.append(dict(base, signature="c02:stat:variance:" + name, what="Monte Carlo variance is "
                       "outside the 6-sigma band around the exact variance of the formula over its "
                       "domain", impl=e * e, expected=var))
    return fs


def truncated_supplement(ctx, n, N):
    import qexpy as q
    rng = ctx.rng
    failures = []
    names = sorted(TRUNC)
    for i in range(n):
        name = names[i % len(names)]
        d = rng.uniform(0.5, 2.2)
        if name in ("asin", "acos"):
            sg = round(rng.uniform(0.03, 0.12), 3)
            mu = round(rng.choice([1, -1]) * (1 - d * sg), 4)
        else:
            sg = round(rng.uniform(0.05, 0.5), 3)
            mu = round(d * sg, 4)
        c = {"supplement": "truncated", "fn": name, "mu": mu, "sigma": sg, "N": N,
             "npseed": rng.randrange(2 ** 32)}
        failures += _truncated_case(q, c)
    return {"failures": failures, "summary": "{} cases (asin, acos, sqrt, ln, log10 of a source 0.5-2.2 "
            "sigma inside the domain), N={}, 6-sigma on kept count, mean, variance".format(n, N)}


def statistical_supplement(ctx):
    import qexpy as q
    rng = ctx.rng
    failures, n = [], 0
    for form in ("linear", "product", "square", "product+linear"):
        for _ in range(6):
            k = {"linear": rng.choice([1, 2, 3]), "product": 2, "square": 1, "product+linear": 3}[form]
            mu = [round(rng.uniform(-3, 3), 3) for _ in range(k)]
            sg = [round(rng.uniform(0.1, 1.0), 3) for _ in range(k)]
            R = [[1.0 if i == j else 0.0 for j in range(k)] for i in range(k)]
            if k >= 2 and rng.random() < 0.8:
                R = random_pd(rng, k) if k == 3 else [[1.0, 0.0], [0.0, 1.0]]
                if k == 3 and rng.random() < 0.4:
                    # correlations that cancel in sum (seeded change C02-1), positive definite
                    while True:
                        R, pd = cancelling3(rng)
                        if pd:
                            break
                if k == 2:
                    r = round(rng.uniform(-0.9, 0.9), 3)
                    R = [[1.0, r], [r, 1.0]]
            c = {"supplement": True, "form": form, "mu": mu, "sigma": sg,
                 "R": [[float(x) for x in row] for row in R], "N": 400000,
                 "coef": [round(rng.uniform(-2, 2), 3) for _ in range(k + 1)],
                 "npseed": rng.randrange(2 ** 32)}
            failures += _supplement_case(q, c)
            n += 1
    return {"failures": failures, "summary": "{} closed-form cases, N=400000, 6-sigma".format(n)}

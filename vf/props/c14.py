"""C14 — an uncertainty is never negative, whatever path created or changed it."""
import collections
import math

from props import _dhelp as H
from common import bits, unbits, fb, close, canon_hash

ID = "C14"
SECTIONS = ["ops", "stats", "uncert"]   # derived values: generated operator tables; repeated values: Generated/Stats.lean
LEAN_MODULES = ["QExPy.Props.C14"]
THEOREMS = ["QExPy.C14_derived_nonneg",
            "QExPy.C14_inv_step",
            "QExPy.C14_inv_run",
            "QExPy.C14_inv_all",
            "QExPy.C14_reject_unchanged",
            "QExPy.C14_negative_rejected",
            "QExPy.C14_negative_array_rejected",
            "QExPy.C14_nonneg_accepted",
            "QExPy.C14_rel",
            "QExPy.C14_statistics_nonneg",
            "QExPy.C14_mc",
            "QExPy.C14_mc_measurement"]
RULE = ("seeded histories (3-14 requests) over a heap of quantities: Measurement(v[, e]), "
        "Measurement([..][, e | [e..]]), MeasurementArray(error= | relative_error=, number or list), "
        "XYDataSet(xerr=, yerr=), array.append / array.insert of numbers, (v, e) pairs and lists of "
        "pairs, array item assignment (number / (v, e) pair, negative indices), every 8th history a "
        "deliberate XYDataSet from EXISTING arrays (valid / invalid xerr x valid / invalid yerr, "
        "different lengths, an existing array next to a plain list), re-wrapping existing arrays "
        "with new uncertainties "
        "(MeasurementArray(arr, error=) and XYDataSet(xdata=arr, ydata=arr, xerr=, yerr=)), the "
        "error / relative_error / value setters on single, repeated and derived quantities, the "
        "use_* selectors, arithmetic with quantity / number / (v, e)-pair operands, unary minus and "
        "sin / cos / atan, powers (negative / zero / positive base to int and float constants, to a "
        "quantity, constant ** quantity), a rejected relative uncertainty r >= 0 judged directly, "
        "and the Monte Carlo results of calculated quantities (error_method = Monte Carlo with the "
        "mean-and-std strategy, use_mode_with_confidence at valid and invalid confidences — also on "
        "x*x, 1-x*x, -(x*x) with x = 0 +/- s, whose histogram peaks in the first / last bin — and "
        "use_custom_value_and_error with non-negative and negative uncertainties; the stored samples "
        "are retrieved and the model computes mean / n-1 std / mode walk FROM THEM); "
        "sign patterns {+,0,-} for values, uncertainties and relative uncertainties; after every "
        "request value and uncertainty of every live quantity are read, compared with "
        "Model/Uncert.lean run at FB and 0 <= uncertainty / unchanged-after-reject evaluated "
        "directly; non-trivial = a negative number reaches a path or a negative central value "
        "meets a relative uncertainty; distinct by hash")
ASSUMPTIONS = ["theorems are over the reals; binary64 rounding is compared under the FB bound",
               "derived values are read right after creation (the library caches them); operands "
               "whose sources changed since are not reused (stale caches are C05's subject)",
               "Monte Carlo results are compared with the model GIVEN the sample set the library "
               "retrieves (d.mc.samples()) and numpy.histogram of it (trusted, edges in order: checked "
               "on every request as the hypothesis WF of C14_inv_step); histories in which a sample "
               "set has fewer than 2 elements, or numpy.histogram cannot make 100 bins of it (samples "
               "equal up to an ulp), are skipped and counted"]
TRUSTED = ["modelled not verified: numpy broadcasting in _get_error_array_helper, numpy.sqrt, "
           "numpy.histogram / numpy.mean / numpy.std on the Monte Carlo sample set"]
LEVEL_TEXT = ("Lean 4 theorems about the creation/mutation state machine Model/Uncert.lean "
              "(0 <= uncertainty preserved by every accepted request over all histories, rejected "
              "requests leave the heap unchanged, relative uncertainty r >= 0 gives r*|value|, Monte "
              "Carlo results under each strategy) + "
              "differential run on histories")
TECHNIQUE = "Lean 4 machine-checked proof over a model tied to the source by a differential correspondence run"

SEL_METHOD = {"use_std": "use_std_for_uncertainty", "use_sem": "use_error_on_mean_for_uncertainty",
              "use_wmean": "use_error_weighted_mean_as_value",
              "use_perr": "use_propagated_error_for_uncertainty"}
KIND_OF = {"MeasuredValue": "single", "RepeatedlyMeasuredValue": "repeated", "DerivedValue": "derived"}


# ---------------------------------------------------------------- generation
def sval(rng):
    """central value with a sign pattern"""
    r = rng.random()
    if r < 0.12:
        return 0.0
    m = rng.choice([1.0, 2.5, 5.0, 12.0, 0.3, round(rng.uniform(0.1, 40), 2)])
    return m if r < 0.6 else -m


def serr(rng, pneg):
    """uncertainty with a sign pattern"""
    r = rng.random()
    if r < 0.15:
        return 0.0
    m = rng.choice([0.5, 0.1, 0.25, 1.5, round(rng.uniform(0.01, 2), 3)])
    return -m if rng.random() < pneg else m


def gen_spec(rng, n, pneg, allow_rel=True):
    r = rng.random()
    if r < 0.2:
        return None
    if r < 0.45:
        return ["common", bits(serr(rng, pneg))]
    if r < 0.75 or not allow_rel:
        m = n if rng.random() > 0.08 else n + rng.choice([-1, 1])
        es = [abs(serr(rng, 0)) for _ in range(max(m, 1))]
        if rng.random() < pneg * 1.5:
            es[rng.randrange(len(es))] *= -1
        return ["each", [bits(e) for e in es]]
    if r < 0.88:
        return ["rel", bits(serr(rng, pneg))]
    m = n if rng.random() > 0.08 else n + 1
    rs = [abs(serr(rng, 0)) for _ in range(m)]
    if rng.random() < pneg * 1.5:
        rs[rng.randrange(len(rs))] *= -1
    return ["rels", [bits(e) for e in rs]]


def spec_ok(vals, spec):
    """generator-side prediction of _get_error_array_helper (only to keep the heap layout in step)"""
    if spec is None:
        return True
    k, v = spec
    if k == "common":
        return unbits(v) >= 0
    if k == "each":
        return len(v) == len(vals) and all(unbits(e) >= 0 for e in v)
    if k == "rel":
        return all(unbits(v) * abs(x) >= 0 for x in vals)
    return len(v) == len(vals) and all(unbits(r) * abs(x) >= 0 for r, x in zip(v, vals))


class Track:
    """what the generator remembers about the heap (kinds, values of measurements, staleness)"""

    def __init__(self):
        self.kind, self.val, self.src, self.stale = [], [], [], []
        self.arrays = []      # lists of heap ids that form a MeasurementArray
        self.mc = set()       # calculated quantities whose error method is Monte Carlo by now

    def push(self, kind, val=None, src=None):
        self.kind.append(kind)
        self.val.append(val)
        self.src.append(set(src) if src else {len(self.kind) - 1})
        self.stale.append(False)
        return len(self.kind) - 1

    def touched(self, i):
        for j, s in enumerate(self.src):
            if j != i and self.kind[j] == "derived" and i in s:
                self.stale[j] = True


MC_CONFS = [0.3, 0.5, 0.68, 0.9, 0.95, 1.0]


def gen_mc(rng, t, ops, flags, pneg):
    """Monte Carlo paths of a calculated quantity.  Either a motif whose sample distribution peaks
    at an END of its histogram (x*x, 1 - x*x, -(x*x) with x = 0 +/- s) or a request on a
    calculated quantity of the heap (occasionally on a measurement, which has no `.mc`)."""
    flags.add("mc")
    derived = [i for i in range(len(t.kind)) if t.kind[i] == "derived"]
    if not derived or rng.random() < 0.4:
        sg = rng.choice([0.5, 1.0, 2.0, round(rng.uniform(0.2, 3), 2)])
        ops.append(["meas", bits(0.0), bits(sg)])
        a = t.push("single", 0.0)
        ops.append(["arith", "mul", ["ref", a], ["ref", a]])
        d = t.push("derived", None, {a})
        k = rng.random()
        if k < 0.35:      # peak in the LAST bin
            ops.append(["arith", "sub", ["num", bits(rng.choice([1.0, 0.0, -2.5]))], ["ref", d]])
            d = t.push("derived", None, {a, d})
        elif k < 0.5:
            ops.append(["un", "neg", d])
            d = t.push("derived", None, {a, d})
        flags.add("mcedge")
        target = d
    else:
        target = rng.choice(derived)
        if rng.random() < 0.06:
            others = [i for i in range(len(t.kind)) if t.kind[i] != "derived"]
            if others:
                target = rng.choice(others)
    isder = t.kind[target] == "derived"
    for _ in range(rng.choice([1, 1, 2, 3])):
        k = rng.random()
        if k < 0.25:
            ops.append(["mcmean", target])
            ok = isder
        elif k < 0.7:
            bad = rng.random() < 0.15
            conf = rng.choice([1.5, -0.1, 7.0]) if bad else rng.choice(MC_CONFS)
            if bad and isder and target not in t.mc:
                ops.append(["mcmean", target])     # the rejected request must find the method set
                t.mc.add(target)
            ops.append(["mcmode", target, bits(conf)])
            ok = isder and not bad
            if bad:
                flags.add("neg")
        else:
            v, e = sval(rng), serr(rng, max(pneg, 0.3))
            if isder and target not in t.mc:
                ops.append(["mcmean", target])
                t.mc.add(target)
            ops.append(["mccustom", target, bits(v), bits(e)])
            ok = isder and e >= 0
            if e < 0:
                flags.add("neg")
                flags.add("mcneg")
        if ok:
            t.mc.add(target)
            t.val[target] = None


def gen_case(rng, malformed=False, long=False):
    pneg = 0.45 if malformed else 0.12
    t = Track()
    ops = []
    flags = set()
    nops = rng.randint(3, 40 if long else 14)
    while len(ops) < nops:
        live = list(range(len(t.kind)))
        r = rng.random()
        if not live or r < 0.16:
            v = sval(rng)
            e = None if rng.random() < 0.2 else serr(rng, pneg)
            ops.append(["meas", bits(v), None if e is None else bits(e)])
            if e is None or e >= 0:
                t.push("single", v)
            else:
                flags.add("neg")
        elif r < 0.24:
            n = rng.randint(2, 6)
            xs = [sval(rng) + rng.choice([0, 0.5, 1.25]) * i for i in range(n)]
            spec = gen_spec(rng, n, pneg, allow_rel=False)
            ops.append(["rep", [bits(x) for x in xs], spec])
            if spec_ok(xs, spec):
                t.push("repeated", sum(xs) / n)
            else:
                flags.add("neg")
        elif r < 0.34:
            n = rng.randint(1, 4)
            xs = [sval(rng) for _ in range(n)]
            spec = gen_spec(rng, n, pneg)
            ops.append(["array", [bits(x) for x in xs], spec])
            if spec and spec[0] in ("rel", "rels") and any(x < 0 for x in xs):
                flags.add("relneg")
            if spec_ok(xs, spec):
                t.arrays.append([t.push("single", x) for x in xs])
            else:
                flags.add("neg")
        elif r < 0.39:
            n = rng.randint(1, 3)
            m = n if rng.random() > 0.1 else n + 1
            xs, ys = [sval(rng) for _ in range(n)], [sval(rng) for _ in range(m)]
            sx, sy = gen_spec(rng, n, pneg, False), gen_spec(rng, m, pneg, False)
            ops.append(["xy", [bits(x) for x in xs], [bits(y) for y in ys], sx, sy])
            if spec_ok(xs, sx) and spec_ok(ys, sy) and n == m:
                t.arrays.append([t.push("single", x) for x in xs])
                t.arrays.append([t.push("single", y) for y in ys])
            else:
                flags.add("neg")
        elif r < 0.46 and t.arrays and rng.random() < 0.25:
            # arr[i] = number (the element's value setter) / arr[i] = (v, e) (a NEW element, built
            # by wrap_in_measurement -> MeasuredValue(v, e); the old one stays as it was)
            ids = rng.choice(t.arrays)
            i = rng.randrange(-len(ids), len(ids))
            v = sval(rng)
            if rng.random() < 0.3:
                ops.append(["setitem", list(ids), i, [bits(v), None]])
                j = ids[i]
                t.kind[j], t.val[j], t.src[j], t.stale[j] = "single", v, {j}, False
                t.touched(j)
            else:
                e = serr(rng, max(pneg * 1.5, 0.3))
                ops.append(["setitem", list(ids), i, [bits(v), bits(e)]])
                flags.add("setitem")
                if e >= 0:
                    new = list(ids)
                    new[i] = t.push("single", v)
                    k = next(k for k, a in enumerate(t.arrays) if a is ids)
                    t.arrays[k] = new
                else:
                    flags.add("neg")
        elif r < 0.46 and t.arrays and rng.random() < 0.45:
            # arr.append(x) / arr.insert(i, x) with x a number, a (v, e) pair or a list of pairs:
            # each new element is built by wrap_in_measurement -> MeasuredValue(v, e)
            ids = rng.choice(t.arrays)
            items = []
            for _ in range(rng.choice([1, 1, 1, 2, 3])):
                v = sval(rng)
                e = None if rng.random() < 0.2 else serr(rng, pneg * 1.5)
                items.append([bits(v), None if e is None else bits(e)])
            pos = None if rng.random() < 0.6 else rng.randint(0, len(ids))
            ops.append(["append", list(ids), items, pos])
            if all(it[1] is None or unbits(it[1]) >= 0 for it in items):
                new = [t.push("single", unbits(it[0])) for it in items]
                k = len(ids) if pos is None else pos
                t.arrays.append(list(ids[:k]) + new + list(ids[k:]))
            else:
                flags.add("neg")
        elif r < 0.46 and t.arrays:
            ids = rng.choice(t.arrays)
            if rng.random() < 0.5 or len(t.arrays) < 2:
                spec = gen_spec(rng, len(ids), pneg)
                ops.append(["rewrap", ids, spec])
                if spec and spec[0] in ("common", "each") and spec_ok([0] * len(ids), spec):
                    for i in ids:
                        t.touched(i)
                elif spec:
                    flags.add("neg")
            else:
                ids2 = rng.choice([a for a in t.arrays if a is not ids])
                sx, sy = gen_spec(rng, len(ids), pneg, False), gen_spec(rng, len(ids2), pneg, False)
                ops.append(["rewrapxy", ids, ids2, sx, sy])
                for i in ids + ids2:
                    t.touched(i)
                if not (spec_ok([0] * len(ids), sx) and spec_ok([0] * len(ids2), sy)):
                    flags.add("neg")
        elif r < 0.58:
            i = rng.choice(live)
            e = serr(rng, pneg * 1.5)
            ops.append(["seterr", i, bits(e)])
            if e >= 0:
                if t.kind[i] == "derived":
                    t.kind[i], t.src[i], t.stale[i] = "single", {i}, False
                t.touched(i)
            else:
                flags.add("neg")
        elif r < 0.70:
            i = rng.choice(live)
            rr = serr(rng, pneg * 1.5)
            ops.append(["setrel", i, bits(rr)])
            if t.val[i] is not None and t.val[i] < 0 and rr > 0:
                flags.add("relneg")
            if t.kind[i] == "derived":
                flags.add("relderived")
            if rr >= 0:
                if t.kind[i] == "derived":
                    t.kind[i], t.src[i], t.stale[i] = "single", {i}, False
                t.touched(i)
            else:
                flags.add("neg")
        elif r < 0.77:
            i = rng.choice(live)
            v = sval(rng)
            ops.append(["setval", i, bits(v)])
            t.kind[i], t.val[i], t.src[i], t.stale[i] = "single", v, {i}, False
            t.touched(i)
        elif r < 0.84:
            reps = [i for i in live if t.kind[i] == "repeated"]
            if not reps:
                continue
            i = rng.choice(reps)
            ops.append(["sel", i, rng.choice(list(SEL_METHOD))])
            t.val[i] = None
            t.touched(i)
        elif r < 0.91:
            gen_mc(rng, t, ops, flags, pneg)
        else:
            usable = [i for i in live if not t.stale[i]]
            if not usable:
                continue
            a = rng.choice(usable)
            # src of a derived value: every heap index its formula mentions, measured leaves and
            # derived intermediates alike (casting an intermediate to a measurement by one of its
            # setters changes what the formula means, so dependants are stale after that, too)
            if rng.random() < 0.2:
                # unary minus, or a function that is defined (and bounded) everywhere
                ops.append(["un", rng.choice(["neg", "neg", "sin", "cos", "atan"]), a])
                t.push("derived", None, t.src[a] | {a})
                continue
            if rng.random() < 0.22 and t.kind[a] != "derived" and t.val[a] is not None:
                # POWERS ("all formulas"): a measurement with a negative, zero or positive central value
                # raised to a constant exponent (int or float object) or to another quantity; the
                # exponent keeps the formula inside its domain (decided here from the harness's own
                # record of the central values): integer exponents for a base <= 0, exponent >= 1 for
                # a zero base (the derivative n*x^(n-1) needs 0^(n-1)), anything for a positive base
                v = t.val[a]
                if v < 0:
                    ex = rng.choice([2.0, 2.0, 3.0, 1.0, 4.0, -1.0, -2.0])
                elif v == 0:
                    ex = rng.choice([2.0, 2.0, 3.0, 1.0])
                else:
                    ex = rng.choice([2.0, 3.0, 0.5, -1.0, 1.0, 0.0, 2.5, -0.5])
                flags.add("pow:base-" + ("negative" if v < 0 else "zero" if v == 0 else "positive"))
                cands = [i for i in usable if i != a and t.kind[i] != "derived" and t.val[i] is not None
                         and 0 < abs(t.val[i]) <= 5 and float(t.val[i]).is_integer()]
                if v > 0 and cands and rng.random() < 0.3:
                    b = rng.choice(cands)
                    flags.add("pow:exponent-quantity")
                    ops.append(["arith", "pow", ["ref", a], ["ref", b]])
                    t.push("derived", None, t.src[a] | t.src[b] | {a, b})
                elif v > 0 and rng.random() < 0.15:
                    flags.add("pow:constant-base")
                    ops.append(["arith", "pow", ["num", bits(rng.choice([2.0, 0.5, 10.0]))], ["ref", a]])
                    t.push("derived", None, t.src[a] | {a})
                else:
                    typ = "int" if rng.random() < 0.5 and float(ex).is_integer() else None
                    ops.append(["arith", "pow", ["ref", a], ["num", bits(ex)] + ([typ] if typ else [])])
                    t.push("derived", None, t.src[a] | {a})
                continue
            o = rng.choice(["add", "sub", "mul", "div"])
            k = rng.random()
            if k < 0.5:
                cands = usable if o != "div" else [i for i in usable if t.kind[i] != "derived" and
                                                   t.val[i] is not None and abs(t.val[i]) >= 0.05]
                if not cands:
                    continue
                b = rng.choice(cands)
                other, src, extra = ["ref", b], t.src[a] | t.src[b] | {a, b}, 0
            elif k < 0.7:
                c = sval(rng) or 2.0
                other, src, extra = ["num", bits(c)], t.src[a] | {a}, 0
            else:
                v, e = sval(rng) or 1.5, serr(rng, pneg * 1.5)
                other, src, extra = ["pair", bits(v), bits(e)], t.src[a] | {a}, 1
                if e < 0:
                    flags.add("neg")
                    extra = -1
            left = ["ref", a]
            if rng.random() < 0.3 and not (o == "div" and (t.kind[a] == "derived" or t.val[a] is None
                                                           or abs(t.val[a]) < 0.05)):
                left, other = other, left
            ops.append(["arith", o, left, other])
            if extra >= 0:
                if extra:
                    j = t.push("single", v)
                    src = src | {j}
                t.push("derived", None, src)
    return {"ops": ops, "malformed": malformed, "flags": sorted(flags),
            "mcN": rng.choice([120, 300]), "npseed": rng.randrange(2 ** 32)}


XY_SHAPES = ["valid-x-invalid-y", "valid-x-invalid-y", "valid-x-invalid-y", "invalid-x-valid-y",
             "both-invalid", "both-valid", "different-lengths", "different-lengths-invalid-y",
             "array-x-list-y-invalid", "list-x-array-y-invalid", "array-x-list-y-valid"]


def gen_xy_case(rng, shape=None):
    """XYDataSet built from EXISTING MeasurementArrays that already carry uncertainties (different
    from the new ones): every combination of a valid / invalid xerr with a valid / invalid yerr
    (negative number, list with a negative entry, list of the wrong length), arrays of different
    lengths, and an existing array next to a plain list.  A refused request must leave every
    element of both arrays as it was."""
    shape = shape or rng.choice(XY_SHAPES)
    n = rng.randint(1, 4)
    m = n if not shape.startswith("different-lengths") else n + rng.choice([1, 2])

    def old_spec(k):
        # the uncertainties the arrays carry beforehand: positive, so that overwriting shows
        if rng.random() < 0.5:
            return ["common", bits(rng.choice([0.75, 1.25, 2.0, 3.5]))]
        return ["each", [bits(rng.choice([0.75, 1.25, 2.0, 3.5]) + 0.125 * i) for i in range(k)]]

    def new_spec(k, valid):
        r = rng.random()
        if valid:
            if r < 0.5:
                return ["common", bits(rng.choice([0.0, 0.1, 0.25, 0.5]))]
            return ["each", [bits(rng.choice([0.0, 0.1, 0.25, 0.5])) for _ in range(k)]]
        if r < 0.4:
            return ["common", bits(-rng.choice([0.1, 0.25, 1.0]))]
        if r < 0.75 or k == 0:
            es = [rng.choice([0.1, 0.25, 0.5]) for _ in range(k)]
            es[rng.randrange(k)] *= -1
            return ["each", [bits(e) for e in es]]
        return ["each", [bits(rng.choice([0.1, 0.25, 0.5])) for _ in range(k + rng.choice([-1, 1, 2]))
                         ] or [bits(0.1), bits(0.2)]]
    xs, ys = [sval(rng) for _ in range(n)], [sval(rng) for _ in range(m)]
    ops = []
    flags = {"xy-existing:" + shape}
    mixed = "list" in shape
    # which array is made first (heap positions), and some history on the elements beforehand
    ops.append(["array", [bits(x) for x in xs], old_spec(n)])
    xid = list(range(n))
    nxt = n
    yid = None
    if not mixed or True:
        ops.append(["array", [bits(y) for y in ys], old_spec(m)])
        yid = list(range(nxt, nxt + m))
        nxt += m
    if rng.random() < 0.4:
        i = rng.randrange(nxt)
        ops.append(["seterr", i, bits(rng.choice([0.0, 0.3, 4.0]))])
    if rng.random() < 0.3:
        ops.append(["arith", rng.choice(["add", "mul"]), ["ref", 0], ["ref", n]])
        nxt += 1
    vx = shape in ("valid-x-invalid-y", "both-valid", "different-lengths", "different-lengths-invalid-y",
                   "array-x-list-y-invalid", "array-x-list-y-valid")
    vy = shape in ("invalid-x-valid-y", "both-valid", "different-lengths", "array-x-list-y-valid")
    if shape == "list-x-array-y-invalid":
        vx, vy = True, False
    if rng.random() < 0.5 and not mixed:
        # the mirror image: the second array is x
        xid, yid, n, m = yid, xid, m, n
    sx, sy = new_spec(n, vx), new_spec(m, vy)
    if mixed:
        if shape.startswith("array-x"):
            ops.append(["xymix", xid, "x", [bits(sval(rng)) for _ in range(n)], sx, sy])
        else:
            ops.append(["xymix", yid, "y", [bits(sval(rng)) for _ in range(m)], sx, sy])
    else:
        ops.append(["rewrapxy", xid, yid, sx, sy])
    if not (vx and vy) or n != m:
        flags.add("neg")
    # afterwards the elements are still usable
    if rng.random() < 0.5 and not mixed:
        ops.append(["rewrapxy", xid, yid, new_spec(n, True), new_spec(m, True)])
    if rng.random() < 0.4:
        ops.append(["setrel", rng.randrange(n + m), bits(rng.choice([0.1, 0.5]))])
    c = {"ops": ops, "malformed": not (vx and vy), "flags": sorted(flags), "mcN": None,
         "npseed": 0, "xy_shape": shape}
    if mixed:
        c["spec_only"] = True      # array next to a plain list: judged by the spec clauses alone
    return c


def fmt_spec(s, kw="error"):
    if s is None:
        return ""
    k, v = s
    if k == "common":
        return ", {}={!r}".format(kw, unbits(v))
    if k == "each":
        return ", {}={!r}".format(kw, [unbits(e) for e in v])
    if k == "rel":
        return ", relative_error={!r}".format(unbits(v))
    return ", relative_error={!r}".format([unbits(e) for e in v])


def describe(c):
    out = []
    sym = {"add": "+", "sub": "-", "mul": "*", "div": "/", "pow": "**"}

    def opnd(x):
        if x[0] == "ref":
            return "h[{}]".format(x[1])
        if x[0] == "num":
            return repr(int(unbits(x[1])) if "int" in x[2:] else unbits(x[1]))
        return "({!r}, {!r})".format(unbits(x[1]), unbits(x[2]))
    for o in c["ops"]:
        k = o[0]
        if k == "meas":
            out.append("Measurement({!r}{})".format(unbits(o[1]), "" if o[2] is None else ", {!r}".format(unbits(o[2]))))
        elif k == "rep":
            out.append("Measurement({!r}{})".format([unbits(x) for x in o[1]], fmt_spec(o[2])))
        elif k == "array":
            out.append("MeasurementArray({!r}{})".format([unbits(x) for x in o[1]], fmt_spec(o[2])))
        elif k == "xy":
            out.append("XYDataSet({!r}, {!r}{}{})".format([unbits(x) for x in o[1]], [unbits(x) for x in o[2]],
                                                        fmt_spec(o[3], "xerr"), fmt_spec(o[4], "yerr")))
        elif k == "rewrap":
            out.append("MeasurementArray(<array h{}>{})".format(o[1], fmt_spec(o[2])))
        elif k == "rewrapxy":
            out.append("XYDataSet(xdata=<array h{}>, ydata=<array h{}>{}{})".format(
                o[1], o[2], fmt_spec(o[3], "xerr"), fmt_spec(o[4], "yerr")))
        elif k == "xymix":
            lst = repr([unbits(x) for x in o[3]])
            arr = "<array h{}>".format(o[1])
            out.append("XYDataSet(xdata={}, ydata={}{}{})".format(
                arr if o[2] == "x" else lst, lst if o[2] == "x" else arr,
                fmt_spec(o[4], "xerr"), fmt_spec(o[5], "yerr")))
        elif k == "append":
            its = [unbits(v) if e is None else (unbits(v), unbits(e)) for v, e in o[2]]
            arg = repr(its[0]) if len(its) == 1 else repr(its)
            out.append("<array h{}>.{}".format(o[1], "append({})".format(arg) if o[3] is None
                                              else "insert({}, {})".format(o[3], arg)))
        elif k == "setitem":
            out.append("<array h{}>[{}] = {}".format(o[1], o[2], repr(unbits(o[3][0])) if o[3][1] is None
                                                    else repr((unbits(o[3][0]), unbits(o[3][1])))))
        elif k == "seterr":
            out.append("h[{}].error = {!r}".format(o[1], unbits(o[2])))
        elif k == "setrel":
            out.append("h[{}].relative_error = {!r}".format(o[1], unbits(o[2])))
        elif k == "setval":
            out.append("h[{}].value = {!r}".format(o[1], unbits(o[2])))
        elif k == "sel":
            out.append("h[{}].{}()".format(o[1], SEL_METHOD[o[2]]))
        elif k == "arith":
            out.append("{} {} {}".format(opnd(o[2]), sym[o[1]], opnd(o[3])))
        elif k == "un":
            out.append("-h[{}]".format(o[2]) if o[1] == "neg" else "q.{}(h[{}])".format(o[1], o[2]))
        elif k == "mcmean":
            out.append("h[{0}].error_method = MC; h[{0}].mc.use_mean_and_std()".format(o[1]))
        elif k == "mcmode":
            out.append("h[{0}].error_method = MC; h[{0}].mc.use_mode_with_confidence({1!r})".format(
                o[1], unbits(o[2])))
        elif k == "mccustom":
            out.append("h[{0}].error_method = MC; h[{0}].mc.use_custom_value_and_error({1!r}, {2!r})"
                       .format(o[1], unbits(o[2]), unbits(o[3])))
    if any(o[0].startswith("mc") for o in c["ops"]):
        out.append("[Monte Carlo sample size {}, numpy seed {}]".format(c.get("mcN"), c.get("npseed")))
    return "; ".join(out)


# ---------------------------------------------------------------- the real library
def spec_kwargs(s, kw="error"):
    if s is None:
        return {}
    k, v = s
    if k == "common":
        return {kw: unbits(v)}
    if k == "each":
        return {kw: [unbits(e) for e in v]}
    if k == "rel":
        return {"relative_error": unbits(v)}
    return {"relative_error": [unbits(e) for e in v]}


def read_heap(objs):
    import warnings
    snap = []
    with warnings.catch_warnings():
        warnings.simplefilter("ignore")
        for x in objs:
            try:
                snap.append([KIND_OF.get(type(x).__name__, type(x).__name__), float(x.value),
                             float(x.error)])
            except Exception as e:  # noqa: BLE001
                snap.append([KIND_OF.get(type(x).__name__, type(x).__name__), "exc:" + type(e).__name__,
                             "exc:" + type(e).__name__])
    return snap


def observe(q, c):
    import numpy as np
    H.reset(q)
    if c.get("mcN"):
        q.set_monte_carlo_sample_size(c["mcN"])
        np.random.seed(c.get("npseed", 0))
    objs = []
    arrays = {}
    steps = []
    excs = collections.Counter()
    sym = {"add": lambda a, b: a + b, "sub": lambda a, b: a - b, "mul": lambda a, b: a * b,
           "div": lambda a, b: a / b, "pow": lambda a, b: a ** b}
    for o in c["ops"]:
        k = o[0]
        new = []

        def opnd(x):
            if x[0] == "ref":
                return objs[x[1]]
            if x[0] == "num":
                return int(unbits(x[1])) if "int" in x[2:] else unbits(x[1])
            return (unbits(x[1]), unbits(x[2]))
        if k == "meas":
            def f():
                m = q.Measurement(unbits(o[1])) if o[2] is None else q.Measurement(unbits(o[1]), unbits(o[2]))
                new.append(m)
        elif k == "rep":
            def f():
                kw = spec_kwargs(o[2])
                xs = [unbits(x) for x in o[1]]
                m = q.Measurement(xs, kw["error"]) if kw else q.Measurement(xs)
                new.append(m)
        elif k == "array":
            def f():
                a = q.MeasurementArray([unbits(x) for x in o[1]], **spec_kwargs(o[2]))
                arrays[tuple(range(len(objs), len(objs) + len(a)))] = a
                new.extend(list(a))
        elif k == "xy":
            def f():
                ds = q.XYDataSet([unbits(x) for x in o[1]], [unbits(x) for x in o[2]],
                                 **spec_kwargs(o[3], "xerr"), **spec_kwargs(o[4], "yerr"))
                n = len(ds.xdata)
                arrays[tuple(range(len(objs), len(objs) + n))] = ds.xdata
                arrays[tuple(range(len(objs) + n, len(objs) + n + len(ds.ydata)))] = ds.ydata
                new.extend(list(ds.xdata) + list(ds.ydata))
        elif k == "rewrap":
            def f():
                q.MeasurementArray(arrays[tuple(o[1])], **spec_kwargs(o[2]))
        elif k == "rewrapxy":
            def f():
                q.XYDataSet(xdata=arrays[tuple(o[1])], ydata=arrays[tuple(o[2])],
                            **spec_kwargs(o[3], "xerr"), **spec_kwargs(o[4], "yerr"))
        elif k == "xymix":
            def f():
                arr, lst = arrays[tuple(o[1])], [unbits(x) for x in o[3]]
                ds = q.XYDataSet(xdata=arr if o[2] == "x" else lst, ydata=lst if o[2] == "x" else arr,
                                 **spec_kwargs(o[4], "xerr"), **spec_kwargs(o[5], "yerr"))
                fresh = ds.ydata if o[2] == "x" else ds.xdata
                arrays[tuple(range(len(objs), len(objs) + len(fresh)))] = fresh
                new.extend(list(fresh))
        elif k == "append":
            def f():
                a = arrays[tuple(o[1])]
                its = [unbits(v) if e is None else (unbits(v), unbits(e)) for v, e in o[2]]
                arg = its[0] if len(its) == 1 else its
                res = a.append(arg) if o[3] is None else a.insert(o[3], arg)
                old_ids = {id(x) for x in a}
                fresh = [x for x in res if id(x) not in old_ids]
                pos = len(o[1]) if o[3] is None else o[3]
                nid = list(range(len(objs), len(objs) + len(fresh)))
                arrays[tuple(list(o[1][:pos]) + nid + list(o[1][pos:]))] = res
                new.extend(fresh)
        elif k == "setitem":
            def f():
                key = tuple(o[1])
                a = arrays[key]
                v, e = o[3]
                if e is None:
                    a[o[2]] = unbits(v)
                else:
                    a[o[2]] = (unbits(v), unbits(e))
                    idx = o[2] % len(key)
                    del arrays[key]
                    arrays[key[:idx] + (len(objs),) + key[idx + 1:]] = a
                    new.append(a[o[2]])
        elif k == "seterr":
            def f():
                objs[o[1]].error = unbits(o[2])
        elif k == "setrel":
            def f():
                objs[o[1]].relative_error = unbits(o[2])
        elif k == "setval":
            def f():
                objs[o[1]].value = unbits(o[2])
        elif k == "sel":
            def f():
                getattr(objs[o[1]], SEL_METHOD[o[2]])()
        elif k == "arith":
            def f():
                a, b = opnd(o[2]), opnd(o[3])
                r = sym[o[1]](a, b)
                for x, operand in zip((o[2], o[3]), r._formula.operands):
                    if x[0] == "pair":
                        new.append(operand)
                new.append(r)
        elif k == "un":
            def f():
                new.append(-objs[o[2]] if o[1] == "neg" else getattr(q, o[1])(objs[o[2]]))
        elif k in ("mcmean", "mcmode", "mccustom"):
            def f():
                x = objs[o[1]]
                if type(x).__name__ == "DerivedValue":
                    x.error_method = q.ErrorMethod.MONTE_CARLO
                if k == "mcmean":
                    x.mc.use_mean_and_std()
                elif k == "mcmode":
                    x.mc.use_mode_with_confidence(unbits(o[2]))
                else:
                    x.mc.use_custom_value_and_error(unbits(o[2]), unbits(o[3]))
        st, e = H.call(f)
        if st == "ok":
            objs.extend(new)
        else:
            excs[e] += 1
        rec = {"out": st, "exc": None if st == "ok" else e}
        if k in ("mcmean", "mcmode", "mccustom") and o[1] < len(objs) \
                and type(objs[o[1]]).__name__ == "DerivedValue":
            # the sample set the reported numbers must be a function of (retrieved, not fresh)
            s2, smp = H.call(lambda: np.array(objs[o[1]].mc.samples(), dtype=float))
            if s2 == "ok":
                rec["mc"] = {"samples": [bits(float(x)) for x in smp]}
                if len(smp) >= 2 and np.isfinite(smp).all():
                    if k == "mcmode":
                        try:
                            cnt, edg = np.histogram(smp, bins=100)
                            rec["mc"]["counts"] = [int(x) for x in cnt]
                            rec["mc"]["edges"] = [bits(float(x)) for x in edg]
                        except ValueError:
                            # numpy cannot make 100 finite bins (samples equal up to an ulp):
                            # the mode strategy is undefined there, outside the model
                            rec["mc"]["degenerate"] = True
                else:
                    rec["mc"]["degenerate"] = True
        rec["heap"] = read_heap(objs)
        steps.append(rec)
    H.reset(q)
    return {"steps": steps, "exceptions": dict(excs)}


def model_line(c, o=None):
    """Monte Carlo requests are handed to the model WITH the sample set (and its numpy histogram)
    the library retrieved at that step"""
    ops = []
    for i, op in enumerate(c["ops"]):
        mc = (o["steps"][i].get("mc") if o and i < len(o["steps"]) else None) or {}
        if op[0] == "mcmean":
            ops.append(["mcmean", op[1], mc.get("samples", [])])
        elif op[0] == "mcmode":
            ops.append(["mcmode", op[1], mc.get("counts", []), mc.get("edges", []), op[2]])
        elif op[0] == "setitem":
            # a number goes to the element's value setter; a pair makes a new MeasuredValue(v, e)
            if op[3][1] is None:
                ops.append(["setval", op[1][op[2] % len(op[1])], op[3][0]])
            else:
                ops.append(["meas", op[3][0], op[3][1]])
        elif op[0] == "append":
            # every new element goes through MeasuredValue(v, e) (a bare number: e = 0); a list is
            # all-or-nothing, like the array constructor with per-element uncertainties
            zero = bits(0.0)
            its = [[v, zero if e is None else e] for v, e in op[2]]
            if len(its) == 1:
                ops.append(["meas", its[0][0], its[0][1]])
            else:
                ops.append(["array", [v for v, _ in its], ["each", [e for _, e in its]]])
        else:
            ops.append(op)
    return {"cmd": "c14", "ops": ops}


def degenerate(o):
    return any(s.get("mc", {}).get("degenerate") for s in o["steps"])


# ---------------------------------------------------------------- comparison and spec
def spec_check(c, o):
    """0 <= uncertainty at all times; a rejected request changes nothing; r >= 0 gives r*|value|"""
    fails = []
    inp = describe(c)
    prev = []
    for i, (op, st) in enumerate(zip(c["ops"], o["steps"])):
        heap = st["heap"]
        for j, (kind, v, e) in enumerate(heap):
            if isinstance(e, str):
                fails.append({"signature": "c14:spec:unreadable:after-{}".format(op[0]),
                              "what": "uncertainty of h[{}] cannot be read after request {} ({}): {}"
                              .format(j, i, op[0], e), "input": inp, "case": c, "step": i,
                              "impl": heap[j], "clause": "quantity left unusable"})
                return fails
            if not (e >= 0):
                fails.append({"signature": "c14:spec:negative:via-{}".format(op[0]),
                              "what": "uncertainty of h[{}] is {!r} after request {} ({})".format(
                                  j, e, i, op[0]), "input": inp, "case": c, "step": i, "impl": e,
                              "expected": ">= 0", "clause": "0 <= uncertainty"})
                return fails
        if st["out"] != "ok" and heap != prev:
            fails.append({"signature": "c14:spec:reject-changed:{}".format(op[0]),
                          "what": "request {} ({}) was rejected ({}) but changed the quantities".format(
                              i, op[0], st["exc"]), "input": inp, "case": c, "step": i,
                          "impl": heap, "expected": prev, "clause": "rejected leaves unchanged"})
            return fails
        if op[0] == "setrel" and st["out"] != "ok" and op[1] < len(prev) and unbits(op[2]) >= 0 \
                and not isinstance(prev[op[1]][1], str) and math.isfinite(prev[op[1]][1]):
            # the clause has two halves: r >= 0 GIVES r*|value| -- a request with r >= 0 (the boundary
            # r = 0 included: "this result is exact") on a quantity with a finite central value has
            # nothing to be rejected for
            fails.append({"signature": "c14:spec:relative-rejected:{}".format(prev[op[1]][0]),
                          "what": "relative uncertainty {!r} >= 0 on h[{}] (a {} quantity, value {!r}) was "
                          "rejected ({})".format(unbits(op[2]), op[1], prev[op[1]][0], prev[op[1]][1],
                                                 st["exc"]), "input": inp, "case": c, "step": i,
                          "impl": "rejected", "expected": unbits(op[2]) * abs(prev[op[1]][1]),
                          "clause": "r >= 0 gives r*|value|"})
            return fails
        if op[0] == "setrel" and st["out"] == "ok":
            r = unbits(op[2])
            kind, v, e = heap[op[1]]
            if r >= 0 and abs(e - r * abs(v)) > 1e-12 * abs(r * v) + 1e-300:
                fails.append({"signature": "c14:spec:relative", "what": "relative uncertainty {!r} on "
                              "value {!r} gave uncertainty {!r}".format(r, v, e), "input": inp,
                              "case": c, "step": i, "impl": e, "expected": r * abs(v),
                              "clause": "r >= 0 gives r*|value|"})
                return fails
        prev = heap
    return fails


def compare(c, o, m):
    inp = describe(c)
    if "fail" in m:
        return [{"signature": "c14:model-error", "kind": "disagreement", "what": "model driver: " +
                 m["fail"], "input": inp, "case": c}]
    for i, (op, si, sm) in enumerate(zip(c["ops"], o["steps"], m["steps"])):
        if sm.get("wf") is False:
            return [{"signature": "c14:model-error:edges", "kind": "disagreement", "what": "histogram "
                     "edges of request {} are not in order (hypothesis WF of C14_inv_step)".format(i),
                     "input": inp, "case": c, "step": i}]
        if si["out"] != sm["out"]:
            return [{"signature": "c14:outcome:{}:impl-{}".format(op[0], si["out"]),
                     "what": "request {} ({}) answered {}{} but the model answers {}".format(
                         i, op[0], si["out"], "" if si["out"] == "ok" else " (" + str(si["exc"]) + ")",
                         sm["out"]),
                     "input": inp, "case": c, "step": i, "impl": si["out"], "expected": sm["out"],
                     "clause": "accepted / rejected"}]
        hi, hm = si["heap"], sm["heap"]
        if len(hi) != len(hm):
            return [{"signature": "c14:heap-size:{}".format(op[0]), "what": "number of quantities "
                     "after request {} differs".format(i), "input": inp, "case": c, "step": i,
                     "impl": len(hi), "expected": len(hm)}]
        for j, (a, b) in enumerate(zip(hi, hm)):
            if a[0] != b[0]:
                return [{"signature": "c14:kind:{}".format(op[0]), "what": "h[{}] is a {} after request "
                         "{}, model: {}".format(j, a[0], i, b[0]), "input": inp, "case": c, "step": i,
                         "impl": a[0], "expected": b[0]}]
            for k, field in ((1, "value"), (2, "uncertainty")):
                mv, mb = fb(b[k])
                if isinstance(a[k], str) or not close(a[k], mv, mb, slack=256.0):
                    return [{"signature": "c14:{}:{}".format(field, op[0]),
                             "what": "{} of h[{}] after request {} ({}) differs from the model".format(
                                 field, j, i, op[0]), "input": inp, "case": c, "step": i,
                             "impl": a[k], "expected": mv, "bound": mb}]
    return []


def run_cases(ctx, cases, ref=False, with_model=True):
    import qexpy as q
    obs = [observe(q, c) for c in cases]
    H.reset(q)
    mod = ctx.model([model_line(c, o) if not c.get("spec_only") else {"cmd": "c14", "ops": []}
                     for c, o in zip(cases, obs)], ref=ref) if with_model else [None] * len(cases)
    res = {"evaluations": len(cases), "nontrivial": set(), "failures": [], "samples": [],
           "distribution": collections.Counter(), "skipped": 0}
    d = res["distribution"]
    for c, o, m in zip(cases, obs, mod):
        if degenerate(o):
            res["skipped"] += 1       # a sample set with fewer than 2 (finite) elements
            continue
        sp = spec_check(c, o)
        for f in sp:
            f["oracle"] = "independent"
        res["failures"] += sp
        if with_model and not c.get("spec_only"):
            res["failures"] += compare(c, o, m)
        if c.get("xy_shape"):
            d["xy-from-existing-arrays:" + c["xy_shape"]] += 1
            for op, st in zip(c["ops"], o["steps"]):
                if op[0] in ("rewrapxy", "xymix"):
                    d["xy-from-existing-arrays:outcome-" + st["out"]] += 1
        d["stream:" + ("malformed" if c["malformed"] else "valid")] += 1
        d["ops:%s" % ("<=5" if len(c["ops"]) <= 5 else "6-10" if len(c["ops"]) <= 10 else
                      "11-14" if len(c["ops"]) <= 14 else "15-40")] += 1
        ph = []
        for op, st in zip(c["ops"], o["steps"]):
            tag = op[0]
            was, ph = ph, st["heap"]
            if op[0] == "un":
                tag += ":" + op[1]
            if op[0] == "setitem":
                tag += ":number" if op[3][1] is None else ":pair"
            if op[0] in ("rep", "array", "rewrap"):
                tag += ":" + (op[2][0] if op[2] else "none")
            if op[0] == "arith":
                tag += ":" + op[1]
            if op[0] == "setrel" and op[1] < len(st["heap"]):
                r = unbits(op[2])
                d["setrel:{}:{}:{}".format(was[op[1]][0] if op[1] < len(was) else "?",
                                           "r<0" if r < 0 else "r=0" if r == 0 else "r>0", st["out"])] += 1
            d["op:{}:{}".format(tag, st["out"])] += 1
        for f in c["flags"]:
            d["flag:" + f] += 1
        for k, v in o["exceptions"].items():
            d["exception:" + k] += v
        if c["flags"]:
            res["nontrivial"].add(canon_hash(c["ops"]))
        if len(res["samples"]) < 5 and len(c["ops"]) <= 6:
            res["samples"].append({"history": describe(c),
                                   "impl": [[s["out"]] + [h[2] for h in s["heap"]] for s in o["steps"]]})
    return res


def chunk(sub, n):
    # every 8th history is a deliberate XYDataSet-from-existing-arrays request (all validity
    # combinations of xerr / yerr, see gen_xy_case)
    return run_cases(sub, [gen_xy_case(sub.rng) if i % 8 == 5 else
                           gen_case(sub.rng, malformed=(i % 3 == 2), long=not sub.quick and i % 2 == 0)
                           for i in range(n)])


def correspond(ctx):
    return H.run_chunks(ctx, chunk, ctx.n(700, 200000), chunk=350 if ctx.quick else 1500)


def search_chunk(sub, n):
    return run_cases(sub, [gen_xy_case(sub.rng) if i % 8 == 5 else
                           gen_case(sub.rng, malformed=(i % 2 == 1)) for i in range(n)],
                     with_model=False)


def search(ctx, broken):
    r = H.run_chunks(ctx, search_chunk, ctx.n(2000, 20000), chunk=500)
    for f in r["failures"]:
        f["oracle"], f["kind"] = "independent", "violation"
    return {"failures": r["failures"],
            "strategy": ["invariant 0 <= uncertainty, unchanged-after-reject and r*|value| evaluated "
                         "directly on the implementation's reads: {} histories".format(r["evaluations"])]}


def replay(ctx, rp):
    c = rp.get("failure", {}).get("case")
    if not c:
        return {"fails": False, "note": "replay file carries no concrete input", "payload": rp}
    r = run_cases(ctx, [c])
    return {"fails": bool(r["failures"]), "history": describe(c), "failures": r["failures"]}

"""Generation of FAULTS and ARGUMENT TYPES for the unit trees of C08 / C18 (see _units.Builder).

A fault is a request the library must reject (invalid unit string, non-string unit, malformed
definition, operation with an operand of a wrong type), sent to a leaf, to an intermediate result
or to the session before the formula is evaluated further; the exception is caught.  A rejected
request must change nothing, so the expected unit of the result is the dimensional analysis of
the units that were validly assigned.  Whether a string is invalid is decided here by the
harness's own reference parser (props.c12.ref_parse), never by the library.
"""
from fractions import Fraction as F

from props import _units as X
from props.c12 import ref_parse

# strings the grammar of C12 does not contain (typos a user makes)
BAD_FIXED = ["m2", "kg*m/s^2)", "m per s", "m^", "*m", "m/", "(m", "m**2", "2", "m^1.5", " ",
             "kg^2^3", "m^-", "1", "kg m", "m^(1/2", "N/(m", "kg*/s", "m^2.0", "k-g"]
BAD_NAMES = ["N 1", "k-g", "", "J/s", "a.b", "N^2", "(N)", " N"]
OP_FAULTS = ["add-str", "pow-str", "rsub-none", "mul-dict"]


def bad_unit_string(rng, valid=None):
    """an invalid unit string: a fixed typo or a corruption of the (valid) string the quantity
    carries — always one that the reference parser rejects"""
    for _ in range(20):
        if valid and rng.random() < 0.5:
            s = valid
            c = rng.choice(["close", "open", "hat", "space", "star", "slash", "digit", "per"])
            t = {"close": s + ")", "open": "(" + s, "hat": s + "^", "space": s + " s",
                 "star": s.replace("*", "**", 1) if "*" in s else "*" + s, "slash": s + "/",
                 "digit": "2" + s, "per": s.replace("/", " per ", 1) if "/" in s else s + " per s"}[c]
        else:
            t = rng.choice(BAD_FIXED)
        if t and ref_parse(t) is None:
            return t
    return "m2"


def bad_define(rng, names=(), syms=()):
    """(name, expression, class) of a definition request that must be rejected.
    names: currently defined names; syms: symbols used in the formula"""
    r = rng.random()
    pool = list(names) or ["N", "J", "Pa"]
    if r < 0.25:
        return [rng.choice(BAD_NAMES), rng.choice(["kg*m/s^2", "kg*m", "N*m", "A*s"]), "bad-name"]
    if names and r < 0.8:
        return [rng.choice(pool), bad_unit_string(rng, rng.choice(["kg*m/s^2", "kg*m", None])),
                "redefinition-bad-expression"]
    name = rng.choice([n for n in (list(syms) + ["N", "J", "Pa", "Wb", "Oh"]) if n not in names] or ["Zz"])
    return [name, bad_unit_string(rng, rng.choice(["kg*m/s^2", None])), "new-name-bad-expression"]


def _paths(tree, path=()):
    """paths of all nodes that build a quantity (not bare numbers), pre-order"""
    if tree[0] == "const":
        return []
    out = [path]
    if tree[0] in ("powc",) + X.WRAPPERS:
        out += _paths(tree[1], path + (1,))
    elif tree[0] == "node":
        for i, t in enumerate(tree[2]):
            out += _paths(t, path + (2, i))
    return out


def _get(tree, path):
    for k in path:
        tree = tree[k]
    return tree


def _set(tree, path, new):
    if not path:
        return new
    tree = list(tree)
    tree[path[0]] = _set(tree[path[0]], path[1:], new)
    return tree


def one_fault(rng, sub, names=(), syms=()):
    """a fault applicable to the quantity built by `sub`: (kind, arg)"""
    core = X.unwrap(sub)
    leaf = core[0] == "leaf"
    valid = core[2] if leaf and len(core) > 2 else None
    arr = leaf and len(core) > 3 and str(core[3].get("mode", "")).startswith("array")
    r = rng.random()
    if arr and r < 0.5:
        return "array-unit", bad_unit_string(rng, valid)
    if r < 0.55:
        return "unit", bad_unit_string(rng, valid)
    if r < 0.65:
        return "unit-type", rng.choice(sorted(X.BAD_UNIT_OBJECTS))
    if r < 0.83:
        return "define", bad_define(rng, names, syms)[:2]
    if r < 0.89:
        return rng.choice(["ctor", "array-ctor"]), bad_unit_string(rng, valid)
    return "op-type", rng.choice(OP_FAULTS)


def add_faults(rng, tree, n, names=(), syms=()):
    """wrap n quantity-building nodes of the tree (leaves preferred: 60 %) in a fault"""
    for _ in range(n):
        ps = _paths(tree)
        leaves = [p for p in ps if X.unwrap(_get(tree, p))[0] == "leaf" and _get(tree, p)[0] == "leaf"]
        inner = [p for p in ps if _get(tree, p)[0] in ("node", "powc")]
        pool = leaves if (leaves and (rng.random() < 0.6 or not inner)) else inner
        if not pool:
            break
        p = rng.choice(pool)
        sub = _get(tree, p)
        kind, arg = one_fault(rng, sub, names, syms)
        tree = _set(tree, p, ["fault", sub, kind, arg])
    return tree


def add_recalc(rng, tree, names=(), syms=()):
    """wrap one result node: requests that must be rejected are sent to its operands after it
    was built, then recalculate() is called on it (the unit is derived again)"""
    inner = [p for p in _paths(tree) if _get(tree, p)[0] in ("node", "powc")]
    if not inner:
        return tree
    p = rng.choice(inner)
    sub = _get(tree, p)
    kids = [sub[1]] if sub[0] == "powc" else sub[2]
    late = []
    for i, k in enumerate(kids):
        if k[0] == "leaf" and rng.random() < 0.35:
            # a VALID re-assignment of the operand's unit: the recalculated result follows it.
            # Kept dimension-compatible for +/- (same symbols, other written order) and free
            # (another unit altogether) for the other operators
            u = X.units_from_json(k[1])
            if sub[0] == "node" and sub[1] in ("add", "sub"):
                u2 = list(reversed(u))
            else:
                u2 = [(s_, e) for s_, e in u] + [(rng.choice([x for x in X.SYMS[:8] if x not in dict(u)]),
                                                 F(rng.choice([-2, -1, 1, 2])))]
                rng.shuffle(u2)
            if all(s_ not in names for s_, _ in u2):
                late.append([i, "assign", X.units_json(u2), X.unit_string(u2, rng.choice(["*", X.DOT]))])
                continue
        if k[0] != "const" and rng.random() < 0.8:
            kind, arg = one_fault(rng, k, names, syms)
            late.append([i, kind, arg])
    return _set(tree, p, ["recalc", sub, late])


LEAF_MODES = ["assign", "reassign", "clear-assign", "repeated", "array", "array-assign",
              "array-reassign"]
VALUE_TYPES = ["int", "float", "np.float64", "np.float32", "np.int64", "np.int32", "Fraction"]


def vary_types(rng, tree, p_leaf=0.5, p_num=0.7):
    """the same formula with other argument types: the constant powers and plain numbers as
    numpy scalars / Fraction / int / float, leaves created through other constructors and unit
    assignments (assignment after construction, re-assignment, array elements, repeated
    readings), values and uncertainties of other numeric types"""
    t = tree
    if t[0] == "leaf":
        if rng.random() < p_leaf:
            opt = {"mode": rng.choice(LEAF_MODES)}
            if rng.random() < 0.5:
                opt["vt"] = rng.choice(VALUE_TYPES)
                opt["et"] = rng.choice(VALUE_TYPES)
            if opt["mode"].startswith("array"):
                opt["index"] = rng.randint(0, 2)
            if "reassign" in opt["mode"]:
                opt["other"] = rng.choice(["Q^2/x", "kg*m^2/s^2", "mol", "s^-1"])
            return t[:3] + [opt]
        return t
    if t[0] == "const":
        return ["const", rng.choice([x for x in X.NUM_TYPES if x != "np.arange"])] if rng.random() < p_num else t
    if t[0] == "powc":
        k = F(t[2], t[3])
        typ = rng.choice(X.num_types_for(k)) if rng.random() < p_num else None
        return ["powc", vary_types(rng, t[1], p_leaf, p_num), t[2], t[3]] + ([typ] if typ else [])
    if t[0] == "fault":
        return ["fault", vary_types(rng, t[1], p_leaf, p_num)] + t[2:]
    if t[0] == "recalc":
        return ["recalc", vary_types(rng, t[1], p_leaf, p_num)] + t[2:]
    return ["node", t[1], [vary_types(rng, x, p_leaf, p_num) for x in t[2]]]


def decorate(rng, tree, names=(), mix=(0.30, 0.35, 0.10)):
    """tree -> tree with argument types varied (probability mix[0]), 1-3 faults (mix[1]) and a
    late fault + recalculate() (mix[2]); returns (tree, tags)"""
    tags = []
    syms = X.tree_syms(tree)
    if tree[0] in ("leaf", "const"):
        return tree, tags
    if rng.random() < mix[0]:
        tree = vary_types(rng, tree)
        tags.append("types")
    r = rng.random()
    if r < mix[1]:
        tree = add_faults(rng, tree, rng.choice([1, 1, 2, 3]), names, syms)
        tags.append("faults")
    elif r < mix[1] + mix[2]:
        tree = add_recalc(rng, tree, names, syms)
        tags.append("recalc")
    return tree, tags


# small fixed formulas (probes): every fault kind and every power type at least once per run
def probes(defs=()):
    def lf(s, u, **opt):
        return ["leaf", X.units_json([(k, F(e)) for k, e in u]), s] + ([opt] if opt else [])
    x = lf("m", [("m", 1)])
    t = lf("s", [("s", 1)])
    f = lf("kg*m/s^2", [("kg", 1), ("m", 1), ("s", -2)])
    xa = lf("m", [("m", 1)], mode="array", index=1)
    out = []
    for bad in ["m2", "kg*m/s^2)", "m per s"]:
        xf = ["fault", x, "unit", bad]
        out += [["node", "mul", [xf, t]], ["node", "div", [f, xf]], ["powc", xf, 2, 1],
                ["node", "sqrt", [xf]], ["node", "neg", [xf]], ["node", "add", [xf, x]],
                ["node", "div", [["fault", ["node", "mul", [f, x]], "unit", bad], x]]]
    out += [["node", "mul", [["fault", xa, "array-unit", "m2"], t]],
            ["node", "mul", [["fault", x, "unit-type", "int"], t]],
            ["node", "div", [["fault", x, "define", ["N", "kg*m/s^2)"]], t]],
            ["node", "div", [["fault", x, "define", ["m", "kg*)"]], t]],
            ["node", "div", [["fault", x, "define", ["N 1", "kg*m"]], t]],
            ["node", "mul", [["fault", x, "ctor", "m2"], t]],
            ["node", "mul", [["fault", x, "op-type", "add-str"], t]],
            ["recalc", ["node", "div", [x, t]], [[0, "unit", "m2"], [1, "unit", "s^"]]],
            ["recalc", ["powc", x, 3, 1], [[0, "unit", "(m"]]],
            ["recalc", ["node", "div", [x, t]], [[0, "assign", [["kg", 1, 1], ["m", 2, 1]], "kg*m^2"]]],
            ["recalc", ["powc", x, -2, 1], [[0, "assign", [["s", 1, 1]], "s"]]]]
    for k in (F(2), F(-1), F(3)):
        for typ in X.num_types_for(k):
            out.append(["powc", ["node", "div", [x, t]], k.numerator, k.denominator, typ])
    for k in (F(1, 2), F(3, 2), F(-1, 2), F(1, 3), F(2, 3)):
        for typ in X.num_types_for(k):
            out.append(["powc", ["node", "mul", [f, x]], k.numerator, k.denominator, typ])
    for typ in X.NUM_TYPES:
        out.append(["node", "mul", [["const", typ], ["node", "div", [x, t]]]])
        out.append(["node", "sub", [["node", "div", [x, t]], ["const", typ]]])
    for mode in LEAF_MODES:
        idx = {"index": 2} if mode.startswith("array") else {}
        out.append(["node", "div", [lf("kg*m", [("kg", 1), ("m", 1)], mode=mode, **idx), t]])
    return out

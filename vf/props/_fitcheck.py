"""Correspondence runs shared by C06 (optimality certificate) and C07 (fit result consistency).

C06: numpy.polyfit / scipy.curve_fit are not modelled.  The parameters and covariance the real
library returns are sent to the Lean driver (`fit.cert`), which evaluates at them the optimality
conditions the theorems of Props/C06.lean are about; this module judges the numbers.

C07: the driver's `fit.result` evaluates the fit-result model (Model/Fit.lean: FitResult) on the
implementation's own parameters and covariance; compared with what the result object reports.
"""
import collections
import math
import multiprocessing
import os

import fitgen as G
from common import bits, unbits, fb, close, canon_hash

# ---- tolerances (see notes/C06.md for how they were calibrated)
POLY_REL = 1e-12        # normal-equation residual relative to its magnitude, beyond the FB bound
POLY_COV_EPS = 1e-12    # covariance: relative difference allowed per unit of condition number
KAPPA_MAX = 1e8         # condition estimate beyond which a case is counted as skipped
COS_MAX = 5e-4          # stationarity: sqrt(g^T (J^T W J)^-1 g) / ||r/s||  (scipy ftol = 1.49e-8
#                         bounds the relative excess of S by ftol, i.e. this cosine by 1.2e-4)
XTOL_SLACK = 2e-7       # see judge_c06: residuals of size xtol*|y/s| are not judged
NL_COV_REL = 1e-2       # scipy's covariance comes from MINPACK's forward-difference Jacobian:
#                         largest difference seen in 280 000 fits 1.5e-3 (typical 1e-6..1e-4)
NOISE_FREE_REL = 1e-6


PARTIAL = collections.Counter()     # clauses not judged on otherwise judged cases
MARGIN = {}                         # largest accepted value of each certificate quantity


def _margin(key, v):
    if math.isfinite(v) and v > MARGIN.get(key, 0.0):
        MARGIN[key] = v


def _worker_observe(args):
    case, kw = args
    import qexpy as q
    return G.observe(q, case, **kw)


def observe_many(ctx, jobs):
    """jobs: list of (case, kwargs) -> list of observations; forked workers in the thorough tier"""
    import qexpy as q
    if ctx.quick or len(jobs) < 64:
        return [G.observe(q, c, **kw) for c, kw in jobs]
    n = min(16, os.cpu_count() or 1)
    with multiprocessing.get_context("fork").Pool(n) as pool:
        return pool.map(_worker_observe, jobs, chunksize=8)


def short(case):
    """compact description for evidence samples"""
    return {"model": case["model"], "degree": case.get("degree"), "n": len(case["x"]),
            "sx": case["sx"], "sy": case["sy"], "xrange": case["xrange"], "form": case["form"],
            "noise_free": case["noise_free"], "units(x,y)": case.get("scale", [1.0, 1.0]),
            "x[:3]": case["x"][:3], "y[:3]": case["y"][:3],
            **({"callable": case["callable"]} if case.get("callable") else {}),
            **({"hist": case["hist"]} if case.get("hist") else {}),
            **({"faults_before_the_fit": case["faults"]} if case.get("faults") else {}),
            **({"equal_params": case["equal_params"]} if case.get("equal_params") else {})}


def tag(case):
    t = case["model"]
    if case["model"] == "polynomial":
        t += str(case["degree"])
    return t


def case_hash(case):
    return canon_hash([case["model"], case.get("degree"), case["x"], case["y"], case["xerr"],
                       case["yerr"], case["xrange"]])


def scenario_counts(c, dist):
    """counts of the deliberate scenario classes (argument types and routes, repeated
    measurements, parameter branches) for the evidence distribution"""
    T = c.get("types")
    if T:
        dist["typed:grid={}".format("whole-numbers" if c.get("grid") == 1.0 else "quarters")] += 1
        dist["typed:container:" + T["container"]] += 1
        for key in ("x", "y"):
            dist["typed:data:" + T[key]] += 1
        for key in ("xerr", "yerr"):
            if T.get(key):
                dist["typed:{}:{}".format(key, T[key])] += 1
                dist["typed:{}-route:{}".format(key, T[key + "_route"])] += 1
                if T[key + "_route"] == "setter-late" and T.get("refit"):
                    dist["typed:{}-written-after-a-first-fit-of-the-same-data".format(key)] += 1
                if G._is_int_type(T[key]) and T[key + "_route"] in ("kw-on-marray", "kw-over-old",
                                                                    "setter", "setter-late"):
                    dist["typed:integer-typed-{}-written-by-the-error-setter".format(key)] += 1
        if c.get("xrange"):
            dist["typed:xrange:{}-of-{}".format(T["xrange_seq"], T["xrange"])] += 1
        if c["model"] == "polynomial":
            dist["typed:degrees:" + T["degrees"]] += 1
        if c.get("parguess") is not None:
            dist["typed:parguess:" + T["parguess"]] += 1
    R = c.get("rep")
    if R:
        dist["repeated-measurements:y:" + R["y"]["kind"]] += 1
        if "x" in R:
            dist["repeated-measurements:x:" + R["x"]["kind"]] += 1
        dist["repeated-measurements:" + R["how"]] += 1
    for fl in c.get("faults") or []:
        dist["rejected-request-before-the-fit:entry:" + fl[0]] += 1
        dist["rejected-request-before-the-fit:invalid:" + fl[1]] += 1
        dist["rejected-request-before-the-fit:valid-other-side:" + (
            "none" if fl[2] is None else "per-point" if isinstance(fl[2], list) else "common")] += 1
        dist["rejected-request-before-the-fit:data-objects:" + c["form"]] += 1
    if c.get("equal_params"):
        dist["fitted-parameters-exactly-equal:" + c["equal_params"]] += 1
    if c.get("signs"):
        dist["parameter-branch:{}:{}".format(c["model"], c["signs"])] += 1
    if c.get("parnames"):
        dist["parnames-keyword:" + ("not-in-alphabetical-order" if sorted(c["parnames"]) != list(
            c["parnames"]) else "alphabetical")] += 1
    if c["model"].startswith("custom:"):
        dist["user-callable:" + G.callable_tag(c)] += 1
        if c["model"] in G.POLY_LIKE:
            dist["user-model-is-a-polynomial-in-another-parameter-order"] += 1
            nm = (c.get("callable") or {}).get("name")
            if nm in G.PRESET_POLY:
                dist["user-polynomial-named-like-a-preset-polynomial"] += 1


def fault_accepted(o, dist):
    """the rejected requests before the fit (fitgen FAULT NOTES): counted by how they were rejected;
    a request the library ACCEPTED (with whatever meaning) leaves the data something else than the
    case says -- such a case is not judged (counted)"""
    acc = False
    for entry, kind, how in o.get("fault_log", []):
        dist["rejected-request-before-the-fit:answered-with:" + how] += 1
        acc = acc or how == "accepted"
    if acc:
        dist["skipped-invalid-request-was-accepted"] += 1
    return acc


def fail(sig, what, case, **kw):
    d = {"signature": sig, "what": what, "input": short(case), "case": case}
    d.update(kw)
    return d


# =====================================================================================  C06

def cert_request(case, o, p1):
    poly = case["model"] in G.PRESET_POLY
    req = {"cmd": "fit.cert", "kind": "poly" if poly else "nl", "pts": G.points(case),
           "range": [bits(v) for v in case["xrange"]] if case["xrange"] else None,
           "popt": [bits(v) for v in o["popt"]]}
    req.update(G.driver_model(case))
    if p1 is not None:
        req["p1"] = [bits(v) for v in p1]
    return req


def conditioning(ctx, cases, ref=False):
    """condition estimate of the fit problem at the generating parameters (used to decide whether
    an exception of the library is charged to it or to an ill-conditioned data set)"""
    if not cases:
        return []
    lines = []
    for c in cases:
        o = {"popt": list(c["ptrue"])}
        p1 = c["ptrue"] if (c["model"] not in G.PRESET_POLY and c["xerr"] is not None) else None
        lines.append(cert_request(c, o, p1))
    out = []
    for r in ctx.model(lines, ref=ref):
        k = unbits(r["kappa"]) if "kappa" in r else float("nan")
        out.append(k if (r.get("invok") and math.isfinite(k)) else float("inf"))
    return out


def nontrivial_c06(case):
    if isinstance(case["yerr"], list) and len(set(case["yerr"])) > 1:
        return True
    return case["model"] not in G.PRESET_POLY and case["xerr"] is not None


def judge_c06(case, o, r):
    """-> (failures, skipped: bool)"""
    fails = []
    poly = case["model"] in G.PRESET_POLY
    sfx = ":".join([tag(case), "sx-" + case["sx"] if not poly else "sx-ignored", "sy-" + case["sy"]]
                   + (["xrange"] if case["xrange"] else []))
    if "fail" in r:
        return [fail("c06:model-error", "model driver: " + r["fail"], case, kind="disagreement")], False
    m = len(o["popt"])
    want_m = G.n_params(case)
    if m != want_m:
        return [fail("c06:param-count:" + sfx, "number of parameters returned", case, impl=m,
                     expected=want_m, clause="parameters")], False
    if not all(math.isfinite(v) for v in o["popt"]):
        return [fail("c06:nonfinite:" + sfx, "non-finite parameter returned for a well-posed fit",
                     case, impl=o["popt"], clause="parameters")], False
    kappa = unbits(r["kappa"])
    cov = [[unbits(v) for v in row] for row in r["cov"]]
    if (not r["invok"]) or not math.isfinite(kappa) or kappa > KAPPA_MAX or any(
            not (cov[k][k] > 0) for k in range(m)):
        return [], True       # ill-conditioned by the model's own estimate: not judged
    g = [fb(v) for v in r["grad"]]
    if poly:
        mag = [unbits(v) for v in r["mag"]]
        for k in range(m):
            gv, gb = g[k]
            _margin("poly |normal-eq residual| / magnitude", abs(gv) / (mag[k] + 1e-300))
            if not abs(gv) <= 64 * gb + POLY_REL * mag[k]:
                fails.append(fail(
                    "c06:poly-normal-eq:" + sfx,
                    "returned coefficients do not solve the weighted normal equations "
                    "(A^T W (y - A p))_{} = {:.3e}, magnitude of its terms {:.3e}: not the 1/sigma_y^2 "
                    "weighted least-squares solution on the selected points, highest power "
                    "first".format(k, gv, mag[k]), case, impl=o["popt"],
                    expected=[unbits(v) for v in r["psol"]], clause="weighted least squares"))
                break
        S = fb(r["S"])[0]
        fac = unbits(r["fac"])
        # residual-scaled covariance; meaningless when the data are fitted exactly
        # (relative to sum((y_i/s_i)^2) over the selected points: no absolute floor, the data may be
        # in any units)
        sy_ = G.as_list(case["yerr"], len(case["y"]))
        yn2 = sum((case["y"][i] / ((sy_[i] or 1.0) if r.get("hasYerr") else 1.0)) ** 2 for i in r["sel"])
        if not fails and S > 1e-18 * yn2:
            tol = POLY_COV_EPS * kappa + 1e-10
            for i in range(m):
                for j in range(m):
                    sc = math.sqrt(cov[i][i] * cov[j][j])
                    _margin("poly |cov - model| / sqrt(CiiCjj) / kappa",
                            abs(o["cov"][i][j] - cov[i][j]) / sc / kappa)
                    if not abs(o["cov"][i][j] - cov[i][j]) <= tol * sc:
                        fails.append(fail(
                            "c06:poly-cov:" + sfx,
                            "covariance entry ({},{}) = {!r} is not (A^T W A)^-1 S/(n-m) = {!r}".format(
                                i, j, o["cov"][i][j], cov[i][j]), case, impl=o["cov"], expected=cov,
                            clause="residual-scaled covariance", factor=fac))
                        break
                if fails:
                    break
    else:
        rn = unbits(r["rn"])
        jn = [unbits(v) for v in r["jn"]]
        gv = [a for a, _ in g]
        quad = sum(gv[k] * cov[k][l] * gv[l] for k in range(m) for l in range(m))
        # (nearly) noise-free data: the optimiser stops at a relative accuracy xtol = 1.49e-8 of
        # the parameters, so r = J (p* - p) + rounding has size ~1e-8 |y/s| and lies entirely in
        # the column space of J (cosine 1 although the fit is as converged as it can be);
        # |g_k| <= |J_k/s| |r/s| by Cauchy-Schwarz, so this slack is in units of |y/s|
        gslack = XTOL_SLACK * unbits(r["yn"])
        cosp = math.sqrt(max(quad, 0.0))
        if rn > 1e-4 * unbits(r["yn"]):
            _margin("non-poly projected gradient / |r/s| (noisy data)", cosp / rn)
        if not cosp <= COS_MAX * rn + gslack + 1e-300:
            fails.append(fail(
                "c06:stationary:" + sfx,
                "returned parameters are not a stationary point of sum(((y-f)/s)^2) with "
                "s^2 = sigma_y^2 + (f'(x_i) sigma_x)^2: projected gradient / |r| = {:.3e} "
                "(allowed {:.1e}); per-parameter cosines {}".format(
                    cosp / (rn + 1e-300), COS_MAX,
                    ["%.2e" % (abs(gv[k]) / (jn[k] * rn + 1e-300)) for k in range(m)]),
                case, impl=o["popt"], clause="stationary point of the effective-variance objective",
                gauss_newton_step=[unbits(v) for v in r["step"]]))
        if case["noise_free"]:
            for k in range(m):
                pt = case["ptrue"][k]
                # (floor 1e-2 in the parameter's own units: a Gaussian's mean may be 0)
                if not abs(o["popt"][k] - pt) <= NOISE_FREE_REL * max(
                        abs(pt), 1e-2 * case.get("pscale", [1.0] * m)[k]):
                    fails.append(fail(
                        "c06:noise-free:" + sfx,
                        "generating parameter {} of noise-free data not reproduced".format(k),
                        case, impl=o["popt"], expected=case["ptrue"], clause="noise-free data"))
                    break
        # scipy's covariance is built from MINPACK's forward-difference Jacobian with step
        # 1.5e-8*|p_k|: for a parameter that is (almost) 0 the step underflows the rounding of f
        # and that column of J is noise (relative error ~ 7e-9 |f| / (|p_k| |J_k|)).  Such cases
        # say nothing about qexpy: the covariance clause is not judged on them (counted).
        yn = unbits(r["yn"])
        fd_ok = all(abs(o["popt"][k]) * jn[k] >= 1e-4 * yn for k in range(m))
        if not fd_ok:
            PARTIAL["covariance-not-judged:parameter-near-zero"] += 1
        # The mirror image: a parameter FAR from zero on the scale on which the model varies with
        # it (a peak position 1e4 widths away from 0).  MINPACK's step 1.5e-8*|p_k| is then not
        # small against that scale; column k of scipy's forward-difference Jacobian carries the
        # relative truncation error delta_k = |f(p+h) - 2f(p) + f(p-h)| / |f(p+h) - f(p-h)|
        # (measured here with the documented closed form of the model, in the metric 1/s_i), and
        # (J^T W J)^-1 inherits about 2*sqrt(kappa)*delta of it.  Where that alone uses up a third
        # of the tolerance the covariance clause says nothing about qexpy: not judged (counted).
        if fd_ok and not fails:
            coarse = fd_coarseness(case, o["popt"], r)
            _margin("non-poly 2*sqrt(kappa)*delta of scipy's forward-difference Jacobian",
                    min(coarse * 2 * math.sqrt(kappa), 1.0))
            if not coarse * 2 * math.sqrt(kappa) <= 0.3 * NL_COV_REL:
                fd_ok = False
                PARTIAL["covariance-not-judged:scipy-forward-difference-step-too-coarse"] += 1
        if not fails and fd_ok:
            for i in range(m):
                for j in range(m):
                    sc = math.sqrt(cov[i][i] * cov[j][j])
                    _margin("non-poly |cov - model| / sqrt(CiiCjj)", abs(o["cov"][i][j] - cov[i][j]) / sc)
                    if not abs(o["cov"][i][j] - cov[i][j]) <= (NL_COV_REL + 1e-12 * kappa) * sc:
                        fails.append(fail(
                            "c06:cov:" + sfx,
                            "covariance entry ({},{}) = {!r} is not ((J^T W J)^-1) = {!r} at the "
                            "returned parameters".format(i, j, o["cov"][i][j], cov[i][j]),
                            case, impl=o["cov"], expected=cov, clause="covariance = (J^T W J)^-1"))
                        break
                if fails:
                    break
    # the reported uncertainties are the square roots of the diagonal
    return fails, False


def fd_coarseness(case, popt, r):
    """largest relative truncation error of a column of the forward-difference Jacobian that
    scipy.optimize.curve_fit (MINPACK, step sqrt(eps)*|p_k|) builds at popt; inf when it cannot be
    evaluated"""
    try:
        f = G.ref_fn(case)
        sel = r["sel"]
        xs = [case["x"][i] for i in sel]
        sw = [1.0 / (fb(v)[0] or 1.0) for v in r["s"]]
        if len(sw) != len(xs):
            sw = [1.0] * len(xs)
        worst = 0.0
        for k, pk in enumerate(popt):
            h = 1.4901161193847656e-08 * (abs(pk) or 1.0)
            up, dn = list(popt), list(popt)
            up[k], dn[k] = pk + h, pk - h
            a = [f(x, *up) for x in xs]
            b = [f(x, *popt) for x in xs]
            c = [f(x, *dn) for x in xs]
            num = math.sqrt(sum(((ai - 2 * bi + ci) * w) ** 2 for ai, bi, ci, w in zip(a, b, c, sw)))
            den = math.sqrt(sum(((ai - ci) * w) ** 2 for ai, ci, w in zip(a, c, sw)))
            if not den > 0:
                return float("inf")
            worst = max(worst, num / den)
        return worst
    except (OverflowError, ZeroDivisionError, ValueError, KeyError, TypeError):
        return float("inf")


def run_c06(ctx, cases, ref=False):
    jobs = [(c, {"full": False}) for c in cases]
    first = [i for i, c in enumerate(cases)
             if c["model"] not in G.PRESET_POLY and c["xerr"] is not None]
    jobs += [(cases[i], {"full": False, "drop_xerr": True}) for i in first]
    obs = observe_many(ctx, jobs)
    main, p1s = obs[:len(cases)], dict(zip(first, obs[len(cases):]))
    failures, nontrivial, skipped = [], set(), 0
    dist = collections.Counter()
    samples, lines, idx, raised = [], [], [], []
    for i, (c, o) in enumerate(zip(cases, main)):
        dist["model:" + tag(c)] += 1
        dist["form:" + c["form"]] += 1
        dist["sy:" + c["sy"]] += 1
        if c["model"] not in G.PRESET_POLY:
            dist["sx:" + c["sx"]] += 1
            dist["noise_free" if c["noise_free"] else "noisy"] += 1
        dist["xrange" if c["xrange"] else "whole"] += 1
        u = c.get("scale", [1.0, 1.0])
        dist["units:x*{:g}".format(u[0])] += 1
        dist["units:y*{:g}".format(u[1])] += 1
        if c.get("offset") is not None:
            dist["offset-data:|x|/span=1e{}..".format(int(math.floor(math.log10(c["ratio"]))))] += 1
            dist["offset-data:" + ("position-is-a-parameter" if c["model"] in (
                "gaussian", "custom:lpeak") else "user-model-in-(x-x0)")] += 1
        scenario_counts(c, dist)
        if c["model"] in G.PRESET_POLY and c.get("parguess") is not None:
            dist["poly-with-parguess:" + c.get("guess_kind", "list")] += 1
            dist["poly-with-parguess:" + ("with-xerr" if c["xerr"] is not None else "no-xerr")] += 1
            if not c.get("degrees_kw", True):
                dist["poly-with-parguess:default-degree-without-degrees-keyword"] += 1
        if c["xrange"]:
            if c["xrange"][0] in c["x"]:
                dist["xrange:low-bound-on-a-data-point"] += 1
            if c["xrange"][1] in c["x"]:
                dist["xrange:high-bound-on-a-data-point"] += 1
        if fault_accepted(o, dist):
            skipped += 1
            continue
        if "exception" in o:
            raised.append((c, o))
            continue
        p1 = None
        if i in p1s:
            if "exception" in p1s[i]:
                skipped += 1
                continue
            p1 = p1s[i]["popt"]
        lines.append(cert_request(c, o, p1))
        idx.append((c, o))
        if p1 is not None:
            # the first pass (same data, x-uncertainties dropped) is a fit in its own right
            c1 = dict(c, xerr=None, sx="none")
            lines.append(cert_request(c1, p1s[i], None))
            idx.append((c1, p1s[i]))
            dist["first-pass-fits-certified"] += 1
    for (c, o), k in zip(raised, conditioning(ctx, [c for c, _ in raised], ref=ref)):
        if k > KAPPA_MAX:
            skipped += 1
            dist["skipped-ill-conditioned"] += 1
            continue
        failures.append(fail("c06:exception:{}:{}".format(tag(c), o["exception"].split(":")[0]),
                             "a well-posed fit (condition estimate {:.1e}) raised {}".format(
                                 k, o["exception"]), c,
                             clause="every way of passing the data / every x-range"))
    mod = ctx.model(lines, ref=ref) if lines else []
    PARTIAL.clear()
    MARGIN.clear()
    for (c, o), r in zip(idx, mod):
        fs, sk = judge_c06(c, o, r)
        if sk:
            skipped += 1
            dist["skipped-ill-conditioned"] += 1
            continue
        failures += fs
        if "n" in r:
            dist["points-selected:{}".format(min(r["n"] // 5 * 5, 30))] += 1
        if nontrivial_c06(c):
            nontrivial.add(case_hash(c))
        if len(samples) < 5 and not fs:
            samples.append({"case": short(c), "impl_params": o["popt"], "impl_errors": o["perr"],
                            "certificate": {"n_selected": r.get("n"),
                                            "grad": [fb(v)[0] for v in r["grad"]],
                                            "kappa": unbits(r["kappa"])}})
    dist.update(PARTIAL)
    dist = dict(dist)
    dist["largest-value-seen (tolerances: poly 64*FB+1e-12, cov 1e-12*kappa, cosine 5e-4, cov 1e-2)"] = \
        {k: float("%.3g" % v) for k, v in MARGIN.items()}
    return {"evaluations": len(idx) + len(raised), "nontrivial": nontrivial, "failures": failures,
            "samples": samples, "distribution": dict(dist), "skipped": skipped}


# =====================================================================================  C07

def result_request(case, o):
    req = {"cmd": "fit.result", "params": [bits(v) for v in o["popt"]],
           "cov": [[bits(v) for v in row] for row in o["cov"]],
           "xs": [bits(v) for v in G.eval_points(case)], "pts": G.points(case)}
    req.update(G.driver_model(case))
    return req


def nontrivial_c07(o):
    m = len(o["popt"])
    return m >= 2 and any(o["cov"][i][j] != 0 for i in range(m) for j in range(m) if i != j)


def judge_c07(case, o, r, session=None):
    """-> (failures, n_skipped_comparisons); session: answer of the Lean session model
    (`fit.session`) for the history of the case -- which parameter pairs still carry the record
    the fit wrote (theorem C07_session_invisible: all of them, for every history without
    reset_correlations)"""
    fails, skipped = [], 0
    t = tag(case)
    if "fail" in r:
        return [fail("c07:model-error", "model driver: " + r["fail"], case, kind="disagreement")], 0
    m = len(o["popt"])
    # the unit of y (values, uncertainties and residuals are in it): floors below are relative to
    # it, never absolute -- the data may be in any units (1e-6 ... 1e6)
    yunit = max(abs(v) for v in case["y"]) or 1.0

    def cmp(sig, what, impl, pair, clause, slack=256.0, unit=None, **kw):
        nonlocal skipped
        v, b = fb(pair)
        unit = yunit if unit is None else unit
        if not (math.isfinite(v) and math.isfinite(b)) or b > 1e-6 * abs(v) + 1e-9 * unit:
            skipped += 1          # ill-conditioned by the model's own error bound
            return True
        if not close(impl, v, b, slack=slack):
            fails.append(fail(sig, what, case, impl=impl, expected=v, bound=b, clause=clause, **kw))
            return False
        return True

    # fit_function(x): scalars, list, array -- and the same again after the history of the case
    # (a returned value switched to Monte Carlo, the result drawn on a plot, ...)
    extra = ("fit_npscalar", "fit_typed", "fit_typedlist", "fit_array_f32", "fit_array_i64",
             "fit_array_i32")
    forms = ["fit", "fit_list", "fit_array"] + [k for k in extra if k in o]
    if "fit@after" in o:
        forms += ["fit@after", "fit_list@after", "fit_array@after"] + [
            k + "@after" for k in extra if k + "@after" in o]
    hist = " after the history {}".format(case.get("hist")) if case.get("hist") else ""
    for form in forms:
        ok = True
        hsig = ":after-history" if (form.endswith("@after") or (
            case.get("hist") and case.get("hist_first"))) else ""
        base, _, sfx_ = form.partition("@")
        types = o.get(base + "_types" + ("@" + sfx_ if sfx_ else ""))
        if types is None and case.get("hist_first"):
            types = o.get(base + "_types@after")
        for i, x in enumerate(G.eval_points(case)):
            iv, ie = o[form][i]
            mv, me, mq = r["fit"][i]
            ty = types[i] if types else "float"
            sl = 256.0
            ok = cmp("c07:fit-function-value:" + t + hsig,
                     "fit_function({!r}) [{}, argument of type {}] is not the model at the returned "
                     "parameters{}".format(x, form, ty, hist if hsig else ""), iv, mv,
                     "fit_function = model at the returned parameters", x=x, slack=sl)
            ok = ok and cmp("c07:fit-function-error:" + t + hsig,
                            "uncertainty of fit_function({!r}) [{}, argument of type {}] is not "
                            "sqrt(g^T Cov g){}".format(x, form, ty, hist if hsig else ""), ie, me,
                            "uncertainty band", x=x, slack=sl)
            if ok:
                q, qb = fb(mq)
                if math.isfinite(q) and qb <= 1e-6 * abs(q) + 1e-12 * yunit * yunit and not close(
                        ie * ie, q, qb, slack=1024.0, rel=1e-9):
                    fails.append(fail("c07:band:" + t, "fit_function({!r}).error^2 differs from "
                                      "g^T Cov g".format(x), case, impl=ie * ie, expected=q,
                                      clause="uncertainty band", x=x))
                    ok = False
            if not ok:
                break
        if not ok:
            break
    if o["fit_list_type"] != "list" or o["fit_array_type"] != "ndarray" or o.get(
            "fit_list_type@after", "list") != "list" or o.get("fit_array_type@after", "ndarray") != "ndarray":
        fails.append(fail("c07:fit-function-container:" + t, "fit_function of a list/array returned "
                          "{}/{}".format(o["fit_list_type"], o["fit_array_type"]), case,
                          clause="evaluation points as lists and arrays"))
    # a history of evaluating / drawing / customising returned values moves nothing else either
    if "chi2@after" in o:
        for key, what in (("chi2", "chi-squared"), ("res", "the residuals"), ("perr", "the parameter "
                          "uncertainties"), ("popt", "the parameter values"), ("regcorr", "the registered "
                          "correlations"), ("str", "the printed result")):
            before, after = o[key], o[key + "@after"]
            if key == "regcorr" and session is not None and "kept" in session:
                # judged where the session model says the record is still the fit's
                kept = session["kept"]
                before = [[v for v, kp in zip(row, krow) if kp] for row, krow in zip(before, kept)]
                after = [[v for v, kp in zip(row, krow) if kp] for row, krow in zip(after, kept)]
            if after != before:
                fails.append(fail("c07:moved-by-history:" + key + ":" + t, "{} changed over the history "
                                  "{}".format(what, case.get("hist")), case, impl=o[key + "@after"],
                                  expected=o[key], clause="one fit result"))
    # residuals
    if len(o["res"]) != len(case["x"]):
        fails.append(fail("c07:residual-count:" + t, "number of residuals", case,
                          impl=len(o["res"]), expected=len(case["x"]), clause="residuals"))
    else:
        for i, ((iv, ie), (mv, _mv2, me)) in enumerate(zip(o["res"], r["res"])):
            if not cmp("c07:residual:" + t, "residual {} is not y_i - fit_function(x_i)".format(i),
                       iv, mv, "residuals", i=i):
                break
            if not cmp("c07:residual-error:" + t, "uncertainty of residual {}".format(i), ie, me,
                       "residuals", i=i):
                break
    # chi-squared
    cmp("c07:chi2:" + t + ":sy-" + case["sy"], "chi-squared is not the sum of (residual/sigma_y)^2 "
        "over the points with sigma_y > 0", o["chi2"], r["chi2"], "chi-squared", unit=1.0)
    # registered correlations and the printed matrix: one covariance
    printed = G.parse_corr_matrix(o["str"])
    if printed is None or len(printed) != m * m:
        fails.append(fail("c07:printed-matrix-shape:" + t, "cannot read an {0}x{0} correlation matrix "
                          "from str(result)".format(m), case, impl=o["str"]))
        printed = None
    hi = G.parse_corr_matrix(o["str_hi"]) if o.get("str_hi") else None
    if hi is not None and (printed is None or len(hi) != m * m or any(
            not abs(a - b) <= 5.1e-4 * max(1.0, abs(b)) for a, b in zip(printed, hi))):
        hi = None           # not the same matrix at higher precision: use the 3-decimal text only
    for i in range(m):
        for j in range(m):
            cv, cb = fb(r["corr"][i][j])
            if hi is not None and i != j and math.isfinite(cv) and cb <= 1e-9:
                # full precision: equal to the registered correlation, or to it rounded to the 3
                # decimals of the display
                # (numpy's inverse of an ill-conditioned normal matrix is symmetric only up to
                # kappa*eps -- 1.4e-9 seen for degree 5 -- and pair (i,j) is registered from the
                # upper triangle: the matrix's own asymmetry is allowed for)
                hv = hi[i * m + j]
                asym = abs(hv - hi[j * m + i])
                if not (abs(hv - cv) <= 1e-9 + 4 * asym + 64 * cb or abs(hv - round(cv, 3)) <= 1e-12):
                    fails.append(fail(
                        "c07:reported-correlation:" + t,
                        "entry ({},{}) of the reported correlation matrix is {!r} (str(result) with "
                        "numpy printing 17 digits); the parameter uncertainties and the registered "
                        "covariance give {!r}".format(i, j, hv, cv), case, impl=hv, expected=cv,
                        clause="uncertainties, printed matrix and registered correlations from one "
                               "covariance"))
            if i == j:
                if o["regcorr"][i][j] != 1.0:
                    fails.append(fail("c07:self-correlation", "get_correlation(p, p) != 1", case,
                                      impl=o["regcorr"][i][j], expected=1.0))
            else:
                cmp("c07:registered-correlation:" + t,
                    "get_correlation(result[{}], result[{}]) is not cov_ij/(sigma_i sigma_j)".format(
                        i, j), o["regcorr"][i][j], r["regcorr"][i][j],
                    "registered correlations come from the one covariance", unit=1.0)
            if printed is not None and math.isfinite(cv):
                pv = printed[i * m + j]
                if not (abs(pv - cv) <= 5.1e-4 + 64 * cb or abs(pv - cv) <= 5.1e-4 * abs(cv) + 64 * cb):
                    fails.append(fail(
                        "c07:printed-correlation:" + t,
                        "entry ({},{}) of the printed correlation matrix is {!r}; the parameter "
                        "uncertainties and the registered covariance give {!r}".format(i, j, pv, cv),
                        case, impl=pv, expected=cv,
                        clause="uncertainties, printed matrix and registered correlations from one "
                               "covariance"))
    # report each clause once
    seen, out = set(), []
    for f in fails:
        if f["signature"] not in seen:
            seen.add(f["signature"])
            out.append(f)
    return out, skipped


def run_c07(ctx, cases, ref=False):
    obs = observe_many(ctx, [(c, {"full": True}) for c in cases])
    failures, nontrivial, skipped = [], set(), 0
    dist = collections.Counter()
    samples, lines, idx, raised = [], [], [], []
    for c, o in zip(cases, obs):
        dist["model:" + tag(c)] += 1
        dist["sy:" + c["sy"]] += 1
        dist["sx:" + c["sx"]] += 1
        dist["form:" + c["form"]] += 1
        u = c.get("scale", [1.0, 1.0])
        dist["units:x*{:g}".format(u[0])] += 1
        dist["units:y*{:g}".format(u[1])] += 1
        if c.get("offset") is not None:
            dist["offset-data"] += 1
        scenario_counts(c, dist)
        if c["model"] in G.PRESET_POLY and c.get("parguess") is not None:
            dist["poly-with-parguess"] += 1
        if c.get("hist"):
            for st in c["hist"]:
                dist["history:" + st[0] + (":value-asked-as-" + st[2] if st[0] == "switch" else "")] += 1
                if st[0] == "session":
                    dist["history:session:" + st[1]] += 1
                elif st[0] == "config":
                    dist["history:config:defaults-restored-by:" + st[3]] += 1
                    dist["history:config:result-read-meanwhile:" + st[2]] += 1
                    for ch in st[1]:
                        dist["history:config:{}-by-{}".format(ch[0], ch[2])] += 1
            for lg in o.get("hist_log", []):
                if lg[0] == "plot":
                    dist["history:plot:" + lg[1]] += 1
            dist["history:fit_function-first-evaluated-after-it" if c.get("hist_first") else
                 "history:fit_function-evaluated-before-and-after"] += 1
        else:
            dist["history:none"] += 1
        if fault_accepted(o, dist):
            skipped += 1
            continue
        if "exception" in o and c["sy"] == "yzeros":
            # the library's first pass (sigma = sigma_y, some exactly 0) is not a least-squares
            # problem; when it does not get through the case says nothing
            skipped += 1
            dist["skipped-first-pass-with-sigma_y=0"] += 1
            continue
        if "exception" in o:
            raised.append((c, o))
            continue
        if not all(math.isfinite(v) and v > 0 for v in o["perr"]):
            skipped += 1
            dist["skipped-degenerate-covariance"] += 1
            continue
        lines.append(result_request(c, o))
        idx.append((c, o))
    # the histories in the vocabulary of the session model (one request line per case with a history)
    sess_idx = [k for k, (c, _) in enumerate(idx) if c.get("hist")]
    sess_lines = [G.session_requests(idx[k][0]) for k in sess_idx]
    for (c, o), k in zip(raised, conditioning(ctx, [c for c, _ in raised], ref=ref)):
        if k > KAPPA_MAX:
            skipped += 1
            dist["skipped-ill-conditioned"] += 1
            continue
        failures.append(fail("c07:exception:{}:{}".format(tag(c), o["exception"].split(":")[0]),
                             "fitting or reading the result (condition estimate {:.1e}) raised "
                             "{}".format(k, o["exception"]), c))
    mod = ctx.model(lines + sess_lines, ref=ref) if lines else []
    sess = dict(zip(sess_idx, mod[len(lines):]))
    mod = mod[:len(lines)]
    for k_, ((c, o), r) in enumerate(zip(idx, mod)):
        sm = sess.get(k_)
        if sm is not None:
            if "fail" in sm:
                failures.append(fail("c07:model-error:session", "session model: " + sm["fail"], c,
                                     kind="disagreement"))
                sm = None
            else:
                dist["session-model:histories-run"] += 1
                if all(all(row) for row in sm["kept"]):
                    dist["session-model:all-parameter-records-kept"] += 1
        fs, sk = judge_c07(c, o, r, session=sm)
        skipped += sk
        failures += fs
        if nontrivial_c07(o):
            nontrivial.add(case_hash(c))
            if max(abs(o["cov"][i][j]) for i in range(len(o["popt"]))
                   for j in range(len(o["popt"])) if i != j) <= 1e-8:
                dist["registered covariance below 1e-8 in magnitude"] += 1
        if len(samples) < 5 and not fs:
            samples.append({"case": short(c), "impl_params": o["popt"], "xs": c["xs"],
                            "impl_fit_function": o["fit"],
                            "model_fit_function": [[fb(v)[0], fb(e)[0]] for v, e, _ in r["fit"]],
                            "impl_chi2": o["chi2"], "model_chi2": fb(r["chi2"])[0]})
    return {"evaluations": len(cases), "nontrivial": nontrivial, "failures": failures,
            "samples": samples, "distribution": dict(dist), "skipped": skipped}


def closed_form_search(ctx, cases):
    """independent oracle (no generated table, no Lean): the documented closed forms of the
    models in Python's math module, on the implementation's own parameters"""
    obs = observe_many(ctx, [(c, {"full": True}) for c in cases])
    failures = []
    tried = 0
    for c, o in zip(cases, obs):
        if "exception" in o:
            continue
        tried += 1
        f = G.ref_fn(c)
        p = o["popt"]
        yunit = max(abs(v) for v in c["y"]) or 1.0
        t = tag(c)
        try:
            pairs = [(x, iv, "") for x, (iv, _) in zip(G.eval_points(c), o["fit"])]
            for key in ("fit@after", "fit_list@after", "fit_array@after"):
                pairs += [(x, iv, " [{} the history {}]".format(key, c.get("hist")))
                          for x, (iv, _) in zip(G.eval_points(c), o.get(key, []))]
            for x, iv, when in pairs:
                rv = f(x, *p)
                scale = sum(abs(v) * abs(x) ** (len(p) - 1 - k) for k, v in enumerate(p)) \
                    if c["model"] in G.PRESET_POLY else abs(rv)
                if abs(iv - rv) > 1e-9 * (scale + 1e-9 * yunit):
                    failures.append(fail(
                        "c07:fit-function-value:" + t,
                        "fit_function({!r}) = {!r}, the model at the returned parameters {} is "
                        "{!r}{}".format(x, iv, p, rv, when), c, impl=iv, expected=rv, oracle="independent",
                        kind="violation", clause="fit_function = model at the returned parameters",
                        x=x))
                    break
            else:
                chi = 0.0
                sy = G.as_list(c["yerr"], len(c["x"]))
                bad = False
                for i, (x, y) in enumerate(zip(c["x"], c["y"])):
                    rv = y - f(x, *p)
                    if abs(o["res"][i][0] - rv) > 1e-9 * (abs(y) + abs(rv) + 1e-9 * yunit):
                        failures.append(fail(
                            "c07:residual:" + t, "residual {} = {!r}, y_i - model(x_i) = {!r}".format(
                                i, o["res"][i][0], rv), c, impl=o["res"][i][0], expected=rv,
                            oracle="independent", kind="violation", clause="residuals", i=i))
                        bad = True
                        break
                    if sy[i] > 0:
                        chi += (rv / sy[i]) ** 2
                if not bad and abs(o["chi2"] - chi) > 1e-7 * (chi + 1e-12):
                    failures.append(fail("c07:chi2:" + t + ":sy-" + c["sy"],
                                         "chi-squared {!r}, definition gives {!r}".format(o["chi2"], chi),
                                         c, impl=o["chi2"], expected=chi, oracle="independent",
                                         kind="violation", clause="chi-squared"))
        except (OverflowError, ZeroDivisionError, ValueError):
            continue
    return failures, tried

"""C06 — fit parameters are the weighted least-squares optimum."""
import fitgen as G
from props import _fitcheck as X

ID = "C06"
SECTIONS = ["ops", "fitters"]
LEAN_MODULES = ["QExPy.Props.C06"]
THEOREMS = ["QExPy.C06_wls_expansion", "QExPy.C06_wls_optimal", "QExPy.C06_wls_unique", "QExPy.C06_wls_near_optimal",
            "QExPy.C06_vandermonde_posdef", "QExPy.C06_polyfit_characterisation",
            "QExPy.C06_order",
            "QExPy.C06_cov_factor", "QExPy.C06_select_mem", "QExPy.C06_select_sublist",
            "QExPy.C06_select_all", "QExPy.C06_grad", "QExPy.C06_stationary_iff",
            "QExPy.C06_noise_free", "QExPy.C06_eff_var",
            "QExPy.C03_diff_correct"]
RULE = ("seeded data sets (distinct x, more points than parameters; sigma_y none/common/per-point "
        "spread x20; sigma_x none/common/per-point/per-point with some exact zeros/exactly one "
        "non-zero/common with one element set to 0 afterwards, for exponential, Gaussian and three "
        "user models; polynomial degrees 1-5; x-ranges whose bounds may coincide with data points; "
        "30 % of the problems rescaled to other units, x and y independently by 1e-12..1e12; OFFSET "
        "abscissae |x|/span = 1e2..1e5 (position as a fit parameter up to 6e3, as a constant of the "
        "user model up to 1e5) with x-uncertainties and noisy y; closed-form fits called with "
        "parguess (list / tuple, with and without x-uncertainties); ARGUMENT TYPES: problems in whole "
        "numbers / quarters with every number (data, uncertainties, range bounds, degree, guess) as "
        "int, float, numpy float64 / float32 / int64 / int32, element of an integer array, Fraction, "
        "lists of each and arrays of each dtype, and the uncertainties through every route "
        "(keyword, MeasurementArray constructor, keyword on existing arrays with or without old "
        "uncertainties, the error setter element by element, relative uncertainties); y (and x) "
        "points recorded as REPEATED MEASUREMENTS (uncertainty = error on the mean / standard "
        "deviation / propagated error of the error-weighted mean, as chosen on the point); "
        "generating parameters and guess on a mirrored or negative branch (Gaussian width < 0, "
        "sine (-a, -b), negative amplitudes and rates); USER MODELS AS EVERY KIND OF CALLABLE (lambda, "
        "def, renamed lambda, functools.partial, object with __call__ with and without a __name__, "
        "bound method, decorated function, *params) UNDER EVERY KIND OF NAME (each pre-set model "
        "name, 'custom', other names), among them user formulas that are polynomials with the "
        "parameters in another order or a power left out; REJECTED REQUESTS BEFORE THE FIT: the "
        "caller's MeasurementArrays / arrays / lists first sent through q.fit / XYDataSet (positional "
        "and keyword form) with one side's uncertainties invalid (wrong length, negative entry, "
        "negative number) and the other side's valid, then fitted the ordinary way; data "
        "passed as lists, arrays, MeasurementArrays, XYDataSet (keywords or arrays carrying the "
        "uncertainties), XYDataSet.fit, keywords, enum model, y as DerivedValues, Plot.fit) fitted by "
        "the real library; the returned parameters/covariance are certified by the Lean driver "
        "against the proved optimality conditions; non-trivial = per-point weights unequal or "
        "sigma_x > 0; distinct by hash of the data set")
ASSUMPTIONS = ["theorems are over the reals; binary64 rounding is covered by the FB running error "
               "bound (polynomial normal equations) and by tolerances tied to scipy's documented "
               "termination criteria (ftol = xtol = 1.49e-8)",
               "numpy.polyfit and scipy.optimize.curve_fit are not modelled: their outputs are "
               "certified a posteriori, convergence of the iteration is not proved",
               "cases whose normal matrix has a condition estimate above 1e8 are counted as skipped"]
TRUSTED = ["modelled not verified: numpy.polyfit, scipy.optimize.curve_fit (outputs certified), numpy "
           "element-wise functions, CPython float arithmetic"]
LEVEL_TEXT = ("Lean 4 theorems: a solution of the weighted normal equations minimises the weighted "
              "sum of squares (and is the only minimiser when A^T W A is positive definite), "
              "gradient/stationarity formula of the effective-variance objective from the proved "
              "derivative rules, x-range filter, noise-free optimum; the implementation's outputs are "
              "certified against these conditions on every run")
LEVEL_NOTE = ("partial: convergence of scipy's iteration is not modelled (a-posteriori certificate "
              "instead); conditioning limits the tolerance (reported as skipped cases)")
TECHNIQUE = ("Lean 4 machine-checked proof over a model whose pre-set fit functions are regenerated "
             "from the Python AST + a-posteriori optimality certificate evaluated by the compiled "
             "Lean model on the real library's outputs")


def gen_cases(ctx, n):
    cases = G.corpus(ID)
    # every data-passing form and every sigma pattern appears at least once per run
    for form in G.FORMS:
        cases.append(G.gen_case(ctx.rng, form=form))
    for d in range(1, 6):
        cases.append(G.gen_case(ctx.rng, family="polynomial", degree=d, sy="point"))
    fams = ("exponential", "gaussian", "custom:sine", "custom:growth", "custom:lorentz")
    for k, fam in enumerate(fams):
        cases.append(G.gen_case(ctx.rng, family=fam, sx="point", noise_free=False))
        cases.append(G.gen_case(ctx.rng, family=fam, sx="common", noise_free=True))
        # x-uncertainties some of which are exactly 0 (exactly known abscissae): every model with
        # "some zeros", and in turn "exactly one non-zero" / "common, one element set to 0 later"
        cases.append(G.gen_case(ctx.rng, family=fam, sx="zeros", noise_free=False))
        cases.append(G.gen_case(ctx.rng, family=fam, sx=("one", "edit")[k % 2], noise_free=False,
                                form=("marrays", "xyds", "xyds.fit", "lists")[k % 4]))
        cases.append(G.gen_case(ctx.rng, family=fam, sx=("edit", "one")[k % 2], noise_free=False,
                                form=("xyds.fit", "marrays", "arrays", "xyds")[k % 4]))
    # the same problems in other units (x and y scaled independently by 1e-12 ... 1e12): the optimum,
    # the effective variance (slope at the data point) and the certificate are unit-free
    ext = [(1e-6, 1.0), (1e-12, 1e-12), (1e6, 1e-6), (1e-12, 1e12), (1e12, 1e6)]
    for k, fam in enumerate(fams):
        cases.append(G.gen_case(ctx.rng, family=fam, sx=("point", "common", "zeros")[k % 3],
                                noise_free=(k == 3), units=ext[k]))
        cases.append(G.gen_case(ctx.rng, family="polynomial", degree=k + 1, units=ext[-1 - k]))
    cases += targeted(ctx)
    while len(cases) < n:
        u = None
        if ctx.rng.random() < 0.3:
            u = (ctx.rng.choice(G.SCALES), ctx.rng.choice(G.SCALES))
        t = ctx.rng.random()
        if t < 0.08:
            cases.append(offset_case(ctx.rng, units=u))
        elif t < 0.20:
            cases.append(G.gen_typed(ctx.rng))
        elif t < 0.25:
            cases.append(G.gen_repeated(ctx.rng, want_range=None))
        elif t < 0.30:
            cases.append(G.gen_signed(ctx.rng, units=u))
        elif t < 0.36:
            cases.append(G.add_faults(ctx.rng, G.gen_case(ctx.rng, units=u, form=ctx.rng.choice(
                G.FAULT_FORMS[:2] * 2 + G.FAULT_FORMS[2:]))))
        else:
            cases.append(G.gen_case(ctx.rng, units=u))
    return cases


POSITION = ("gaussian", "custom:lpeak")     # models whose position is a fit parameter


def offset_case(rng, family=None, ratio=None, units=None, **kw):
    """OFFSET data (|x|/span = 1e2 ... 1e5) with x-uncertainties and noisy y.  Models whose position
    is a PARAMETER stay below |x|/span = 3e3 (Gaussian 6e3): scipy's default forward-difference
    Jacobian uses the step 1.5e-8*|p|, which for a position p = 1e5 widths away from 0 is no longer
    small against the width -- scipy's own optimum/covariance then miss the certificate on the
    unchanged code (measured: notes/C06.md); user models written in (x - x0) have parameters of order
    one and go up to 1e5"""
    family = family or rng.choice(G.OFFSET_FAMILIES)
    if ratio is None:
        top = {"gaussian": 6e3, "custom:lpeak": 3e3}.get(family, 1e5)
        import math
        ratio = 10 ** rng.uniform(2, math.log10(top))
    return G.gen_offset(rng, family=family, ratio=ratio, units=units, **kw)


def targeted(ctx):
    """scenario classes generated deliberately in every run (counted in the evidence)"""
    rng = ctx.rng
    out = []
    # (1) offset abscissae, every non-polynomial model, x-uncertainties, noisy y
    for fam in G.OFFSET_FAMILIES:
        pos = fam in POSITION
        for ratio in ((3e2, 2e3, 5e3 if fam == "gaussian" else 3e3) if pos else (1e3, 1e4, 1e5)):
            out.append(offset_case(rng, family=fam, ratio=ratio * rng.uniform(0.7, 1.0),
                                   want_range=False))
        out.append(offset_case(rng, family=fam, want_range=True))
    for k, u in enumerate([(1e-6, 1.0), (1e3, 1e-3), (1e-12, 1e6)]):
        out.append(offset_case(rng, family=G.OFFSET_FAMILIES[2 + k], ratio=3e4, units=u))
        out.append(offset_case(rng, family=POSITION[k % 2], ratio=2e3, units=u))
    # (2) polynomial-family fits called WITH parguess (list and tuple), with and without x-uncertainties
    k = 0
    for fam, d in (("linear", None), ("quadratic", None), ("polynomial", 1), ("polynomial", 2),
                   ("polynomial", 3), ("polynomial", 4), ("polynomial", 5)):
        for sx in ("none", "common" if k % 2 else "zeros"):
            c = G.gen_case(rng, family=fam, degree=d, sx=sx, guess=True,
                           sy=("none", "common", "point")[k % 3],
                           form=G.FORMS[k % len(G.FORMS)])
            c["guess_kind"] = ("list", "tuple")[(k // 2) % 2]
            out.append(c)
            k += 1
    out += typed_cases(rng) + repeated_cases(rng) + signed_cases(rng) + callable_cases(rng)
    out += fault_cases(rng)
    return out


def fault_cases(rng, want_range=None, every=1):
    """(7) REJECTED REQUESTS BEFORE THE FIT (fitgen FAULT NOTES): the caller's data objects
    (MeasurementArrays, an XYDataSet's arrays, numpy arrays, lists) are first sent with a request
    that must be rejected -- one side's uncertainties invalid (wrong length, negative), the other
    side's valid -- through every entry that takes them, then fitted the ordinary way: the fit is
    the weighted optimum for the data the user has"""
    out = []
    fams = ("exponential", "gaussian", "custom:sine", "custom:growth", "custom:lorentz", "linear",
            "quadratic", "polynomial", "custom:decay", "custom:affine")
    k = 0
    for kind in G.FAULT_KINDS:
        for entry in G.FAULT_ENTRIES:
            k += 1
            if k % every:
                continue
            fam = fams[k % len(fams)]
            # x exactly known / with uncertainties of its own; y with and without uncertainties
            c = G.gen_case(rng, family=fam, form=G.FAULT_FORMS[(k // 2) % 2 if k % 8 else 2 + (k // 8) % 2],
                           noise_free=False, want_range=want_range,
                           sx=("none", "point", "none", "common")[k % 4],
                           sy=("point", "common", "none", "point")[(k // 4) % 4])
            out.append(G.add_faults(rng, c, entry=entry, kind=kind, count=1 if k % 3 else 2))
    return out


def callable_cases(rng, want_range=None, every=1):
    """(6) USER MODELS AS EVERY KIND OF CALLABLE UNDER EVERY KIND OF NAME (fitgen CALLABLE NOTES): a
    user function is fitted as what it computes -- also when it is called `linear`, `quadratic`,
    `polynomial`, `gaussian`, `exponential` or `custom`, is a functools.partial, an object with
    __call__, a bound method, a decorated function or takes *params"""
    out = []
    fams = ("custom:affine", "custom:sine", "custom:parabola", "custom:growth", "custom:cubic0",
            "custom:lorentz", "custom:lpeak", "custom:decay")
    forms = ("lists", "xyds.fit", "marrays", "plot.fit", "kwargs", "arrays", "xyds")
    k = 0
    for kind in G.NAMED_KINDS:
        for name in G.PRESET_NAMES + ("custom", "Linear"):
            fam = fams[k % len(fams)]
            if name in ("quadratic", "polynomial") and k % 2:
                fam = ("custom:cubic0", "custom:lpeak")[(k // 2) % 2]      # three parameters
            k += 1
            if k % every:
                continue
            c = G.gen_case(rng, family=fam, form=forms[k % len(forms)], want_range=want_range,
                           noise_free=(k % 4 == 0), sx=("none", "common", "point")[k % 3])
            out.append(G.add_callable(rng, c, kind, name))
    for k, kind in enumerate(("partial", "object", "lambda", "partial", "object")):
        c = G.gen_case(rng, family=fams[k], form=forms[k], want_range=want_range)
        out.append(G.add_callable(rng, c, kind))
    # the polynomial-like user formulas under the colliding names, by def, in every data-passing form
    for k, form in enumerate(G.FORMS):
        fam, name = (("custom:affine", "linear"), ("custom:parabola", "quadratic"),
                     ("custom:cubic0", "polynomial"), ("custom:cubic0", "quadratic"))[k % 4]
        if (k + 1) % every:
            continue
        c = G.gen_case(rng, family=fam, form=form, want_range=want_range, noise_free=(k % 3 == 0))
        out.append(G.add_callable(rng, c, "def", name))
    return out


def typed_cases(rng, want_range=None):
    """(3) ARGUMENT TYPES: every number of the request in every numeric type that represents it
    exactly, the uncertainties through every route that writes them (fitgen TYPE NOTES)"""
    out = []
    routes = [r for r in G.ERR_ROUTES if r != "kw"]
    per_point = ("list:int", "array:int64", "list:Fraction", "array:int32", "list:np.int64",
                 "array:float32", "list:np.float32", "list:arange-elem", "list:float",
                 "array:float64", "list:np.int32")
    polys = (("linear", None), ("quadratic", None), ("polynomial", 3), ("polynomial", 1),
             ("polynomial", 4), ("polynomial", 2))
    k = 0
    # per-point y-uncertainties of every type through every route, closed-form fits
    for route in routes:
        for rep in range(3):
            fam, d = polys[k % len(polys)]
            force = {"container": ("marrays", "xyds.marrays")[k % 2], "yerr_route": route,
                     "yerr": per_point[k % len(per_point)]}
            wr = want_range
            if route == "setter-late" and rep < 2:
                # the data set object is fitted once, its uncertainties are rewritten, it is fitted
                # again (with and without an x-range)
                force.update({"container": "xyds.marrays", "refit": True})
                wr = want_range if want_range is not None else bool(rep)
            out.append(G.gen_typed(rng, family=fam, degree=d, grid=1.0, sy="point", want_range=wr,
                                   force=force))
            k += 1
    # a common y-uncertainty of every scalar type, through the routes / by keyword
    for k2, t in enumerate(G.SCALAR_TYPES):
        fam, d = polys[k2 % len(polys)]
        out.append(G.gen_typed(rng, family=fam, degree=d, grid=1.0, sy="common", want_range=want_range,
                               force={"container": ("marrays", "lists", "xyds.marrays", "xyds", "plot")[k2 % 5],
                                      "yerr_route": routes[k2 % 5], "yerr": t}))
    # the other models (x-uncertainties too), plain containers, quarter grid
    nl = ("exponential", "gaussian", "custom:sine", "custom:growth", "custom:lorentz")
    for k3, fam in enumerate(nl):
        out.append(G.gen_typed(rng, family=fam, grid=1.0, sy="point", want_range=want_range,
                               force={"container": ("marrays", "xyds.marrays")[k3 % 2],
                                      "yerr_route": routes[k3 % len(routes)],
                                      "xerr_route": routes[(k3 + 2) % 5],
                                      "yerr": per_point[k3], "xerr": per_point[(k3 + 1) % 4]}))
        out.append(G.gen_typed(rng, family=fam, want_range=want_range,
                               force={"container": ("lists", "xyds", "plot")[k3 % 3]}))
    for k4 in range(4):
        fam, d = polys[k4]
        out.append(G.gen_typed(rng, family=fam, degree=d, grid=0.25, want_range=want_range))
    return out


def repeated_cases(rng, **kw):
    """(4) y (and x) points recorded as REPEATED MEASUREMENTS: sigma_y is what the point reports
    (error on the mean by default), never the scatter of its readings"""
    out = []
    hows = ("fit(x, yarr)", "fit(xarr, yarr)", "XYDataSet(x, yarr)", "XYDataSet(xarr, yarr).fit",
            "plot(x, yarr).fit")
    fams = ("linear", "quadratic", "polynomial", "exponential", "gaussian", "custom:sine",
            "custom:growth", "custom:lorentz")
    kinds = ("mean-error", "std", "std-and-back", "weighted")
    for k, fam in enumerate(fams):
        out.append(G.gen_repeated(rng, family=fam, kind=kinds[k % 4], form=hows[k % 5], **kw))
        out.append(G.gen_repeated(rng, family=fam, kind="mean-error", form=hows[(k + 2) % 5],
                                  xrep=True, sx="point", **kw))
    return out


def signed_cases(rng, **kw):
    """(5) THE OTHER BRANCH: generating parameters and guess on a mirrored / negative branch
    (Gaussian with a negative width, (a, b) -> (-a, -b) of a sine, negative amplitudes)"""
    out = []
    for fam in sorted(G.SIGN_VARIANTS):
        for v in G.SIGN_VARIANTS[fam]:
            out.append(G.gen_signed(rng, family=fam, variant=v, **kw))
    out.append(G.gen_signed(rng, family="gaussian", variant="neg-std", noise_free=True, **kw))
    out.append(G.gen_signed(rng, family="gaussian", variant="neg-std", sx="point", noise_free=False, **kw))
    return out


def correspond(ctx):
    return X.run_c06(ctx, gen_cases(ctx, ctx.n(260, 50000)))


def search(ctx, broken):
    out = {"failures": [], "strategy": []}
    try:
        r = X.run_c06(ctx, gen_cases(ctx, ctx.n(300, 3000)), ref=True)
        for f in r["failures"]:
            f["oracle"] = "independent"
            f["kind"] = "violation"
        out["failures"] += r["failures"]
        out["strategy"].append("certificate evaluated by the reference driver (tables the theorems "
                               "were last proved for): {} cases".format(r["evaluations"]))
    except Exception as e:  # noqa: BLE001
        out["strategy"].append("reference driver unavailable: {}".format(e))
    return out


def replay(ctx, rp):
    c = rp.get("failure", {}).get("case")
    if not c:
        return {"fails": False, "note": "replay file carries no concrete input", "payload": rp}
    r = X.run_c06(ctx, [c])
    # a change to a regenerated table moves the model along with the library: the replay is judged
    # by the reference driver (tables the theorems were last proved for) as well, as search() does
    try:
        r["failures"] += X.run_c06(ctx, [c], ref=True)["failures"]
    except Exception:  # noqa: BLE001  (reference driver unavailable)
        pass
    return {"fails": bool(r["failures"]), "failures": r["failures"]}

"""Shared harness for the units properties C08, C12, C13, C18.

Implementation side: the real library in-process (`import qexpy as q`), observed only through
`q.Measurement(unit=..)`, `.unit`, arithmetic, `q.define_unit`, `q.clear_unit_definitions`,
`q.set_unit_style`, MeasurementArray edits and `qexpy.utils.units.parse_unit_string`.
Model side: driver commands `uparse`, `uprint`, `utree` (lean/QExPy/Driver/Units.lean).
Independent oracles (used to accuse the code): exponent arithmetic on Fractions (`dim_tree`),
a recursive-descent reference parser (`ref_parse`), denotation of generated syntax trees.

Exponent maps are always compared semantically: zero entries invisible, order irrelevant.
"""
import collections
import warnings
from fractions import Fraction as F

from common import canon_hash

DOT = "⋅"
SYMS = ["m", "s", "kg", "A", "K", "mol", "cd", "g", "x", "y", "base", "Hz", "aB", "Q"]


# ----------------------------------------------------------------------------- helpers
def reset(q):
    q.reset_default_configuration()
    q.reset_correlations()
    q.clear_unit_definitions()


def sem(u):
    """semantic normal form of an exponent map: sorted tuple of (symbol, Fraction) without zeros"""
    out = {}
    for k, v in (u.items() if isinstance(u, dict) else u):
        out[k] = v   # later duplicates overwrite (dict semantics)
    return tuple(sorted((k, v) for k, v in out.items() if v != 0))


def fr(x):
    """exponent read from the implementation (int / float / Fraction) as an exact small fraction"""
    return F(x).limit_denominator(1000) if not isinstance(x, int) else F(x)


def units_json(u):
    """[(sym, Fraction)] -> driver JSON"""
    return [[k, v.numerator, v.denominator] for k, v in u]


def units_from_json(j):
    return [(k, F(n, d)) for k, n, d in j]


def sem_json(j):
    return sem(dict(units_from_json(j)))


def show(s):
    return ", ".join("{}:{}".format(k, v) for k, v in s) or "(none)"


def unit_string(u, sep="*"):
    """write an integer exponent map as a unit string in the given factor order"""
    parts = []
    for k, v in u:
        assert v.denominator == 1
        parts.append(k if v == 1 else "{}^{}".format(k, v.numerator))
    return sep.join(parts)


# ----------------------------------------------------------------------------- impl observers
class ParseTimeout(Exception):
    pass


def _alarm(*_):
    raise ParseTimeout()


def impl_parse(s, limit=3.0):
    """parse_unit_string on the real code -> ('ok', sem map) | ('reject', exception class) |
    ('timeout', seconds): no answer within `limit` seconds of CPU time for one short string"""
    import signal
    from qexpy.utils import units as U
    old = signal.signal(signal.SIGVTALRM, _alarm)
    signal.setitimer(signal.ITIMER_VIRTUAL, limit)
    try:
        with warnings.catch_warnings():
            warnings.simplefilter("ignore")
            r = U.parse_unit_string(s)
        signal.setitimer(signal.ITIMER_VIRTUAL, 0)
        return "ok", sem({k: fr(v) for k, v in r.items()})
    except ParseTimeout:
        return "timeout", str(limit)
    except Exception as e:  # noqa: BLE001  any exception raised for a bad request is a rejection
        return "reject", type(e).__name__
    finally:
        signal.setitimer(signal.ITIMER_VIRTUAL, 0)
        signal.signal(signal.SIGVTALRM, old)


def zero_syms(s):
    """symbols that the library's parser reads with exponent 0 from the unit string s"""
    from qexpy.utils import units as U
    if not s:
        return []
    try:
        with warnings.catch_warnings():
            warnings.simplefilter("ignore")
            return [k for k, v in U.parse_unit_string(s).items() if v == 0]
    except Exception:  # noqa: BLE001
        return []


def impl_unit_of(qobj):
    """the unit of a quantity as the library shows it, read back through the library's parser"""
    s = qobj.unit
    if s == "":
        return s, ("ok", ())
    return s, impl_parse(s)


def build_tree(q, tree, leaves):
    """build the formula with real quantities; tree = driver JSON; leaves collects leaf strings"""
    tag = tree[0]
    if tag == "leaf":
        u = units_from_json(tree[1])
        s = tree[2] if len(tree) > 2 else unit_string(u)
        leaves.append(s)
        return q.Measurement(2.0 + 0.25 * (len(leaves) % 5), 0.1, unit=s)
    if tag == "const":
        return 2
    if tag == "powc":
        a = build_tree(q, tree[1], leaves)
        k = F(tree[2], tree[3])
        return a ** (k.numerator if k.denominator == 1 else k.numerator / k.denominator)
    op, args = tree[1], [build_tree(q, t, leaves) for t in tree[2]]
    if op == "neg":
        return -args[0]
    if op == "sqrt":
        return q.sqrt(args[0])
    if op == "add":
        return args[0] + args[1]
    if op == "sub":
        return args[0] - args[1]
    if op == "mul":
        return args[0] * args[1]
    if op == "div":
        return args[0] / args[1]
    if op == "sin":
        return q.sin(args[0])
    raise ValueError(op)


def strip_tree(tree):
    """driver form of a tree (leaf strings removed)"""
    if tree[0] == "leaf":
        return ["leaf", tree[1]]
    if tree[0] == "const":
        return ["const"]
    if tree[0] == "powc":
        return ["powc", strip_tree(tree[1]), tree[2], tree[3]]
    return ["node", tree[1], [strip_tree(t) for t in tree[2]]]


def pretty_tree(tree):
    tag = tree[0]
    if tag == "leaf":
        return "[{}]".format(tree[2] if len(tree) > 2 else unit_string(units_from_json(tree[1])))
    if tag == "const":
        return "2"
    if tag == "powc":
        return "({})**({})".format(pretty_tree(tree[1]), F(tree[2], tree[3]))
    op, a = tree[1], tree[2]
    if len(a) == 1:
        return "{}({})".format(op, pretty_tree(a[0]))
    sym = {"add": "+", "sub": "-", "mul": "*", "div": "/"}[op]
    return "({} {} {})".format(pretty_tree(a[0]), sym, pretty_tree(a[1]))


def observe_tree(q, tree, defs=(), clear=True):
    """-> {'unit': str, 'parsed': ('ok', sem)|('reject',..), 'warn': bool} or {'exception': ..}"""
    if clear:
        reset(q)
        for name, ustr in defs:
            q.define_unit(name, ustr)
    out = {}
    with warnings.catch_warnings(record=True) as w:
        warnings.simplefilter("always")
        try:
            r = build_tree(q, tree, [])
            s = r.unit
            out["unit"] = s
        except Exception as e:  # noqa: BLE001
            out["exception"] = "{}: {}".format(type(e).__name__, e)
    out["warn"] = any(issubclass(x.category, UserWarning) for x in w)
    if "unit" in out:
        out["parsed"] = ("ok", ()) if out["unit"] == "" else impl_parse(out["unit"])
    return out


# ----------------------------------------------------------------------------- independent oracle
def expand(u, defs):
    """harness's own expansion of named units: u = [(sym, Fraction)], defs = {name: [(sym, F)]}"""
    out = collections.OrderedDict()

    def go(sym, e, depth):
        if depth > 50:
            raise RecursionError
        if sym in defs:
            for k, v in defs[sym]:
                go(k, v * e, depth + 1)
        else:
            out[sym] = out.get(sym, F(0)) + e
    for k, v in u:
        go(k, v, 0)
    return out


def dim_tree(tree, defs):
    """dimensional analysis on exponent functions: -> ('ok', dict) | ('mismatch',) | ('nodim',)
    'nodim' = a non-constant operand without unit (outside the domain of C08/C18)"""
    tag = tree[0]
    if tag == "leaf":
        d = {k: v for k, v in expand(units_from_json(tree[1]), defs).items() if v != 0}
        return ("ok", d) if d else ("nodim",)
    if tag == "const":
        return ("const",)
    if tag == "powc":
        a = dim_tree(tree[1], defs)
        if a[0] != "ok":
            return a if a[0] != "const" else ("nodim",)
        k = F(tree[2], tree[3])
        d = {s: e * k for s, e in a[1].items() if e * k != 0}
        return ("ok", d) if d else ("nodim",)
    op = tree[1]
    rs = [dim_tree(t, defs) for t in tree[2]]
    for r in rs:
        if r[0] in ("mismatch", "nodim"):
            return r
    ds = [r[1] if r[0] == "ok" else None for r in rs]
    if op in ("neg", "sqrt"):
        if ds[0] is None:
            return ("nodim",)
        d = {s: (e / 2 if op == "sqrt" else e) for s, e in ds[0].items()}
        return ("ok", d)
    if op in ("add", "sub"):
        if ds[0] is None and ds[1] is None:
            return ("nodim",)
        if ds[0] is None or ds[1] is None:
            return ("ok", dict(ds[0] if ds[1] is None else ds[1]))
        return ("ok", dict(ds[0])) if ds[0] == ds[1] else ("mismatch",)
    if op in ("mul", "div"):
        sg = 1 if op == "mul" else -1
        d = dict(ds[0] or {})
        for s, e in (ds[1] or {}).items():
            d[s] = d.get(s, F(0)) + sg * e
        d = {s: e for s, e in d.items() if e != 0}
        if ds[0] is None and ds[1] is None:
            return ("nodim",)
        return ("ok", d) if d else ("nodim",)
    return ("nodim",)


def _simulate(tree, defs, exact):
    """the arithmetic of units.py on one tree, either with the number types Python uses (int,
    binary64 from `/` and from fractional powers) or exactly (Fraction); returns the list of
    (unit dict, warning) of every node in evaluation order.  Only used to recognise cases in
    which binary64 exponent arithmetic takes a different decision than exact arithmetic."""
    trace = []

    def unpack(u, count=1):
        res = collections.OrderedDict()
        for name, e in u.items():
            if name in defs:
                sub = unpack(collections.OrderedDict(
                    (k, (v if exact else (int(v) if v.denominator == 1 else float(v))))
                    for k, v in defs[name]), e * count)
            else:
                sub = {name: e * count}
            for k, v in sub.items():
                res[k] = res.get(k, 0) + v
        return res

    def try_pack(unit, pre):
        ratio = 0
        for name, e in unit.items():
            pe = pre.get(name, 0)
            if not pe:
                return 0
            r = (F(e) / pe) if exact else e / pe
            if ratio and ratio != r:
                return 0
            if not ratio:
                ratio = r
        for name in pre:
            if not unit.get(name, 0):
                return 0
        return ratio

    def go(t):
        tag = t[0]
        if tag == "leaf":
            u = collections.OrderedDict((k, F(n, d) if exact else n) for k, n, d in t[1])
            trace.append((dict(u), False))
            return u, False
        if tag == "const":
            return collections.OrderedDict(), True
        if tag == "powc":
            a, _ = go(t[1])
            k = F(t[2], t[3])
            p = k if exact else (k.numerator if k.denominator == 1 else k.numerator / k.denominator)
            u = collections.OrderedDict((s, e * p) for s, e in a.items())
            trace.append((dict(u), False))
            return u, False
        op = t[1]
        rs = [go(x) for x in t[2]]
        warn = False
        if all(u or c for u, c in rs):
            un = [unpack(u) for u, _ in rs]
            if op in ("neg",):
                r = un[0]
            elif op == "sqrt":
                r = collections.OrderedDict((s, e / 2) for s, e in un[0].items())
            elif op in ("add", "sub"):
                nz = [{s: e for s, e in x.items() if e != 0} for x in un]
                if un[0] and un[1] and nz[0] != nz[1]:
                    warn, r = True, collections.OrderedDict()
                else:
                    r = un[0] or un[1]
            else:
                sg = 1 if op == "mul" else -1
                r = collections.OrderedDict(un[0])
                for s, e in un[1].items():
                    r[s] = r.get(s, 0) + sg * e
            r = collections.OrderedDict((s, e) for s, e in r.items() if e != 0)
            for name, d in defs.items():
                pre = {k: (v if exact else (int(v) if v.denominator == 1 else float(v))) for k, v in d}
                k = try_pack(r, pre)
                if k:
                    r = collections.OrderedDict([(name, k)])
                    break
        else:
            r = collections.OrderedDict()
        trace.append((dict(r), warn))
        return r, False
    go(tree)
    return trace


def float_ok(tree, defs):
    """True when binary64 exponent arithmetic takes the same decisions as exact arithmetic on
    this tree (same keys and warnings at every node, values equal up to 1e-9)"""
    try:
        a = _simulate(tree, defs, True)
        b = _simulate(tree, defs, False)
    except (ZeroDivisionError, RecursionError):
        return False
    if len(a) != len(b):
        return False
    for (ua, wa), (ub, wb) in zip(a, b):
        if wa != wb or set(ua) != set(ub):
            return False
        if any(abs(float(ua[k]) - float(ub[k])) > 1e-9 for k in ua):
            return False
    return True


# ----------------------------------------------------------------------------- tree generator
POWERS = [F(2), F(3), F(-1), F(-2), F(1, 2), F(1, 3), F(2, 3), F(3, 2), F(-1, 2), F(-3)]


def rand_units(rng, syms, nmin=1, nmax=3, emax=4):
    n = rng.randint(nmin, min(nmax, len(syms)))
    ks = rng.sample(syms, n)
    return [(k, F(rng.choice([e for e in range(-emax, emax + 1) if e != 0]))) for k in ks]


def leaf(rng, u, defs=None):
    """a leaf whose (expanded) dimension is u; with definitions active it may be written in
    named or mixed form (a defined name to some power times the remaining base factors)"""
    u = [(k, v) for k, v in u if v != 0]
    if defs and rng.random() < 0.6:
        name = rng.choice(list(defs))
        ex = expand([(name, F(1))], defs)
        k = F(rng.choice([-2, -1, 1, 1, 2, 3]))
        d = dict(u)
        rest = {s: d.get(s, F(0)) - k * ex.get(s, F(0)) for s in sorted(set(d) | set(ex))}
        rest = [(s, e) for s, e in rest.items() if e != 0]
        if all(e.denominator == 1 and abs(e) <= 9 for _, e in rest):
            u = [(name, k)] + sorted(rest)
    rng.shuffle(u)
    return ["leaf", units_json(u), unit_string(u, rng.choice(["*", DOT, "*"]))]


def ok_exps(d):
    return all(v.denominator <= 6 and abs(v.numerator) <= 24 for v in d.values())


def route(rng, d, depth, defs=None):
    """a tree whose dimension is exactly d (dict sym -> Fraction, non-empty), by a random route"""
    ints = all(v.denominator == 1 for v in d.values())
    choices = []
    if ints:
        choices += ["leaf"] * (3 if depth > 0 else 8)
    if depth > 0:
        choices += ["mul", "mul", "div", "neg", "sqrt", "pow", "mulc"]
    if not choices:
        choices = ["sqrt", "pow"]
    for _ in range(12):
        c = rng.choice(choices)
        if c == "leaf":
            return leaf(rng, list(d.items()), defs)
        if c == "neg":
            return ["node", "neg", [route(rng, d, depth - 1, defs)]]
        if c == "mulc":
            args = [route(rng, d, depth - 1, defs), ["const"]]
            if rng.random() < 0.5:
                args.reverse()
            return ["node", "mul", args]
        if c == "sqrt":
            d2 = {s: 2 * e for s, e in d.items()}
            if ok_exps(d2):
                return ["node", "sqrt", [route(rng, d2, depth - 1, defs)]]
        if c == "pow":
            k = rng.choice(POWERS)
            d2 = {s: e / k for s, e in d.items()}
            if ok_exps(d2):
                return ["powc", route(rng, d2, depth - 1, defs), k.numerator, k.denominator]
        if c in ("mul", "div"):
            # d = d1 (+|-) d2 with both parts non-empty
            syms = list(d)
            extra = rng.choice([s for s in SYMS[:8] if s not in d] or SYMS[:8])
            d2 = {}
            for s in syms:
                if rng.random() < 0.6:
                    d2[s] = F(rng.choice([-2, -1, 1, 2, 3]))
            if rng.random() < 0.5 or not d2:
                d2[extra] = F(rng.choice([-2, -1, 1, 2]))
            sg = 1 if c == "mul" else -1
            d1 = {s: d.get(s, F(0)) - sg * d2.get(s, F(0)) for s in sorted(set(d) | set(d2))}
            d1 = {s: e for s, e in d1.items() if e != 0}
            if d1 and d2 and ok_exps(d1) and ok_exps(d2):
                return ["node", c, [route(rng, d1, depth - 1, defs), route(rng, d2, depth - 1, defs)]]
    if ints:
        return leaf(rng, list(d.items()), defs)
    import math
    big = 1
    for v in d.values():
        big = big * v.denominator // math.gcd(big, v.denominator)
    d2 = {s: big * e for s, e in d.items()}
    if big == 2:
        return ["node", "sqrt", [leaf(rng, list(d2.items()), defs)]]
    return ["powc", leaf(rng, list(d2.items()), defs), 1, big]


def gen_tree(rng, depth, syms, defs=None):
    """random in-domain tree (no dimensionless intermediate, +/- operands dimension-equal)"""
    defs = defs or {}
    if depth <= 0 or rng.random() < 0.15:
        u = rand_units(rng, syms, emax=3 if defs else 4)
        rng.shuffle(u)
        return ["leaf", units_json(u), unit_string(u, rng.choice(["*", DOT, "*"]))]
    c = rng.choice(["mul", "mul", "div", "div", "add", "sub", "add", "pow", "sqrt", "neg", "addc"])
    if c in ("mul", "div"):
        return ["node", c, [gen_tree(rng, depth - 1, syms, defs), gen_tree(rng, depth - 1, syms, defs)]]
    if c in ("neg", "sqrt"):
        return ["node", c, [gen_tree(rng, depth - 1, syms, defs)]]
    if c == "pow":
        k = rng.choice(POWERS)
        return ["powc", gen_tree(rng, depth - 1, syms, defs), k.numerator, k.denominator]
    if c == "addc":
        args = [gen_tree(rng, depth - 1, syms, defs), ["const"]]
        if rng.random() < 0.5:
            args.reverse()
        return ["node", rng.choice(["add", "sub", "mul"]), args]
    a = gen_tree(rng, depth - 1, syms, defs)
    da = dim_tree(a, defs)
    if da[0] != "ok" or not ok_exps(da[1]):
        return a
    b = route(rng, da[1], depth - 1, defs)
    args = [a, b] if rng.random() < 0.5 else [b, a]
    return ["node", c, args]


def differently_ordered_sum(tree, defs=None):
    """does the tree contain a +/- whose operands' (expanded) units differ in written order?"""
    defs = defs or {}
    found = [False]

    def order(t):
        # insertion order of the exact result, mirroring dict semantics
        tag = t[0]
        if tag == "leaf":
            return [k for k, v in expand(units_from_json(t[1]), defs).items() if v != 0]
        if tag == "const":
            return []
        if tag == "powc":
            return order(t[1])
        op = t[1]
        rs = [order(x) for x in t[2]]
        if op in ("neg", "sqrt"):
            return rs[0]
        if op in ("add", "sub"):
            if rs[0] and rs[1] and rs[0] != rs[1] and sorted(rs[0]) == sorted(rs[1]):
                found[0] = True
            return rs[0] or rs[1]
        d = dim_tree(t, defs)
        keys = list(rs[0]) + [s for s in rs[1] if s not in rs[0]]
        return [s for s in keys if d[0] == "ok" and s in d[1]]
    try:
        order(tree)
    except Exception:  # noqa: BLE001
        return False
    return found[0]


def tree_ops(tree, acc=None):
    acc = acc if acc is not None else collections.Counter()
    if tree[0] == "powc":
        acc["pow"] += 1
        tree_ops(tree[1], acc)
    elif tree[0] == "node":
        acc[tree[1]] += 1
        for t in tree[2]:
            tree_ops(t, acc)
    else:
        acc[tree[0]] += 1
    return acc


def tree_syms(tree, acc=None):
    acc = acc if acc is not None else []
    if tree[0] == "leaf":
        for k, _, _ in tree[1]:
            if k not in acc:
                acc.append(k)
    elif tree[0] == "powc":
        tree_syms(tree[1], acc)
    elif tree[0] == "node":
        for t in tree[2]:
            tree_syms(t, acc)
    return acc


def case_hash(c):
    return canon_hash(c)


# ----------------------------------------------------------------------------- histories (C08/C18)
def subtrees(tree):
    out = [tree]
    if tree[0] == "powc":
        out += subtrees(tree[1])
    elif tree[0] == "node":
        for t in tree[2]:
            out += subtrees(t)
    return out


def tree_size(tree):
    return len(subtrees(tree))


def unprintable_power(d, defs_h):
    """is the dimension d an exact power k of some defined compound with denominator(k) > 10?
    `__power_num2str` prints exponents with `limit_denominator(10)`, so such a power cannot be
    shown exactly (display precision of the library, outside the domain of C13/C18)"""
    for name in defs_h:
        ex = {k: v for k, v in expand([(name, F(1))], defs_h).items() if v != 0}
        if not ex or set(ex) != set(d):
            continue
        ks = {d[s] / ex[s] for s in ex}
        if len(ks) == 1 and next(iter(ks)).denominator > 10:
            return True
    return False


def judge_eval(pid, tree, defs_h, o, m=None):
    """judge one evaluated tree.  defs_h: harness definitions {name: [(sym, F)]};
    o: observe_tree output; m: model reply or None.  Returns list of failures."""
    fails = []
    want = dim_tree(tree, defs_h)
    p = pid.lower()
    if want[0] == "ok" and unprintable_power(want[1], defs_h):
        return []   # the exact power of a named unit has a denominator > 10: not printable
    root = tree[1] if tree[0] == "node" else tree[0]
    base = {"input": pretty_tree(tree), "tree": tree}

    def expanded_impl():
        st, val = o["parsed"]
        if st != "ok":
            return None
        return sem({k: v for k, v in expand(list(val), defs_h).items()})

    if want[0] in ("ok", "mismatch"):
        if "exception" in o:
            fails.append(dict(base, signature="{}:exception:{}".format(p, o["exception"].split(":")[0]),
                              what="computing the unit of an in-domain formula raised " + o["exception"],
                              impl=o["exception"], expected=str(want), oracle="independent",
                              clause="in-domain formula has a unit"))
        elif o["parsed"][0] != "ok":
            fails.append(dict(base, signature="{}:result-unit-not-parseable".format(p),
                              what="the unit string of the result ({!r}) is rejected by the "
                                   "library's own parser".format(o["unit"]),
                              impl=o["unit"], expected=str(want), oracle="independent",
                              clause="result unit is a unit"))
        elif want[0] == "ok" and tree[0] == "node" and zero_syms(o["unit"]):
            fails.append(dict(base, signature="{}:cancelled-unit-shown:{}".format(p, root),
                              what="a unit that cancels is still listed in the result's unit "
                                   "({!r})".format(o["unit"]), impl=o["unit"],
                              expected=show(sem(want[1])), oracle="independent",
                              clause="cancelled units disappear"))
        elif want[0] == "ok":
            got = expanded_impl()
            exp = sem(want[1])
            if got != exp or o["warn"]:
                ordered = differently_ordered_sum(tree, defs_h)
                if o["warn"] and o["unit"] == "" and ordered:
                    sig, what = "{}:sum-order".format(p), (
                        "operands of +/- whose units are equal up to the written order of the "
                        "factors are reported as a mismatch (warning, unit lost)")
                elif o["warn"]:
                    sig, what = "{}:false-mismatch:{}".format(p, root), (
                        "mismatch warning on a sum/difference of dimensionally equal operands")
                else:
                    sig, what = "{}:dim:{}".format(p, root), (
                        "unit of the result differs from dimensional analysis")
                fails.append(dict(base, signature=sig, what=what,
                                  impl={"unit": o["unit"], "expanded": show(got or ()),
                                        "warning": o["warn"]},
                                  expected={"dimension": show(exp), "warning": False},
                                  oracle="independent", clause="dimensional analysis"))
        else:
            if not o["warn"] or o["unit"] != "":
                fails.append(dict(base, signature="{}:mismatch-not-reported".format(p),
                                  what="a genuine unit mismatch in +/- must warn and give no unit",
                                  impl={"unit": o["unit"], "warning": o["warn"]},
                                  expected={"unit": "", "warning": True}, oracle="independent",
                                  clause="mismatch"))
    if m is not None and not fails:
        # tie: the model's own output against the implementation (semantic comparison)
        if "fail" in m:
            fails.append(dict(base, signature="model-error", kind="disagreement",
                              what="model driver: " + m["fail"]))
        elif not m.get("ok"):
            if "exception" not in o:
                fails.append(dict(base, signature="{}:model-rejects".format(p), kind="disagreement",
                                  what="model raises, implementation does not", impl=o.get("unit")))
        elif "exception" in o:
            if want[0] not in ("ok", "mismatch"):
                fails.append(dict(base, signature="{}:impl-raises".format(p), kind="disagreement",
                                  what="implementation raises, model does not",
                                  impl=o["exception"]))
        else:
            mu = sem({k: v for k, v in expand(units_from_json(m["units"]), defs_h).items()})
            got = expanded_impl()
            if got != mu or bool(m["warn"]) != o["warn"]:
                fails.append(dict(base, signature="{}:model-differs:{}".format(p, root),
                                  kind="disagreement",
                                  what="model and implementation give different units / warnings",
                                  impl={"unit": o["unit"], "warning": o["warn"]},
                                  expected={"unit": show(mu), "warning": bool(m["warn"])}))
            # the dimension function the theorems talk about agrees with the harness's oracle
            if want[0] == "ok":
                md = sem_json(m["dim"])
                if md != sem(want[1]):
                    fails.append(dict(base, signature="{}:spec-differs".format(p),
                                      kind="disagreement",
                                      what="Lean dimT and the harness's dimensional analysis differ",
                                      impl=show(md), expected=show(sem(want[1]))))
    return fails


def run_history(q, hist):
    """execute a define/clear/eval history on the real library.
    Returns (list of (tree, defs_h snapshot, defs_model snapshot, observation))"""
    reset(q)
    defs_h = collections.OrderedDict()
    defs_m = []
    out = []
    for st in hist:
        if st[0] == "define":
            _, name, ustr, uj = st
            q.define_unit(name, ustr)
            defs_h[name] = units_from_json(uj)
            defs_m.append([name, uj])
        elif st[0] == "clear":
            q.clear_unit_definitions()
            defs_h = collections.OrderedDict()
            defs_m = []
        else:
            o = observe_tree(q, st[1], clear=False)
            out.append((st[1], dict(defs_h), list(defs_m), o))
    reset(q)
    return out


def shrink_tree(q, pid, hist_defs, tree, defs_h):
    """smallest subtree that still fails the independent oracle under the same definitions"""
    best = None
    for t in sorted(subtrees(tree), key=tree_size):
        if t[0] != "node" and t[0] != "powc":
            continue
        h = [["define", n, s, uj] for n, s, uj in hist_defs] + [["eval", t]]
        (_, _, _, o), = run_history(q, h)
        fs = judge_eval(pid, t, defs_h, o)
        if fs:
            best = (t, fs[0])
            break
    return best


def run_cases(ctx, pid, cases, ref=False, use_model=True):
    """cases: list of histories.  Returns the dict check.py expects (without nontrivial rule)."""
    import qexpy as q
    evals = []      # (case index, tree, defs_h, defs_m, obs)
    for ci, h in enumerate(cases):
        for (t, dh, dm, o) in run_history(q, h):
            evals.append((ci, t, dh, dm, o))
    replies = [None] * len(evals)
    if use_model:
        lines = [{"cmd": "utree", "defs": dm, "tree": strip_tree(t),
                  "syms": sorted(set(tree_syms(t)) | {k for v in dh.values() for k, _ in v})}
                 for (_, t, dh, dm, _) in evals]
        replies = ctx.model(lines, ref=ref) if lines else []
    failures, samples = [], []
    dist = collections.Counter()
    for (ci, t, dh, dm, o), m in zip(evals, replies):
        for k, v in tree_ops(t).items():
            dist["op:" + k] += v
        dist["defs:{}".format(len(dh))] += 1
        want = dim_tree(t, dh)
        dist["oracle:" + want[0]] += 1
        fs = judge_eval(pid, t, dh, o, m)
        for f in fs:
            f["history"] = cases[ci]
            if f.get("oracle") == "independent":
                hd = [(st[1], st[2], st[3]) for st in cases[ci] if st[0] == "define"]
                if not any(st[0] == "clear" for st in cases[ci]):
                    sh = shrink_tree(q, pid, hd, t, dh)
                    if sh:
                        f["shrunk"] = {"input": sh[1]["input"], "impl": sh[1].get("impl"),
                                       "expected": sh[1].get("expected"), "tree": sh[0]}
                        f["input"] = sh[1]["input"] + (
                            "  with " + ", ".join("{}={}".format(n, s) for n, s, _ in hd) if hd else "")
        failures += fs
        if len(samples) < 5 and "unit" in o:
            samples.append({"formula": pretty_tree(t), "defs": [d[0] for d in dm],
                            "impl_unit": o["unit"], "warning": o["warn"],
                            "model": show(sem_json(m["units"])) if m and m.get("ok") else None})
    return {"evaluations": len(evals), "failures": failures, "samples": samples,
            "distribution": dict(dist), "evals": evals}

"""Shared harness for the units properties C08, C12, C13, C18.

Implementation side: the real library in-process (`import qexpy as q`), observed only through
`q.Measurement(unit=..)`, `.unit`, arithmetic, `q.define_unit`, `q.clear_unit_definitions`,
`q.set_unit_style`, MeasurementArray edits and `qexpy.utils.units.parse_unit_string`.
Model side: driver commands `uparse`, `uprint`, `utree` (lean/QExPy/Driver/Units.lean).
Independent oracles (used to accuse the code): exponent arithmetic on Fractions (`dim_tree`),
a recursive-descent reference parser (`ref_parse`), denotation of generated syntax trees.

Exponent maps are always compared semantically: zero entries invisible, order irrelevant.
"""
import collections
import warnings
from fractions import Fraction as F

from common import canon_hash

DOT = "⋅"
SYMS = ["m", "s", "kg", "A", "K", "mol", "cd", "g", "x", "y", "base", "Hz", "aB", "Q"]


# ----------------------------------------------------------------------------- helpers
# has this PROCESS sent any request to the library's session state yet?  A history marked
# ["fresh"] (first step) is one a user's script starts with: it runs in a process in which nothing
# - no reset, no clear_unit_definitions - has happened before (clean room / `./check --replay`)
PROCESS = {"virgin": True}


def reset(q):
    PROCESS["virgin"] = False
    q.reset_default_configuration()
    q.reset_correlations()
    q.clear_unit_definitions()


def sem(u):
    """semantic normal form of an exponent map: sorted tuple of (symbol, Fraction) without zeros"""
    out = {}
    for k, v in (u.items() if isinstance(u, dict) else u):
        out[k] = v   # later duplicates overwrite (dict semantics)
    return tuple(sorted((k, v) for k, v in out.items() if v != 0))


def fr(x):
    """exponent read from the implementation (int / float / Fraction) as an exact small fraction"""
    return F(x).limit_denominator(1000) if not isinstance(x, int) else F(x)


def units_json(u):
    """[(sym, Fraction)] -> driver JSON"""
    return [[k, v.numerator, v.denominator] for k, v in u]


def units_from_json(j):
    return [(k, F(n, d)) for k, n, d in j]


def sem_json(j):
    return sem(dict(units_from_json(j)))


def show(s):
    return ", ".join("{}:{}".format(k, v) for k, v in s) or "(none)"


def unit_string(u, sep="*"):
    """write an integer exponent map as a unit string in the given factor order"""
    parts = []
    for k, v in u:
        assert v.denominator == 1
        parts.append(k if v == 1 else "{}^{}".format(k, v.numerator))
    return sep.join(parts)


# ----------------------------------------------------------------------------- impl observers
class ParseTimeout(Exception):
    pass


def _alarm(*_):
    raise ParseTimeout()


def impl_parse(s, limit=3.0):
    """parse_unit_string on the real code -> ('ok', sem map) | ('reject', exception class) |
    ('timeout', seconds): no answer within `limit` seconds of CPU time for one short string"""
    import signal
    from qexpy.utils import units as U
    old = signal.signal(signal.SIGVTALRM, _alarm)
    signal.setitimer(signal.ITIMER_VIRTUAL, limit)
    try:
        with warnings.catch_warnings():
            warnings.simplefilter("ignore")
            r = U.parse_unit_string(s)
        signal.setitimer(signal.ITIMER_VIRTUAL, 0)
        return "ok", sem({k: fr(v) for k, v in r.items()})
    except ParseTimeout:
        return "timeout", str(limit)
    except Exception as e:  # noqa: BLE001  any exception raised for a bad request is a rejection
        return "reject", type(e).__name__
    finally:
        signal.setitimer(signal.ITIMER_VIRTUAL, 0)
        signal.signal(signal.SIGVTALRM, old)


def zero_syms(s):
    """symbols that the library's parser reads with exponent 0 from the unit string s"""
    from qexpy.utils import units as U
    if not s:
        return []
    try:
        with warnings.catch_warnings():
            warnings.simplefilter("ignore")
            return [k for k, v in U.parse_unit_string(s).items() if v == 0]
    except Exception:  # noqa: BLE001
        return []


def impl_unit_of(qobj):
    """the unit of a quantity as the library shows it, read back through the library's parser"""
    s = qobj.unit
    if s == "":
        return s, ("ok", ())
    return s, impl_parse(s)


# numeric argument types: the same number handed to the library as different Python objects
NUM_TYPES = ["int", "float", "np.float64", "np.float32", "np.float16", "np.longdouble", "np.int64",
             "np.int32", "np.arange", "Fraction"]


def num_obj(k, typ=None):
    """the rational k as a Python object of the named numeric type (None: int when integral,
    else the binary64 quotient — what a user types as `2` or `1/2`)"""
    k = F(k)
    if typ in (None, "py"):
        return k.numerator if k.denominator == 1 else k.numerator / k.denominator
    if typ == "Fraction":
        return F(k)
    if typ == "int":
        assert k.denominator == 1
        return int(k)
    if typ == "float":
        return k.numerator / k.denominator
    import numpy as np
    if typ == "np.float64":
        return np.float64(k.numerator / k.denominator)
    if typ == "np.float32":
        return np.float32(k.numerator / k.denominator)
    if typ == "np.float16":
        return np.float16(k.numerator / k.denominator)
    if typ == "np.longdouble":
        return np.longdouble(k.numerator / k.denominator)
    assert k.denominator == 1
    if typ == "np.int64":
        return np.int64(int(k))
    if typ == "np.int32":
        return np.int32(int(k))
    if typ == "np.arange":          # an element of an integer array (platform integer)
        return np.arange(int(k) + 1)[int(k)] if k >= 0 else np.array([int(k)])[0]
    raise ValueError(typ)


def num_types_for(k):
    """numeric types in which the rational k can be written exactly enough to mean k"""
    k = F(k)
    if k.denominator == 1:
        return list(NUM_TYPES)
    ts = ["float", "np.float64", "Fraction", "np.longdouble"]
    if k.denominator & (k.denominator - 1) == 0:
        ts += ["np.float32", "np.float16"]     # dyadic: exact in binary32 / binary16
    return ts


BAD_UNIT_OBJECTS = {"int": 5, "None": None, "list": ["m"], "bytes": b"m", "float": 1.0,
                    "dict": {"m": 1}, "tuple": ("m", 1)}
WRAPPERS = ("fault", "recalc")


def unwrap(tree):
    """the formula whose dimension the wrapped tree has: rejected requests change nothing; a
    VALID unit assignment to an operand before recalculate() (["recalc", sub, [[i, "assign",
    units_json, string], ..]]) replaces that operand's unit"""
    while tree[0] in WRAPPERS:
        if tree[0] == "recalc" and any(x[1] == "assign" for x in tree[2]):
            sub = list(tree[1])
            kids = [sub[1]] if sub[0] == "powc" else list(sub[2])
            for x in tree[2]:
                if x[1] == "assign" and x[0] < len(kids):
                    kids[x[0]] = ["leaf", x[2], x[3]]
            if sub[0] == "powc":
                sub[1] = kids[0]
            else:
                sub[2] = kids
            tree = sub
        else:
            tree = tree[1]
    return tree


def has_fault(tree):
    """does the formula contain a request that must be rejected?"""
    return any(t[0] == "fault" or (t[0] == "recalc" and any(x[1] != "assign" for x in t[2]))
               for t in subtrees(tree))


def has_recalc(tree):
    return any(t[0] == "recalc" for t in subtrees(tree))


class Builder:
    """builds a formula with real quantities.  Wrappers: ["fault", sub, kind, arg] sends a request
    that must be REJECTED to the object built for `sub` (or to the session) and catches the
    exception; ["recalc", sub, [[child, kind, arg], ..]] sends such requests to operands of the
    finished result `sub` and then calls `recalculate()` on it.  `faults` logs every request
    with its outcome ('accepted' or the exception class)."""

    def __init__(self, q):
        self.q = q
        self.leaves = []
        self.faults = []
        self.arrays = {}     # id(element) -> the MeasurementArray it belongs to
        self.kids = {}       # id(result) -> operand objects
        self.keep = []       # keeps every object alive (ids stay unique)

    def leaf(self, tree):
        q = self.q
        u = units_from_json(tree[1])
        s = tree[2] if len(tree) > 2 else unit_string(u)
        opt = tree[3] if len(tree) > 3 else {}
        mode = opt.get("mode", "ctor")
        self.leaves.append(s)
        n = len(self.leaves) % 5
        v = num_obj(F(8 + n, 4) if opt.get("vt") in (None, "float", "np.float64", "np.float32",
                                                     "Fraction") else F(2 + n), opt.get("vt"))
        e = num_obj(F(1, 8) if opt.get("et") in (None, "float", "np.float64", "np.float32",
                                                 "Fraction") else F(1), opt.get("et"))
        other = opt.get("other", "Q^2/x")
        if mode == "ctor":
            m = q.Measurement(v, e, unit=s)
        elif mode == "assign":
            m = q.Measurement(v, e)
            m.unit = s
        elif mode == "reassign":
            m = q.Measurement(v, e, unit=other)
            m.unit = s
        elif mode == "clear-assign":
            m = q.Measurement(v, e, unit=s)
            m.unit = ""
            m.unit = s
        elif mode == "repeated":
            m = q.Measurement([float(v), float(v) + 0.25, float(v) - 0.125], unit=s)
        elif mode in ("array", "array-assign", "array-reassign"):
            if mode == "array":
                arr = q.MeasurementArray([v, v + 1, v + 2], e, unit=s)
            else:
                arr = q.MeasurementArray([v, v + 1, v + 2], e,
                                         **({"unit": other} if mode == "array-reassign" else {}))
                arr.unit = s
            m = arr[opt.get("index", 1)]
            self.arrays[id(m)] = arr
            self.keep.append(arr)
        else:
            raise ValueError(mode)
        self.keep.append(m)
        return m

    def request(self, obj, kind, arg):
        """one request that the library must reject; the exception is caught (a fault)"""
        q = self.q
        try:
            with warnings.catch_warnings():
                warnings.simplefilter("ignore")
                if kind == "unit":
                    obj.unit = arg
                elif kind == "unit-type":
                    obj.unit = BAD_UNIT_OBJECTS[arg]
                elif kind == "array-unit":
                    (self.arrays.get(id(obj)) if id(obj) in self.arrays else obj).unit = arg
                elif kind == "define":
                    q.define_unit(arg[0], arg[1])
                elif kind == "ctor":
                    q.Measurement(1.0, 0.1, unit=arg)
                elif kind == "array-ctor":
                    q.MeasurementArray([1.0, 2.0], 0.1, unit=arg)
                elif kind == "op-type":
                    {"add-str": lambda: obj + "abc", "pow-str": lambda: obj ** "x",
                     "rsub-none": lambda: None - obj, "mul-dict": lambda: obj * {"a": 1}}[arg]()
                else:
                    raise ValueError("unknown fault kind " + kind)
            self.faults.append([kind, arg, "accepted"])
        except Exception as e:  # noqa: BLE001  the rejection the caller catches
            self.faults.append([kind, arg, type(e).__name__])

    def build(self, tree):
        q = self.q
        tag = tree[0]
        if tag == "leaf":
            return self.leaf(tree)
        if tag == "const":
            return num_obj(F(2), tree[1] if len(tree) > 1 else None)
        if tag == "fault":
            obj = self.build(tree[1])
            self.request(obj, tree[2], tree[3])
            return obj
        if tag == "recalc":
            obj = self.build(tree[1])
            ops = self.kids.get(id(obj), [])
            for x in tree[2]:
                ci, kind = x[0], x[1]
                if ci < len(ops) and hasattr(ops[ci], "unit"):
                    if kind == "assign":
                        ops[ci].unit = x[3]          # a valid assignment: the result follows
                    else:
                        self.request(ops[ci], kind, x[2])
            obj.recalculate()
            return obj
        if tag == "powc":
            a = self.build(tree[1])
            k = F(tree[2], tree[3])
            r = a ** num_obj(k, tree[4] if len(tree) > 4 else None)
            self.kids[id(r)] = [a]
            self.keep.append(r)
            return r
        op, args = tree[1], [self.build(t) for t in tree[2]]
        if op == "neg":
            r = -args[0]
        elif op == "sqrt":
            r = q.sqrt(args[0])
        elif op == "add":
            r = args[0] + args[1]
        elif op == "sub":
            r = args[0] - args[1]
        elif op == "mul":
            r = args[0] * args[1]
        elif op == "div":
            r = args[0] / args[1]
        elif op == "sin":
            r = q.sin(args[0])
        else:
            raise ValueError(op)
        self.kids[id(r)] = args
        self.keep.append(r)
        return r


def build_tree(q, tree, leaves):
    """build the formula with real quantities; tree = driver JSON; leaves collects leaf strings"""
    b = Builder(q)
    r = b.build(tree)
    leaves.extend(b.leaves)
    return r


def strip_tree(tree):
    """driver form of a tree (argument types and fault wrappers removed)"""
    tree = unwrap(tree)
    if tree[0] == "leaf":
        # a leaf that was created with a unit STRING goes to the model as that string (the model
        # parses it with its own parser, as the constructor does: `WTree.leafS`)
        if len(tree) > 2 and isinstance(tree[2], str) and tree[2]:
            return ["leafw", tree[2]]
        return ["leaf", tree[1]]
    if tree[0] == "const":
        return ["const"]
    if tree[0] == "powc":
        return ["powc", strip_tree(tree[1]), tree[2], tree[3]]
    return ["node", tree[1], [strip_tree(t) for t in tree[2]]]


def pretty_tree(tree):
    tag = tree[0]
    if tag == "leaf":
        opt = tree[3] if len(tree) > 3 else {}
        extra = "".join(":" + str(opt[k]) for k in ("mode", "vt", "et") if opt.get(k))
        return "[{}{}]".format(tree[2] if len(tree) > 2 else unit_string(units_from_json(tree[1])),
                               extra)
    if tag == "const":
        return "2" if len(tree) < 2 or not tree[1] else "{}(2)".format(tree[1])
    if tag == "fault":
        return "{}<rejected {} {!r}>".format(pretty_tree(tree[1]), tree[2], tree[3])
    if tag == "recalc":
        return "recalculate({}; before it, operand {})".format(pretty_tree(tree[1]), ", ".join(
            ("#{0}.unit = {3!r}" if x[1] == "assign" else "#{} <rejected {} {!r}>").format(*x)
            for x in tree[2]) or "nothing")
    if tag == "powc":
        k = F(tree[2], tree[3])
        return "({})**({})".format(pretty_tree(tree[1]), k if len(tree) < 5 or not tree[4]
                                   else "{}({})".format(tree[4], k))
    op, a = tree[1], tree[2]
    if len(a) == 1:
        return "{}({})".format(op, pretty_tree(a[0]))
    sym = {"add": "+", "sub": "-", "mul": "*", "div": "/"}[op]
    return "({} {} {})".format(pretty_tree(a[0]), sym, pretty_tree(a[1]))


def observe_tree(q, tree, defs=(), clear=True):
    """-> {'unit': str, 'parsed': ('ok', sem)|('reject',..), 'warn': bool} or {'exception': ..}"""
    if clear:
        reset(q)
        for name, ustr in defs:
            q.define_unit(name, ustr)
    out = {}
    with warnings.catch_warnings(record=True) as w:
        warnings.simplefilter("always")
        b = Builder(q)
        try:
            r = b.build(tree)
            s = r.unit
            out["unit"] = s
        except Exception as e:  # noqa: BLE001
            out["exception"] = "{}: {}".format(type(e).__name__, e)
    out["warn"] = any(issubclass(x.category, UserWarning) for x in w)
    out["faults"] = b.faults
    if "unit" in out:
        out["parsed"] = ("ok", ()) if out["unit"] == "" else impl_parse(out["unit"])
    return out


# ----------------------------------------------------------------------------- independent oracle
def expand(u, defs):
    """harness's own expansion of named units: u = [(sym, Fraction)], defs = {name: [(sym, F)]}"""
    out = collections.OrderedDict()

    def go(sym, e, depth):
        if depth > 50:
            raise RecursionError
        if sym in defs:
            for k, v in defs[sym]:
                go(k, v * e, depth + 1)
        else:
            out[sym] = out.get(sym, F(0)) + e
    for k, v in u:
        go(k, v, 0)
    return out


def dim_tree(tree, defs):
    """dimensional analysis on exponent functions: -> ('ok', dict) | ('mismatch',) | ('nodim',)
    'nodim' = a non-constant operand without unit (outside the domain of C08/C18).
    Fault / recalculation wrappers are transparent: a rejected request changes nothing."""
    tree = unwrap(tree)
    tag = tree[0]
    if tag == "leaf":
        d = {k: v for k, v in expand(units_from_json(tree[1]), defs).items() if v != 0}
        return ("ok", d) if d else ("nodim",)
    if tag == "const":
        return ("const",)
    if tag == "powc":
        a = dim_tree(tree[1], defs)
        if a[0] != "ok":
            return a if a[0] != "const" else ("nodim",)
        k = F(tree[2], tree[3])
        d = {s: e * k for s, e in a[1].items() if e * k != 0}
        return ("ok", d) if d else ("nodim",)
    op = tree[1]
    rs = [dim_tree(t, defs) for t in tree[2]]
    for r in rs:
        if r[0] in ("mismatch", "nodim"):
            return r
    ds = [r[1] if r[0] == "ok" else None for r in rs]
    if op in ("neg", "sqrt"):
        if ds[0] is None:
            return ("nodim",)
        d = {s: (e / 2 if op == "sqrt" else e) for s, e in ds[0].items()}
        return ("ok", d)
    if op in ("add", "sub"):
        if ds[0] is None and ds[1] is None:
            return ("nodim",)
        if ds[0] is None or ds[1] is None:
            return ("ok", dict(ds[0] if ds[1] is None else ds[1]))
        return ("ok", dict(ds[0])) if ds[0] == ds[1] else ("mismatch",)
    if op in ("mul", "div"):
        sg = 1 if op == "mul" else -1
        d = dict(ds[0] or {})
        for s, e in (ds[1] or {}).items():
            d[s] = d.get(s, F(0)) + sg * e
        d = {s: e for s, e in d.items() if e != 0}
        if ds[0] is None and ds[1] is None:
            return ("nodim",)
        return ("ok", d) if d else ("nodim",)
    return ("nodim",)


def _simulate(tree, defs, exact):
    """the arithmetic of units.py on one tree, either with the number types Python uses (int,
    binary64 from `/` and from fractional powers) or exactly (Fraction); returns the list of
    (unit dict, warning) of every node in evaluation order.  Only used to recognise cases in
    which binary64 exponent arithmetic takes a different decision than exact arithmetic."""
    trace = []

    def unpack(u, count=1):
        res = collections.OrderedDict()
        for name, e in u.items():
            if name in defs:
                sub = unpack(collections.OrderedDict(
                    (k, (v if exact else (int(v) if v.denominator == 1 else float(v))))
                    for k, v in defs[name]), e * count)
            else:
                sub = {name: e * count}
            for k, v in sub.items():
                res[k] = res.get(k, 0) + v
        return res

    def try_pack(unit, pre):
        ratio = 0
        for name, e in unit.items():
            pe = pre.get(name, 0)
            if not pe:
                return 0
            r = (F(e) / pe) if exact else e / pe
            if ratio and ratio != r:
                return 0
            if not ratio:
                ratio = r
        for name in pre:
            if not unit.get(name, 0):
                return 0
        return ratio

    def go(t):
        t = unwrap(t)
        tag = t[0]
        if tag == "leaf":
            u = collections.OrderedDict((k, F(n, d) if exact else n) for k, n, d in t[1])
            trace.append((dict(u), False))
            return u, False
        if tag == "const":
            return collections.OrderedDict(), True
        if tag == "powc":
            a, _ = go(t[1])
            k = F(t[2], t[3])
            p = k if exact else num_obj(k, t[4] if len(t) > 4 else None)
            u = collections.OrderedDict((s, e * p) for s, e in a.items())
            trace.append((dict(u), False))
            return u, False
        op = t[1]
        rs = [go(x) for x in t[2]]
        warn = False
        if all(u or c for u, c in rs):
            un = [unpack(u) for u, _ in rs]
            if op in ("neg",):
                r = un[0]
            elif op == "sqrt":
                r = collections.OrderedDict((s, e / 2) for s, e in un[0].items())
            elif op in ("add", "sub"):
                nz = [{s: e for s, e in x.items() if e != 0} for x in un]
                if un[0] and un[1] and nz[0] != nz[1]:
                    warn, r = True, collections.OrderedDict()
                else:
                    r = un[0] or un[1]
            else:
                sg = 1 if op == "mul" else -1
                r = collections.OrderedDict(un[0])
                for s, e in un[1].items():
                    r[s] = r.get(s, 0) + sg * e
            r = collections.OrderedDict((s, e) for s, e in r.items() if e != 0)
            for name, d in defs.items():
                pre = {k: (v if exact else (int(v) if v.denominator == 1 else float(v))) for k, v in d}
                k = try_pack(r, pre)
                if k:
                    r = collections.OrderedDict([(name, k)])
                    break
        else:
            r = collections.OrderedDict()
        trace.append((dict(r), warn))
        return r, False
    go(tree)
    return trace


def float_ok(tree, defs):
    """True when binary64 exponent arithmetic takes the same decisions as exact arithmetic on
    this tree (same keys and warnings at every node, values equal up to 1e-9)"""
    try:
        a = _simulate(tree, defs, True)
        b = _simulate(tree, defs, False)
    except (ZeroDivisionError, RecursionError):
        return False
    except TypeError:
        # Python itself refuses the exponent arithmetic: `Fraction * numpy.longdouble` is a
        # TypeError of the two number types (a Fraction power below a longdouble power, either
        # order); the library reports it as an undefined operation.  A loud refusal that stems
        # from the numeric tower, no unit is derived: such a mix of types is not judged
        return False
    if len(a) != len(b):
        return False
    for (ua, wa), (ub, wb) in zip(a, b):
        if wa != wb or set(ua) != set(ub):
            return False
        if any(abs(float(ua[k]) - float(ub[k])) > 1e-9 for k in ua):
            return False
    return True


def refused_by_python(tree, defs):
    """does the exponent arithmetic of the formula mix number types that Python itself refuses
    to multiply (Fraction with numpy.longdouble)?  (see float_ok; counted in the distribution)"""
    try:
        _simulate(tree, defs, False)
    except TypeError:
        return True
    except (ZeroDivisionError, RecursionError):
        return False
    return False


# ----------------------------------------------------------------------------- tree generator
POWERS = [F(2), F(3), F(-1), F(-2), F(1, 2), F(1, 3), F(2, 3), F(3, 2), F(-1, 2), F(-3)]


def rand_units(rng, syms, nmin=1, nmax=3, emax=4):
    n = rng.randint(nmin, min(nmax, len(syms)))
    ks = rng.sample(syms, n)
    return [(k, F(rng.choice([e for e in range(-emax, emax + 1) if e != 0]))) for k in ks]


def leaf(rng, u, defs=None):
    """a leaf whose (expanded) dimension is u; with definitions active it may be written in
    named or mixed form (a defined name to some power times the remaining base factors)"""
    u = [(k, v) for k, v in u if v != 0]
    if defs and rng.random() < 0.6:
        name = rng.choice(list(defs))
        ex = expand([(name, F(1))], defs)
        k = F(rng.choice([-2, -1, 1, 1, 2, 3]))
        d = dict(u)
        rest = {s: d.get(s, F(0)) - k * ex.get(s, F(0)) for s in sorted(set(d) | set(ex))}
        rest = [(s, e) for s, e in rest.items() if e != 0]
        if all(e.denominator == 1 and abs(e) <= 9 for _, e in rest):
            u = [(name, k)] + sorted(rest)
    rng.shuffle(u)
    return ["leaf", units_json(u), unit_string(u, rng.choice(["*", DOT, "*"]))]


def ok_exps(d):
    return all(v.denominator <= 6 and abs(v.numerator) <= 24 for v in d.values())


def route(rng, d, depth, defs=None):
    """a tree whose dimension is exactly d (dict sym -> Fraction, non-empty), by a random route"""
    ints = all(v.denominator == 1 for v in d.values())
    choices = []
    if ints:
        choices += ["leaf"] * (3 if depth > 0 else 8)
    if depth > 0:
        choices += ["mul", "mul", "div", "neg", "sqrt", "pow", "mulc"]
    if not choices:
        choices = ["sqrt", "pow"]
    for _ in range(12):
        c = rng.choice(choices)
        if c == "leaf":
            return leaf(rng, list(d.items()), defs)
        if c == "neg":
            return ["node", "neg", [route(rng, d, depth - 1, defs)]]
        if c == "mulc":
            args = [route(rng, d, depth - 1, defs), ["const"]]
            if rng.random() < 0.5:
                args.reverse()
            return ["node", "mul", args]
        if c == "sqrt":
            d2 = {s: 2 * e for s, e in d.items()}
            if ok_exps(d2):
                return ["node", "sqrt", [route(rng, d2, depth - 1, defs)]]
        if c == "pow":
            k = rng.choice(POWERS)
            d2 = {s: e / k for s, e in d.items()}
            if ok_exps(d2):
                return ["powc", route(rng, d2, depth - 1, defs), k.numerator, k.denominator]
        if c in ("mul", "div"):
            # d = d1 (+|-) d2 with both parts non-empty
            syms = list(d)
            extra = rng.choice([s for s in SYMS[:8] if s not in d] or SYMS[:8])
            d2 = {}
            for s in syms:
                if rng.random() < 0.6:
                    d2[s] = F(rng.choice([-2, -1, 1, 2, 3]))
            if rng.random() < 0.5 or not d2:
                d2[extra] = F(rng.choice([-2, -1, 1, 2]))
            sg = 1 if c == "mul" else -1
            d1 = {s: d.get(s, F(0)) - sg * d2.get(s, F(0)) for s in sorted(set(d) | set(d2))}
            d1 = {s: e for s, e in d1.items() if e != 0}
            if d1 and d2 and ok_exps(d1) and ok_exps(d2):
                return ["node", c, [route(rng, d1, depth - 1, defs), route(rng, d2, depth - 1, defs)]]
    if ints:
        return leaf(rng, list(d.items()), defs)
    import math
    big = 1
    for v in d.values():
        big = big * v.denominator // math.gcd(big, v.denominator)
    d2 = {s: big * e for s, e in d.items()}
    if big == 2:
        return ["node", "sqrt", [leaf(rng, list(d2.items()), defs)]]
    return ["powc", leaf(rng, list(d2.items()), defs), 1, big]


def gen_tree(rng, depth, syms, defs=None, constdiv=False):
    """random in-domain tree (no dimensionless intermediate, +/- operands dimension-equal);
    constdiv: plain numbers also as dividend and divisor (2 / x, x / 2)"""
    defs = defs or {}
    if depth <= 0 or rng.random() < 0.15:
        u = rand_units(rng, syms, emax=3 if defs else 4)
        rng.shuffle(u)
        return ["leaf", units_json(u), unit_string(u, rng.choice(["*", DOT, "*"]))]
    c = rng.choice(["mul", "mul", "div", "div", "add", "sub", "add", "pow", "sqrt", "neg", "addc"])
    if c in ("mul", "div"):
        return ["node", c, [gen_tree(rng, depth - 1, syms, defs, constdiv), gen_tree(rng, depth - 1, syms, defs, constdiv)]]
    if c in ("neg", "sqrt"):
        return ["node", c, [gen_tree(rng, depth - 1, syms, defs, constdiv)]]
    if c == "pow":
        k = rng.choice(POWERS)
        return ["powc", gen_tree(rng, depth - 1, syms, defs, constdiv), k.numerator, k.denominator]
    if c == "addc":
        args = [gen_tree(rng, depth - 1, syms, defs, constdiv), ["const"]]
        if rng.random() < 0.5:
            args.reverse()
        return ["node", rng.choice(["add", "sub", "mul"] + (["div", "div"] if constdiv else [])), args]
    a = gen_tree(rng, depth - 1, syms, defs, constdiv)
    da = dim_tree(a, defs)
    if da[0] != "ok" or not ok_exps(da[1]):
        return a
    b = route(rng, da[1], depth - 1, defs)
    args = [a, b] if rng.random() < 0.5 else [b, a]
    return ["node", c, args]


# near misses: pairs of dimensions that a sloppy comparison takes for equal.  Every kind is a
# GENUINE mismatch (the two exponent functions differ); what varies is how little they differ
NEAR_KINDS = ["half", "third", "sixth", "one", "swap", "sign", "extra-half", "extra-third",
              "extra-one", "drop", "scale", "negate-all", "case", "rename"]


def near_miss(rng, d, kind):
    """a dimension that differs from d (dict sym -> Fraction, non-empty) in the way `kind` says,
    or None when that kind does not apply to d:
    half/third/sixth/one  one exponent moved by +-1/2, +-1/3, +-1/6, +-1 (same symbols)
    swap                  the exponents of two symbols exchanged (same symbols, same values)
    sign                  one exponent negated (m/s against m*s)
    extra-*               one more symbol with exponent +-1/2, +-1/3, +-1
    drop                  one symbol missing
    scale                 every exponent doubled or halved (same symbols, proportional)
    negate-all            the reciprocal unit
    case                  one symbol in the other letter case (m against M)
    rename                one symbol replaced by another, same exponent"""
    d2 = dict(d)
    ks = sorted(d)
    k = rng.choice(ks)
    step = {"half": F(1, 2), "third": F(1, 3), "sixth": F(1, 6), "one": F(1)}
    if kind in step:
        d2[k] = d[k] + rng.choice([1, -1]) * step[kind]
    elif kind == "swap":
        pairs = [(a, b) for a in ks for b in ks if a < b and d[a] != d[b]]
        if not pairs:
            return None
        a, b = rng.choice(pairs)
        d2[a], d2[b] = d[b], d[a]
    elif kind == "sign":
        d2[k] = -d[k]
    elif kind.startswith("extra-"):
        new = [s for s in SYMS if s not in d]
        if not new:
            return None
        d2[rng.choice(new)] = rng.choice([1, -1]) * {"half": F(1, 2), "third": F(1, 3),
                                                     "one": F(1)}[kind[6:]]
    elif kind == "drop":
        if len(ks) < 2:
            return None
        del d2[k]
    elif kind == "scale":
        c = rng.choice([F(2), F(1, 2)])
        d2 = {s: e * c for s, e in d.items()}
    elif kind == "negate-all":
        d2 = {s: -e for s, e in d.items()}
    elif kind == "case":
        alt = [s for s in ks if s.swapcase() != s and s.swapcase() not in d]
        if not alt:
            return None
        k = rng.choice(alt)
        d2 = {(s.swapcase() if s == k else s): e for s, e in d.items()}
    elif kind == "rename":
        new = [s for s in SYMS if s not in d]
        if not new:
            return None
        n = rng.choice(new)
        d2 = {(n if s == k else s): e for s, e in d.items()}
    else:
        raise ValueError(kind)
    d2 = {s: e for s, e in d2.items() if e != 0}
    if not d2 or d2 == {s: e for s, e in d.items() if e != 0} or not ok_exps(d2):
        return None
    return d2


def near_mismatch_tree(rng, kind, depth, syms):
    """a +/- of two operands whose dimensions are a near miss of kind `kind`; the base dimension
    has integer exponents or halves (a square root of odd powers), both operands are reached by
    random routes, in either order -> (tree, tag) or None"""
    base = dict(rand_units(rng, syms, emax=3))
    frac = rng.random() < 0.4
    if frac:
        base = {s: e / 2 for s, e in base.items()}
    other = near_miss(rng, base, kind)
    if other is None:
        return None
    a, b = route(rng, base, depth), route(rng, other, depth)
    if rng.random() < 0.5:
        a, b = b, a
    t = ["node", rng.choice(["add", "sub"]), [a, b]]
    r = rng.random()
    if r < 0.15:                        # the unit-less result is used further
        t = ["node", "neg", [t]]
    elif r < 0.3:
        t = ["node", "mul", [t, ["const"]]]
    return t, "near-mismatch:{}:{}".format(kind, "halves" if frac else "integers")


def differently_ordered_sum(tree, defs=None):
    """does the tree contain a +/- whose operands' (expanded) units differ in written order?"""
    defs = defs or {}
    found = [False]

    def order(t):
        # insertion order of the exact result, mirroring dict semantics
        t = unwrap(t)
        tag = t[0]
        if tag == "leaf":
            return [k for k, v in expand(units_from_json(t[1]), defs).items() if v != 0]
        if tag == "const":
            return []
        if tag == "powc":
            return order(t[1])
        op = t[1]
        rs = [order(x) for x in t[2]]
        if op in ("neg", "sqrt"):
            return rs[0]
        if op in ("add", "sub"):
            if rs[0] and rs[1] and rs[0] != rs[1] and sorted(rs[0]) == sorted(rs[1]):
                found[0] = True
            return rs[0] or rs[1]
        d = dim_tree(t, defs)
        keys = list(rs[0]) + [s for s in rs[1] if s not in rs[0]]
        return [s for s in keys if d[0] == "ok" and s in d[1]]
    try:
        order(tree)
    except Exception:  # noqa: BLE001
        return False
    return found[0]


def tree_ops(tree, acc=None):
    acc = acc if acc is not None else collections.Counter()
    if tree[0] == "fault":
        acc["fault:" + tree[2]] += 1
        tree_ops(tree[1], acc)
    elif tree[0] == "recalc":
        acc["recalculate"] += 1
        for x in tree[2]:
            acc["recalculate:valid-reassignment" if x[1] == "assign" else "fault:late-" + x[1]] += 1
        tree_ops(tree[1], acc)
    elif tree[0] == "powc":
        acc["pow"] += 1
        if len(tree) > 4 and tree[4]:
            acc["powtype:" + tree[4]] += 1
        tree_ops(tree[1], acc)
    elif tree[0] == "node":
        acc[tree[1]] += 1
        for t in tree[2]:
            tree_ops(t, acc)
    else:
        acc[tree[0]] += 1
        if tree[0] == "const" and len(tree) > 1 and tree[1]:
            acc["consttype:" + tree[1]] += 1
        if tree[0] == "leaf" and len(tree) > 3:
            for k in ("mode", "vt", "et"):
                if tree[3].get(k):
                    acc["leaf{}:{}".format(k, tree[3][k])] += 1
    return acc


def tree_syms(tree, acc=None):
    acc = acc if acc is not None else []
    if tree[0] in WRAPPERS:
        tree_syms(tree[1], acc)
        if tree[0] == "recalc":
            for x in tree[2]:
                if x[1] == "assign":
                    tree_syms(["leaf", x[2]], acc)
    elif tree[0] == "leaf":
        for k, _, _ in tree[1]:
            if k not in acc:
                acc.append(k)
    elif tree[0] == "powc":
        tree_syms(tree[1], acc)
    elif tree[0] == "node":
        for t in tree[2]:
            tree_syms(t, acc)
    return acc


def case_hash(c):
    return canon_hash(c)


# ----------------------------------------------------------------------------- histories (C08/C18)
def subtrees(tree):
    out = [tree]
    if tree[0] in WRAPPERS or tree[0] == "powc":
        out += subtrees(tree[1])
    elif tree[0] == "node":
        for t in tree[2]:
            out += subtrees(t)
    return out


def tree_size(tree):
    return len(subtrees(tree))


def unprintable_power(d, defs_h):
    """is the dimension d an exact power k of some defined compound with denominator(k) > 10?
    `__power_num2str` prints exponents with `limit_denominator(10)`, so such a power cannot be
    shown exactly (display precision of the library, outside the domain of C13/C18)"""
    for name in defs_h:
        ex = {k: v for k, v in expand([(name, F(1))], defs_h).items() if v != 0}
        if not ex or set(ex) != set(d):
            continue
        ks = {d[s] / ex[s] for s in ex}
        if len(ks) == 1 and next(iter(ks)).denominator > 10:
            return True
    return False


def fault_not_judged(o):
    """True when a request that was meant to be rejected was ACCEPTED and the library's own parser
    gives its string a meaning (or the request carries no unit string at all): whether that string
    is a unit is C12's question; the quantity then legitimately carries another unit and the
    evaluation is not judged (counted).  An accepted request whose string the parser still
    rejects is judged as usual: the request was swallowed, not accepted."""
    for kind, arg, outcome in o.get("faults", ()):
        if outcome != "accepted":
            continue
        text = arg[1] if kind == "define" else arg
        if kind in ("unit", "array-unit", "define", "ctor", "array-ctor") and isinstance(text, str) \
                and text != "" and impl_parse(text)[0] == "reject" and (
                    kind != "define" or _ascii_name_ok(arg[0])):
            continue
        return True
    return bool(o.get("tainted"))


def _ascii_name_ok(name):
    return bool(name) and all(c.isascii() and (c.isalnum() or c == "_") for c in name)


def judge_eval(pid, tree, defs_h, o, m=None):
    """judge one evaluated tree.  defs_h: harness definitions {name: [(sym, F)]};
    o: observe_tree output; m: model reply or None.  Returns list of failures."""
    fails = []
    want = dim_tree(tree, defs_h)
    p = pid.lower()
    if want[0] == "ok" and unprintable_power(want[1], defs_h):
        return []   # the exact power of a named unit has a denominator > 10: not printable
    if fault_not_judged(o):
        return []   # a request meant to be rejected was accepted with a meaning (C12's business)
    core = unwrap(tree)
    root = core[1] if core[0] == "node" else core[0]
    if has_fault(tree):
        root += "+rejected-request"
    elif has_recalc(tree):
        root += "+recalculated"
    base = {"input": pretty_tree(tree), "tree": tree}
    if o.get("faults"):
        base["requests_rejected_first"] = o["faults"]

    def expanded_impl():
        st, val = o["parsed"]
        if st != "ok":
            return None
        return sem({k: v for k, v in expand(list(val), defs_h).items()})

    if want[0] in ("ok", "mismatch"):
        if "exception" in o:
            fails.append(dict(base, signature="{}:exception:{}".format(p, o["exception"].split(":")[0]),
                              what="computing the unit of an in-domain formula raised " + o["exception"],
                              impl=o["exception"], expected=str(want), oracle="independent",
                              clause="in-domain formula has a unit"))
        elif o["parsed"][0] != "ok":
            fails.append(dict(base, signature="{}:result-unit-not-parseable".format(p),
                              what="the unit string of the result ({!r}) is rejected by the "
                                   "library's own parser".format(o["unit"]),
                              impl=o["unit"], expected=str(want), oracle="independent",
                              clause="result unit is a unit"))
        elif want[0] == "ok" and core[0] == "node" and zero_syms(o["unit"]):
            fails.append(dict(base, signature="{}:cancelled-unit-shown:{}".format(p, root),
                              what="a unit that cancels is still listed in the result's unit "
                                   "({!r})".format(o["unit"]), impl=o["unit"],
                              expected=show(sem(want[1])), oracle="independent",
                              clause="cancelled units disappear"))
        elif want[0] == "ok":
            got = expanded_impl()
            exp = sem(want[1])
            if got != exp or o["warn"]:
                ordered = differently_ordered_sum(tree, defs_h)
                if o["warn"] and o["unit"] == "" and ordered:
                    sig, what = "{}:sum-order".format(p), (
                        "operands of +/- whose units are equal up to the written order of the "
                        "factors are reported as a mismatch (warning, unit lost)")
                elif o["warn"]:
                    sig, what = "{}:false-mismatch:{}".format(p, root), (
                        "mismatch warning on a sum/difference of dimensionally equal operands")
                else:
                    sig, what = "{}:dim:{}".format(p, root), (
                        "unit of the result differs from dimensional analysis" + (
                            " of the units the operands carry (a request that raised and was "
                            "caught changed a quantity or the definitions)" if has_fault(tree)
                            else ""))
                fails.append(dict(base, signature=sig, what=what,
                                  impl={"unit": o["unit"], "expanded": show(got or ()),
                                        "warning": o["warn"]},
                                  expected={"dimension": show(exp), "warning": False},
                                  oracle="independent", clause="dimensional analysis"))
        else:
            if not o["warn"] or o["unit"] != "":
                fails.append(dict(base, signature="{}:mismatch-not-reported".format(p),
                                  what="a genuine unit mismatch in +/- must warn and give no unit",
                                  impl={"unit": o["unit"], "warning": o["warn"]},
                                  expected={"unit": "", "warning": True}, oracle="independent",
                                  clause="mismatch"))
    if m is not None and not fails:
        # tie: the model's own output against the implementation (semantic comparison)
        if "fail" in m:
            fails.append(dict(base, signature="model-error", kind="disagreement",
                              what="model driver: " + m["fail"]))
        elif not m.get("ok"):
            if "exception" not in o:
                fails.append(dict(base, signature="{}:model-rejects".format(p), kind="disagreement",
                                  what="model raises, implementation does not", impl=o.get("unit")))
        elif "exception" in o:
            if want[0] not in ("ok", "mismatch"):
                fails.append(dict(base, signature="{}:impl-raises".format(p), kind="disagreement",
                                  what="implementation raises, model does not",
                                  impl=o["exception"]))
        else:
            mu = sem({k: v for k, v in expand(units_from_json(m["units"]), defs_h).items()})
            got = expanded_impl()
            if got != mu or bool(m["warn"]) != o["warn"]:
                fails.append(dict(base, signature="{}:model-differs:{}".format(p, root),
                                  kind="disagreement",
                                  what="model and implementation give different units / warnings",
                                  impl={"unit": o["unit"], "warning": o["warn"]},
                                  expected={"unit": show(mu), "warning": bool(m["warn"])}))
            # the dimension function the theorems talk about agrees with the harness's oracle
            if want[0] == "ok":
                md = sem_json(m["dim"])
                if md != sem(want[1]):
                    fails.append(dict(base, signature="{}:spec-differs".format(p),
                                      kind="disagreement",
                                      what="Lean dimT and the harness's dimensional analysis differ",
                                      impl=show(md), expected=show(sem(want[1]))))
    return fails


def run_history(q, hist):
    """execute a define / define-bad / clear / eval history on the real library.
    Steps: ["define", name, string, units_json]   a definition that must be accepted
           ["define-bad", name, string]          a definition that must be REJECTED (caught)
           ["clear"]                             clear_unit_definitions()
           ["style", frac]                       set_unit_style(FRACTION if frac else EXPONENTS)
           ["eval", tree]                        build the formula, read the unit of the result
           ["eval", tree, {"nojudge": true}]     ... evaluated as part of the past, not judged
                                                 (e.g. under definitions, outside C08's domain)
           ["fresh"]  (first step only)          the history starts in a NEW PROCESS: the harness
                                                 does not reset / clear before it (it does when
                                                 the process has been used: same meaning)
    Returns a list of (tree, defs_h snapshot, request history so far, observation, step index);
    defs_h holds the harness's own record of the accepted definitions only."""
    if hist and list(hist[0]) == ["fresh"] and PROCESS["virgin"]:
        PROCESS["virgin"] = False       # nothing before the first step of the history
    else:
        reset(q)
    defs_h = collections.OrderedDict()
    reqs = []
    out = []
    tainted = False
    log = []
    for i, st in enumerate(hist):
        if st[0] == "fresh":
            continue
        if st[0] == "define":
            _, name, ustr, uj = st
            q.define_unit(name, ustr)
            defs_h[name] = units_from_json(uj)
            reqs.append(["define", name, ustr])
        elif st[0] == "define-bad":
            _, name, ustr = st[:3]
            b = Builder(q)
            b.request(None, "define", [name, ustr])
            log += b.faults
            if fault_not_judged({"faults": b.faults}):
                tainted = True       # accepted with a meaning: the rest is not judged
            reqs.append(["define", name, ustr])
        elif st[0] == "clear":
            q.clear_unit_definitions()
            defs_h = collections.OrderedDict()
            reqs.append(["clear"])
            tainted = False
        elif st[0] == "style":
            q.set_unit_style(q.UnitStyle.FRACTION if st[1] else q.UnitStyle.EXPONENTS)
        else:
            o = observe_tree(q, st[1], clear=False)
            o["faults"] = list(log) + o.get("faults", [])
            if tainted:
                o["tainted"] = True
            out.append((st[1], dict(defs_h), list(reqs), o, i))
    reset(q)
    return out


def shrink_tree(q, pid, prefix, tree, defs_h):
    """smallest subtree that still fails the independent oracle after the same define / clear
    requests (prefix = the steps of the history before the evaluation that touch the session)"""
    best = None
    for t in sorted(subtrees(tree), key=tree_size):
        if unwrap(t)[0] not in ("node", "powc"):
            continue        # only calculated quantities are judged
        (_, _, _, o, _) = run_history(q, list(prefix) + [["eval", t]])[-1]
        fs = judge_eval(pid, t, defs_h, o)
        if fs:
            best = (t, fs[0])
            break
    return best


def session_fault(tree):
    """does evaluating the formula send a (rejected) request to the session, not only to its own
    quantities?  Such an evaluation is kept when a history is shortened."""
    return any((t[0] == "fault" and t[2] == "define") or
               (t[0] == "recalc" and any(x[1] == "define" for x in t[2])) for t in subtrees(tree))


def describe_prefix(prefix):
    out = []
    for st in prefix:
        if st[0] == "eval":
            out.append("after evaluating " + pretty_tree(st[1]))
        elif st[0] == "define":
            out.append("{}={}".format(st[1], st[2]))
        elif st[0] == "define-bad":
            out.append("rejected define_unit({!r}, {!r})".format(st[1], st[2]))
        elif st[0] == "style":
            out.append("unit style " + ("FRACTION" if st[1] else "EXPONENTS"))
        elif st[0] == "fresh":
            out.append("in a new process")
        else:
            out.append("clear")
    return ", ".join(out)


def _written_classes(s):
    from props._uwrite import written_form
    return written_form(s)


def run_cases(ctx, pid, cases, ref=False, use_model=True):
    """cases: list of histories.  Returns the dict check.py expects (without nontrivial rule)."""
    import qexpy as q
    evals = []      # (case index, tree, defs_h, request history, obs, step index)
    for ci, h in enumerate(cases):
        for (t, dh, rq, o, si) in run_history(q, h):
            evals.append((ci, t, dh, rq, o, si))
    replies = [None] * len(evals)
    if use_model:
        lines = [{"cmd": "utree", "reqs": rq, "tree": strip_tree(t),
                  "syms": sorted(set(tree_syms(t)) | {k for v in dh.values() for k, _ in v})}
                 for (_, t, dh, rq, _, _) in evals]
        replies = ctx.model(lines, ref=ref) if lines else []
    failures, samples = [], []
    dist = collections.Counter()
    for h in cases:
        for st in h:
            if st[0] == "define-bad":
                dist["history:rejected-define:" + (st[3] if len(st) > 3 else "other")] += 1
    for (ci, t, dh, rq, o, si), m in zip(evals, replies):
        for x in subtrees(t):
            if x[0] == "leaf" and len(x) > 2 and isinstance(x[2], str):
                for c in _written_classes(x[2]):
                    dist["leaf-string:" + c] += 1
        step = cases[ci][si]
        if len(step) > 2 and step[2].get("nojudge"):
            dist["evaluations in the past of a history (not judged)"] += 1
            continue
        for k, v in tree_ops(t).items():
            dist[(k if k.split(":")[0] in ("fault", "powtype", "consttype", "leafmode", "leafvt",
                                            "leafet", "recalculate") else "op:" + k)] += v
        dist["defs:{}".format(len(dh))] += 1
        want = dim_tree(t, dh)
        dist["oracle:" + want[0]] += 1
        for kind, arg, outcome in o.get("faults", ()):
            dist["request-outcome:{}:{}".format(kind, outcome)] += 1
        if o.get("faults"):
            dist["evaluations-after-a-rejected-request"] += 1
        if fault_not_judged(o):
            dist["not-judged:fault-accepted"] += 1
        fs = judge_eval(pid, t, dh, o, m)
        for k, f in enumerate(fs):
            f["history"] = cases[ci]
            if f.get("oracle") == "independent":
                # earlier evaluations of the same history are dropped unless they send a request
                # to the session or the history is ABOUT them (["eval", tree, {"keep": true}])
                prefix = [st for st in cases[ci][:si] if st[0] != "eval" or session_fault(st[1])
                          or (len(st) > 2 and st[2].get("keep"))]
                if prefix:
                    f["carries_history"] = True     # define / clear / style / earlier evaluations
                sh = shrink_tree(q, pid, prefix, t, dh)
                if sh:
                    # report the smallest calculated quantity that still fails, with its own
                    # observation / expectation; the formula it was found in is kept
                    g = dict(sh[1])
                    g["history"] = prefix + [["eval", sh[0]]]
                    g["found_in"] = {"input": f["input"], "signature": f["signature"],
                                     "history": cases[ci]}
                    if f.get("carries_history"):
                        g["carries_history"] = True
                    f = fs[k] = g
                if prefix:
                    f["input"] += "  with " + describe_prefix(prefix)
        failures += fs
        if len(samples) < 5 and "unit" in o:
            samples.append({"formula": pretty_tree(t), "defs": list(dh),
                            "impl_unit": o["unit"], "warning": o["warn"],
                            "model": show(sem_json(m["units"])) if m and m.get("ok") else None})
    return {"evaluations": len(evals), "failures": failures, "samples": samples,
            "distribution": dict(dist), "evals": evals}

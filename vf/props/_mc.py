"""Shared harness for the Monte Carlo properties C02 / C16.

Randomness is never compared with fresh random numbers: `Capture` records the arrays the library
draws with `numpy.random.normal` (monkeypatched inside this process only, restored on exit); the
model is then run GIVEN those arrays.
"""
import math
import warnings

import numpy as np

import exprgen
from common import bits, unbits, fb, close

FALLBACK_TEXT = "Fail to generate a physical correlation matrix"


class Capture:
    """records every numpy.random.normal call made while active (and the equivalent spellings
    numpy.random.standard_normal(n) / numpy.random.randn(n), recorded as normal(0, 1, n))"""

    paused = False     # while True the draws pass through unrecorded (simulations of OTHER objects)

    def __enter__(self):
        self.calls = []
        self._orig = np.random.normal
        self._orig_sn = np.random.standard_normal
        self._orig_rn = np.random.randn

        def recording(*a, **k):
            out = self._orig(*a, **k)
            if self.paused:
                return out
            args = tuple(a) + tuple(k[x] for x in ("loc", "scale", "size")[len(a):] if x in k)
            self.calls.append((args, np.array(out, dtype=float, copy=True)))
            return out

        def recording_sn(size=None, *a, **k):
            out = self._orig_sn(size, *a, **k)
            if self.paused:
                return out
            self.calls.append(((0, 1, size), np.array(out, dtype=float, copy=True)))
            return out

        def recording_rn(*dims):
            out = self._orig_rn(*dims)
            if self.paused:
                return out
            self.calls.append(((0, 1, dims[0] if len(dims) == 1 else dims),
                               np.array(out, dtype=float, copy=True)))
            return out
        np.random.normal = recording
        np.random.standard_normal = recording_sn
        np.random.randn = recording_rn
        return self

    def __exit__(self, *exc):
        np.random.normal = self._orig
        np.random.standard_normal = self._orig_sn
        np.random.randn = self._orig_rn
        return False


BYSTANDERS = ["figure-fit-savefig", "figure-fit-show", "figure-function", "other-quantity",
              "other-quantity-display", "decorated", "decorated-raises", "print-other"]


class Bystanders:
    """things done to other objects during a history (Monte Carlo draws made here are not recorded)"""

    def __init__(self, q, srng):
        import qexpy.settings.settings as sts
        self.q, self.rng, self.sts = q, srng, sts
        self.calls = 0

        # a user's function under a temporary sample size, DEFINED NOW (at the start of the history,
        # under the global size of that moment) and called later, when the configuration may differ
        @sts.use_mc_sample_size(77)
        def under_temporary_size(raises):
            m = q.Measurement(2.0, 0.3)
            r = q.exp(m)
            r.error_method = q.ErrorMethod.MONTE_CARLO
            _ = r.value, r.error
            if raises:
                raise RuntimeError("inside the decorated function")
            return r.mc.samples().size
        self.decorated = under_temporary_size

    def run(self, kind):
        q = self.q
        self.calls += 1
        if kind.startswith("figure"):
            import io
            import qexpy.plotting as qplt
            import matplotlib.pyplot as plt
            try:
                if kind == "figure-function":
                    a = q.Measurement(2.0, 0.2)
                    fig = qplt.plot(lambda x: a * x + 1, xrange=(0, 1))
                    fig.show()
                else:
                    xs = [1, 2, 3, 4, 5, 6]
                    ys = [2.1 + 0.01 * self.calls, 3.9, 6.2, 7.8, 10.1, 12.2]
                    fig = qplt.plot(xs, ys, yerr=0.2)
                    fig.fit(model=q.FitModel.LINEAR)
                    if kind == "figure-fit-savefig":
                        fig.savefig(io.BytesIO(), format="png")
                    else:
                        fig.show()
            finally:
                plt.close("all")
        elif kind.startswith("other-quantity"):
            o = q.exp(q.Measurement(0.3, 0.5))
            o.error_method = q.ErrorMethod.MONTE_CARLO
            o.mc.sample_size = 33
            o.mc.use_mode_with_confidence(0.5)
            o.mc.set_xrange(0.5, 3.0)
            _ = o.value, o.error
            o.mc.use_custom_value_and_error(1.0, 0.5)
            _ = o.value
            if kind.endswith("display"):
                import matplotlib.pyplot as plt
                try:
                    o.mc.show_histogram(bins=15)
                finally:
                    plt.close("all")
        elif kind.startswith("decorated"):
            try:
                self.decorated(kind.endswith("raises"))
            except RuntimeError:
                pass
        elif kind == "print-other":
            o = q.Measurement(3.0, 0.4) * q.Measurement(2.0, 0.5)
            o.error_method = q.ErrorMethod.MONTE_CARLO
            _ = str(o), repr(o)
        else:
            raise KeyError(kind)


def reset(q, global_size=None):
    q.reset_default_configuration()
    # the plotting sub-package is imported the way a script imports it: at the top, under the default
    # configuration (whatever it evaluates at import time -- decorators with arguments -- sees the
    # defaults, in the check run as in a replay in a new interpreter)
    import sys
    if "qexpy.plotting" not in sys.modules:
        import qexpy.plotting  # noqa: F401
    q.reset_correlations()
    q.clear_unit_definitions()
    if global_size is not None:
        set_global(q, global_size)


def global_route(n):
    """both routes to the global sample size are used: the function and the settings attribute
    (chosen by the parity of the size, so that a replay takes the same route)"""
    return "attribute" if int(n) % 2 else "function"


def set_global(q, n):
    if global_route(n) == "attribute":
        q.get_settings().monte_carlo_sample_size = n
    else:
        q.set_monte_carlo_sample_size(n)


def seed_numpy(rng):
    np.random.seed(rng.randrange(2 ** 32))


def source_order(q, derived, meas):
    """variable indices of the sources, in the order the library iterates them"""
    import qexpy.data.operations as op
    ids = op._find_source_measurement_ids(derived._formula)
    by_id = {m._id: i for i, m in enumerate(meas)}
    return [by_id[i] for i in ids]


def corr_matrix_impl(q, meas, order):
    import qexpy.data.data as dt
    return [[float(dt.get_correlation(meas[i], meas[j])) for j in order] for i in order]


def bitlist(xs):
    return [bits(float(x)) for x in xs]


def fbs(lst):
    return [fb(p) for p in lst]


def compare_arrays(impl, model_fb, slack=64.0):
    """element-wise conditioned comparison; returns index of the first mismatch or None"""
    if len(impl) != len(model_fb):
        return -1
    for i, (x, (v, b)) in enumerate(zip(impl, model_fb)):
        if not close(float(x), v, b, slack=slack):
            return i
    return None


def min_eig(R):
    return float(np.linalg.eigvalsh(np.array(R, dtype=float)).min())


# ---------------------------------------------------------------------------------------------
# formulas with a known shape (used by C16 histories and the C02 statistical supplement)

def shaped_formula(q, kind, rng):
    """returns (derived value, measurements, description, everywhere_defined)"""
    M = q.Measurement
    if kind == "sum":
        a, b = M(rng.uniform(-5, 5), rng.uniform(0.1, 1)), M(rng.uniform(-5, 5), rng.uniform(0.1, 1))
        return a + b, [a, b], "a+b (symmetric)", True
    if kind == "single":
        a = M(rng.uniform(-5, 5), rng.uniform(0.1, 1))
        return a * 1, [a], "a*1 (symmetric, one source)", True
    if kind == "exp":
        a = M(rng.uniform(-1, 1), rng.uniform(0.3, 0.8))
        return q.exp(a), [a], "exp(a) (right-skewed)", True
    if kind == "negexp":
        a = M(rng.uniform(-1, 1), rng.uniform(0.3, 0.8))
        return -q.exp(a), [a], "-exp(a) (left-skewed)", True
    if kind == "square0":
        a = M(0.0, rng.uniform(0.5, 2))
        return a * a, [a], "a*a at 0 (mode in the first bin)", True
    if kind == "negsquare0":
        a = M(0.0, rng.uniform(0.5, 2))
        return 1 - a * a, [a], "1-a*a at 0 (mode in the last bin)", True
    if kind == "gauss":
        a = M(0.0, rng.uniform(0.5, 1.5))
        return q.exp(-(a * a)), [a], "exp(-a*a) (mode in the last bin)", True
    if kind == "prod":
        a, b = M(rng.uniform(1, 3), rng.uniform(0.2, 0.8)), M(rng.uniform(-1, 1), rng.uniform(0.2, 0.8))
        return a * b, [a, b], "a*b", True
    if kind == "sqrt":
        a = M(rng.uniform(0.3, 1.0), rng.uniform(0.3, 0.6))
        return q.sqrt(a), [a], "sqrt(a) (undefined on part of the draws)", False
    raise KeyError(kind)


SHAPES = ["sum", "single", "exp", "negexp", "square0", "negsquare0", "gauss", "prod", "sqrt"]


def build_formula(q, case, meas):
    """exprgen.build_impl with the measurement objects supplied by the caller (so that some of
    them can be repeated measurements); returns the object per node"""
    objs = []
    for n in case["nodes"]:
        t = n[0]
        if t == "var":
            objs.append(meas[n[1]])
        elif t == "const":
            c = unbits(n[1])
            objs.append(int(c) if c.is_integer() and abs(c) < 100 and (n[1] % 3 == 0) else c)
        elif t == "un":
            op, a = n[1], objs[n[2]]
            if op == "neg":
                objs.append(-a)
            elif op == "ln":
                objs.append(q.log(a))
            else:
                objs.append(getattr(q, op)(a))
        elif t == "deg":
            objs.append(getattr(q, n[1])(objs[n[2]]))
        elif t == "bin":
            op, a, b = n[1], objs[n[2]], objs[n[3]]
            if op == "log":
                objs.append(q.log(a, b))
            else:
                objs.append(exprgen.PYOPS[op](a, b))
        else:
            raise ValueError(t)
    for i, j, r in case["rho"]:
        q.set_correlation(meas[i], meas[j], unbits(r))
    return objs
